"""C07 — recorded constants equal the values the C++ compiler computes.

specs: ConstExpr (C++ `int` evaluation rule Ev, precedence table, minimal / full token sequences),
ConstExprGen (TLC enumerates every expression tree within the cfg bounds as a postfix behaviour and
checks the laws of the rule in every state), NumLex (character-level literal scanner: spelling ->
value), ConstExprEnv (sequences of declarations with references, textual macros, implicit
enumerator increment).

bind (replay): every dumped expression / literal / translation unit is written into generated headers
as the three kinds of declaration whose value the database records — an enumerator, an object-like
macro, an array bound — `interrogate -od` is run on them and the values are read back through the C
query interface (harness/c07_dump.py: enum values, manifest int values, array sizes) and compared
with the value the spec state carries.  Cast-free expressions and all literals are also evaluated by the
preprocessor itself (`#if (e) == v` selecting the value of a marker macro).  A batch that ends abnormally is bisected until the offending
declarations are isolated.  Oracle sanity: g++ compiles the SAME headers and prints the same
constants; spec != g++ is a MachineryError, never a violation."""
import os, json, subprocess, sys
from ..common import MachineryError, VERIF
from .. import build, tlc, run
from .. import constexpr as X

TLC_JOBS = {
    # (spec module, cfg, workers, simulate, depth)
    "quick": [("ConstExprMC", "ConstExpr_quick", 8, None, None),
              ("ConstExprMC", "ConstExpr_edge", 2, None, None),
              ("NumLexMC", "NumLex_quick", 2, None, None),
              ("ConstExprEnvMC", "ConstExprEnv_quick", 6, None, None)],
    "thorough": [("ConstExprMC", "ConstExpr_thorough", 8, None, None),
                 ("ConstExprMC", "ConstExpr_edge", 2, None, None),
                 ("ConstExprMC", "ConstExpr_sim", 4, 8000, 9),
                 ("NumLexMC", "NumLex_thorough", 4, None, None),
                 ("ConstExprEnvMC", "ConstExprEnv_thorough", 8, None, None)],
}
ENV_REPLAY_LIMIT = {"quick": 12000, "thorough": 10 ** 9}
BATCH = 400
LEAVES = [0, 1, -1, 2, 3, 7, 8, 31, 255, 256, 1073741824, 2147483647, -2147483647]
DUMPER = os.path.join(VERIF, "harness", "c07_dump.py")

# classes of input (finding ids); a class is a predicate over the CASE, never over what was observed
UNEVAL_OK_WHY = ("CPPExpression::evaluate() knows casts to bool, int, float and double only; a cast to char is "
                 "reported as unevaluated (enum without values / macro without int value), which the property "
                 "permits; a number, if one is recorded, must be the right one")


# ----------------------------------------------------------------------------------------------
# prelude: one earlier declaration of every kind for every leaf value, so that a leaf can be spelled as a
# reference to an earlier enumerator / const int / constexpr int / object-like macro

def _vid(v):
    return ("n%d" % -v) if v < 0 else str(v)


def prelude(values):
    vs = sorted(set(values))
    out = ["enum PE { " + ", ".join("PE_%s = %d" % (_vid(v), v) for v in vs) + " };"]
    for v in vs:
        out.append("const int PC_%s = %d;" % (_vid(v), v))
        out.append("constexpr int PX_%s = %d;" % (_vid(v), v))
        out.append("#define PM_%s %s" % (_vid(v), ("(%d)" % v) if v < 0 else str(v)))
    return out


def refs_for(values):
    return {v: ["PE_" + _vid(v), "PC_" + _vid(v), "PX_" + _vid(v), "PM_" + _vid(v)] for v in values}


REFS = refs_for(LEAVES)
REFS_PP = {v: ["PM_" + _vid(v)] for v in LEAVES}      # in #if only macros are constants


def if_lines(cid, text, v):
    """The preprocessor's own evaluation of the same expression, made observable as a macro value."""
    return ["#if (%s) == %d" % (text, v), "#define I_%d 1" % cid, "#else", "#define I_%d 0" % cid, "#endif"]


# ----------------------------------------------------------------------------------------------
# cases

def has_node(t, kind, op=None):
    if not isinstance(t, list):
        return False
    if t[0] == kind and (op is None or t[1] == op):
        return True
    return any(has_node(c, kind, op) for c in t[1:] if isinstance(c, list))


def tree_ops(t, acc=None):
    acc = set() if acc is None else acc
    if isinstance(t, list):
        if t[0] in ("un", "bin", "cast"):
            acc.add(t[0] + t[1])
        elif t[0] == "cond":
            acc.add("cond")
        for c in t[1:]:
            tree_ops(c, acc)
    return acc


def expr_case(cid, rec):
    """One enumerated tree -> enumerator (minimal parentheses), macro (minimal, other spellings; every
    third case fully parenthesised), array bound (positive values; alternately full / minimal)."""
    t, d, v = rec["t"], rec["d"], rec["v"]
    c = dict(id=cid, kind="expr", tree=t, d=d, v=v, lines=[], expect=[], classes=[],
             uneval_ok=has_node(t, "cast", "char"), oracle=(d == "ok"))

    def text(off, full=False, spaced=False, refs=REFS):
        sp = X.respell(t, lambda val, i: X.spell_value(val, cid * 7 + i * 3 + off, refs))
        return X.join(X.toks_full(sp) if full else X.toks_min(sp), spaced=spaced)
    if d == "ok":
        c["lines"].append("enum E_%d { V_%d = %s };" % (cid, cid, text(0)))
        c["expect"].append(("E", "E_%d" % cid, [["V_%d" % cid, v]]))
        c["lines"].append("#define M_%d %s" % (cid, text(1, full=(cid % 3 == 0), spaced=(cid % 5 == 0))))
        c["expect"].append(("M", "M_%d" % cid, v))
        if v > 0:
            c["lines"].append("extern char a_%d[%s];" % (cid, text(2, full=(cid % 2 == 0))))
            c["expect"].append(("A", "a_%d" % cid, v))
        if not has_node(t, "cast"):
            # a cast is not a preprocessor expression
            c["lines"] += if_lines(cid, text(3, refs=REFS_PP), v)
            c["expect"].append(("M", "I_%d" % cid, 1))
    else:
        # a zero divisor is evaluated: `#define M (1/0)` is a valid program, the macro has no value.
        # interrogate treats what it cannot evaluate as "unknown" and lets `unknown && 0`, `unknown || 1`
        # be 0 / 1; for an operand WITHOUT a value that is neither right nor a wrong number (no compiler
        # computes one), so under && / || only normal termination is demanded.
        c["lines"].append("#define M_%d %s" % (cid, text(1)))
        c["expect"].append(("M", "M_%d" % cid, None))
        c["any_value_ok"] = has_node(t, "bin", "&&") or has_node(t, "bin", "||")
    c["text"] = X.join(X.toks_min(t))
    return c


def lit_case(cid, rec):
    s = "".join(map(chr, rec["cs"]))
    v = rec["v"]
    unsigned = "u" in rec["s"].lower()
    c = dict(id=cid, kind="lit", text=s, v=v, d="ok", lines=[], expect=[], classes=[], uneval_ok=False, oracle=True)
    c["lines"].append("enum E_%d { V_%d = %s };" % (cid, cid, s))
    c["expect"].append(("E", "E_%d" % cid, [["V_%d" % cid, v]]))
    c["lines"].append("#define M_%d %s" % (cid, s))
    c["expect"].append(("M", "M_%d" % cid, v))
    if 0 < v:
        c["lines"].append("extern char a_%d[%s];" % (cid, s))
        c["expect"].append(("A", "a_%d" % cid, v))
    c["lines"] += if_lines(cid, s, v)
    c["expect"].append(("M", "I_%d" % cid, 1))
    if not unsigned and v < X.INT_MAX:
        # the literal as an operand: next to an operator on both sides
        c["lines"].append("enum F_%d { W_%d = 1+%s -1, U_%d };" % (cid, cid, s, cid))
        c["expect"].append(("E", "F_%d" % cid, [["W_%d" % cid, v], ["U_%d" % cid, v + 1]]))
    return c


def env_case(cid, rec):
    """One translation unit of ConstExprEnv."""
    p = rec["p"]
    name = lambda i: "D%d_%d" % (cid, i)
    lit = lambda v: str(v)

    def expr(e):
        k = e[0]
        if k == "lit":
            return lit(e[1])
        if k == "ref":
            return name(e[1])
        if k == "neg":
            return "-" + name(e[1])
        if k == "rl":
            return "%s %s %s" % (name(e[2]), e[1], lit(e[3]))
        if k == "lr":
            return "%s %s %s" % (lit(e[2]), e[1], name(e[3]))
        return "%s %s %s" % (name(e[2]), e[1], name(e[3]))
    c = dict(id=cid, kind="env", prog=p, d="ok", lines=[], expect=[], classes=[], uneval_ok=False, oracle=True)
    # input class C07-macro-sign-paste: a macro body `-X` where X is an object-like macro whose fully
    # replaced text starts with `-`

    def first(j):
        d = p[j - 1]
        if d["k"] == "macroP":
            return "("
        if d["k"] != "macroB":
            return "n"                      # a C++ name
        e = d["e"]
        if e[0] == "lit":
            return lit(e[1])[0]
        if e[0] == "neg":
            return "-"
        if e[0] == "lr":
            return lit(e[2])[0]
        return first(e[1] if e[0] == "ref" else e[2])
    for dcl in p:
        if dcl["k"] in ("macroP", "macroB") and dcl["e"] and dcl["e"][0] == "neg" and first(dcl["e"][1]) == "-":
            c["classes"] = ["C07-macro-sign-paste"]
    cur, ne = None, 0
    for i, dcl in enumerate(p, 1):
        k = dcl["k"]
        if k == "open":
            ne += 1
            cur = ("EN%d_%d" % (cid, ne), [], [])
        elif k == "close":
            c["lines"].append("enum %s { %s };" % (cur[0], ", ".join(cur[1])))
            c["expect"].append(("E", cur[0], cur[2]))
            cur = None
        elif k == "enumE":
            cur[1].append("%s = %s" % (name(i), expr(dcl["e"])))
            cur[2].append([name(i), dcl["v"]])
        elif k == "enumI":
            cur[1].append(name(i))
            cur[2].append([name(i), dcl["v"]])
        elif k == "const":
            c["lines"].append("const int %s = %s;" % (name(i), expr(dcl["e"])))
        elif k == "constexpr":
            c["lines"].append("constexpr int %s = %s;" % (name(i), expr(dcl["e"])))
        elif k == "macroP":
            c["lines"].append("#define %s (%s)" % (name(i), expr(dcl["e"])))
            c["expect"].append(("M", name(i), dcl["v"]))
        elif k == "macroB":
            c["lines"].append("#define %s %s" % (name(i), expr(dcl["e"])))
            c["expect"].append(("M", name(i), dcl["v"]))
        elif k == "array":
            c["lines"].append("extern char %s[%s];" % (name(i), expr(dcl["e"])))
            c["expect"].append(("A", name(i), dcl["v"]))
    c["text"] = " ".join(c["lines"])
    return c


# expressions outside the enumerated grammar: what interrogate documents it cannot (always) evaluate.
# (declaration template, form, True: g++ computes the value | False: there is no value | the value)
# expectation: unevaluated, or exactly that value
HARD = [
    ("#define {n} sizeof(int)", "M", True), ("#define {n} sizeof(long) * 2", "M", True),
    ("#define {n} alignof(double)", "M", True), ("#define {n} (int)2.9", "M", True),
    ("#define {n} int(7)", "M", True), ("#define {n} static_cast<int>(7) + 1", "M", True),
    ("#define {n} (long)5 + 1", "M", True), ("#define {n} (unsigned char)7", "M", True),
    ("#define {n} (short)70000", "M", True), ("#define {n} (unsigned short)65537", "M", True),
    ("#define {n} (unsigned)7", "M", True), ("#define {n} (unsigned)-1", "M", True),
    ("enum EH_{i} {{ {n} = (short)-70000 }};", "E", True), ("#define {n} (long long)-5", "M", True),
    ("#define {n} \"abc\"[1]", "M", True), ("#define {n} not_declared_anywhere(3)", "M", False),
    ("#define {n} 1.5 + 1", "M", False), ("#define {n} 3 +", "M", False),
    # the value does not depend on the operand interrogate cannot evaluate
    ("int fh_{i}();\n#define {n} (fh_{i}() || 5)", "M", 1), ("int fh_{i}();\n#define {n} (fh_{i}() && 0)", "M", 0),
    ("int fh_{i}();\n#define {n} (0 && fh_{i}())", "M", 0), ("int fh_{i}();\n#define {n} (7 || fh_{i}())", "M", 1),
    ("enum EH_{i} {{ {n} = sizeof(int) }};", "E", True), ("enum EH_{i} {{ {n} = sizeof(char) + 1 }};", "E", True),
    ("extern char {n}[sizeof(int)];", "A", True), ("extern char {n}[sizeof(long) * 2];", "A", True),
    ("struct SH_{i} {{ int x; }}; extern char {n}[sizeof(SH_{i})];", "A", True),
]


def hard_case(cid, k):
    tmpl, form, gxx = HARD[k]
    n = "H_%d" % cid
    c = dict(id=cid, kind="hard", d="hard", text=tmpl.format(n=n, i=cid), lines=[tmpl.format(n=n, i=cid)],
             expect=[], classes=[], uneval_ok=True, oracle=(gxx is True), gxx=gxx, form=form, name=n)
    return c


# ----------------------------------------------------------------------------------------------
# running one batch

def header_text(cases, values):
    lines = ["// generated by vf/checks/c07.py"] + prelude(values)
    for c in cases:
        lines += c["lines"]
    return "\n".join(lines) + "\n"


class Runner:
    def __init__(self, ctx):
        self.ctx = ctx
        self.abnormal = []
        self.lib = os.path.join(build.libdir(), "libinterrogatedb.so")

    def run_cases(self, cases, tag):
        """interrogate on the header made of `cases`.  Returns (status, observation): status "ok" with the
        dumped constants, or "abnormal" with a description."""
        work = self.ctx.tmp
        hdr = "%s.h" % tag
        with open(os.path.join(work, hdr), "w") as f:
            f.write(header_text(cases, LEAVES))
        db = "%s.in" % tag
        if os.path.exists(os.path.join(work, db)):
            os.remove(os.path.join(work, db))
        r = run.run_tool("interrogate", ["-od", db, "-module", "m", "-library", "l", "-promiscuous", hdr],
                         cwd=work, timeout=120, outputs=(db,))
        if r.rc != 0 or r.timed_out or not r.outputs[db]:
            return "abnormal", "exit status %s, signal %s, timeout %s; stderr: %s" % (
                r.rc, r.signal, r.timed_out, r.stderr[-300:].strip())
        p = subprocess.run([sys.executable, DUMPER, self.lib, db], cwd=work, stdout=subprocess.PIPE,
                           stderr=subprocess.PIPE, text=True)
        if p.returncode != 0:
            raise MachineryError("c07_dump.py failed on %s: %s" % (db, p.stderr[-1000:]))
        return "ok", json.loads(p.stdout)

    def isolate(self, cases, tag):
        """Bisect an abnormally ending batch.  Returns [(cases, observation)] for the parts that ran and
        reports every isolated offending case."""
        st, obs = self.run_cases(cases, tag)
        if st == "ok":
            return [(cases, obs)]
        if len(cases) == 1:
            c = cases[0]
            self.ctx.violation("interrogate ends abnormally on `%s` (%s)" % (short(c), obs),
                               payload(c, None, obs), classes=c["classes"])
            self.abnormal.append(c["id"])
            return []
        h = len(cases) // 2
        return self.isolate(cases[:h], tag + "a") + self.isolate(cases[h:], tag + "b")


def short(c):
    return (c.get("text") or " ".join(c["lines"]))[:160]


def payload(c, exp, got):
    return dict(kind=c["kind"], declarations=c["lines"], expected=exp, observed=got,
                tree=c.get("tree"), program=c.get("prog"),
                command="interrogate -od x.in -module m -library l -promiscuous x.h  (x.h = declarations"
                        " below, preceded by the prelude of vf/checks/c07.py)",
                prelude=prelude(LEAVES) if c["kind"] == "expr" else None)


def oracle_program(cases, hdr):
    """A C++ program that prints the constants of the header as g++ computes them."""
    out = ['#include "%s"' % hdr, "#include <cstdio>"]
    body = []
    for c in cases:
        if not c["oracle"]:
            continue
        if c["kind"] == "hard":
            n = c["name"]
            if c["form"] == "M":
                out.append("constexpr long long cm_%s = (%s);" % (n, n))
                body.append('printf("M %s %%lld\\n", cm_%s);' % (n, n))
            elif c["form"] == "E":
                body.append('printf("E %s %%lld\\n", (long long)%s);' % (n, n))
            else:
                body.append('printf("A %s %%zu\\n", sizeof(%s));' % (n, n))
            continue
        for form, name, val in c["expect"]:
            if form == "E":
                for vn, _ in val:
                    body.append('printf("E %s %%lld\\n", (long long)%s);' % (vn, vn))
            elif form == "M":
                # constant evaluation is forced: an expression with undefined behaviour does not compile
                out.append("constexpr long long cm_%s = (%s);" % (name, name))
                body.append('printf("M %s %%lld\\n", cm_%s);' % (name, name))
            else:
                body.append('printf("A %s %%zu\\n", sizeof(%s));' % (name, name))
    out.append("int main() {")
    out += body
    out.append("return 0; }")
    return "\n".join(out) + "\n"


def run_oracle(work, cases, tag):
    hdr = "%s.h" % tag
    src = os.path.join(work, tag + "_o.cxx")
    exe = os.path.join(work, tag + "_o")
    open(src, "w").write(oracle_program(cases, hdr))
    p = subprocess.run(["g++", "-std=c++20", "-w", "-O0", "-o", exe, src], cwd=work, stdout=subprocess.PIPE,
                       stderr=subprocess.PIPE, text=True)
    if p.returncode != 0:
        raise MachineryError("g++ rejects a header the spec calls well-formed (%s):\n%s" % (hdr, p.stderr[:1500]))
    q = subprocess.run([exe], stdout=subprocess.PIPE, text=True)
    vals = {}
    for line in q.stdout.split("\n"):
        f = line.split()
        if len(f) == 3:
            vals[(f[0], f[1])] = int(f[2])
    return vals


def check_oracle(cases, vals):
    """spec == g++ on every constant, else MachineryError."""
    n = 0
    for c in cases:
        if not c["oracle"] or c["kind"] == "hard":
            continue
        for form, name, val in c["expect"]:
            items = [(vn, vv) for vn, vv in val] if form == "E" else [(name, val)]
            for nm, vv in items:
                g = vals.get((form, nm))
                n += 1
                if g != vv:
                    raise MachineryError("spec != g++ on `%s`: %s %s spec %r g++ %r" % (short(c), form, nm, vv, g))
    return n


def compare(ctx, c, obs, gvals, stats):
    """Projection of the database to the spec's observables and comparison, one case."""
    if c["kind"] == "hard":
        form, n = c["form"], c["name"]
        if form == "M":
            got = obs["M"].get(n, "absent")
            if got == "absent":
                got = None
        elif form == "E":
            vals = [v for e in obs["E"].values() for nm, v in e if nm == n]
            got = vals[0] if vals else None
        else:
            got = obs["A"].get(n)
            if got == -1:
                got = None
        want = gvals.get((form, n)) if c["gxx"] is True else (None if c["gxx"] is False else c["gxx"])
        stats["hard_unevaluated" if got is None else "hard_evaluated"] += 1
        if got is not None and got != want:
            ctx.violation("`%s`: interrogate cannot evaluate this reliably and must report it as unevaluated or "
                          "record the compiler's value %s, but records %s" % (short(c), want, got),
                          payload(c, want, got), classes=c["classes"])
        return
    for form, name, val in c["expect"]:
        if form == "E":
            got = obs["E"].get(name)
            ok = got == val
            uneval = got is not None and len(got) < len(val) and got == val[:len(got)]
        elif form == "M":
            got = obs["M"].get(name, "absent")
            ok = got == val
            uneval = got is None
        else:
            got = obs["A"].get(name, "absent")
            ok = got == val
            uneval = got == -1
        stats["compared"] += 1
        if ok or c.get("any_value_ok"):
            continue
        if uneval and c["uneval_ok"]:
            stats["unevaluated_allowed"] += 1
            continue
        what = "reported as unevaluated" if uneval else "recorded as %s" % (got,)
        want = "must be reported as unevaluated (no value)" if val is None else "value %s" % (val,)
        ctx.violation("`%s` [%s %s]: %s, %s" % (short(c), form, name, want, what),
                      payload(c, val, got), classes=c["classes"])


# ----------------------------------------------------------------------------------------------

def run_check(ctx):
    build.ensure("hooked")
    tier = ctx.tier
    work = ctx.tmp

    # ---- TLC ------------------------------------------------------------------------------
    def job(j):
        spec, cfg, workers, sim, depth = j
        dump = os.path.join(work, "dump-%s.ndjson" % cfg)
        res = tlc.run(spec, cfg, workers=workers, env={"VERIF_DUMP": dump}, simulate=sim, depth=depth,
                      timeout=600 if tier == "quick" else 1500, xmx="3g")
        return j, dump, res
    dumps = {}
    for j, dump, res in run.pmap(job, TLC_JOBS[tier], workers=len(TLC_JOBS[tier])):
        ctx.add_tlc(res)
        if res.verdict == "invariant":
            raise MachineryError("%s/%s: invariant %s violated in the model\n%s" % (j[0], j[1], res.violated, res.out[-2500:]))
        tlc.must_ok(res)
        dumps.setdefault(j[0], []).append((j[1], dump))
    ctx.cov["exhaustive"] = True

    # ---- dumps -> cases (sorted: the dump order of a parallel TLC run is not deterministic) ------
    seen, trees = set(), []
    for cfg, d in dumps["ConstExprMC"]:
        for rec in tlc.read_dump(d):
            key = json.dumps(rec["t"])
            if key not in seen:
                seen.add(key)
                trees.append((key, rec))
    trees.sort(key=lambda kr: kr[0])
    if not trees:
        raise MachineryError("no expressions dumped")
    # the Python mirror (used for spellings and by vf/condexpr.py) must be the spec, on every tree
    for key, rec in trees:
        t = rec["t"]
        if X.ev(t) != (rec["d"], rec["v"]) or X.toks_min(t) != rec["m"] or X.toks_full(t) != rec["f"]:
            raise MachineryError("vf/constexpr.py disagrees with ConstExpr.tla on %s: %r %r %r vs %r" % (
                key, X.ev(t), X.toks_min(t), X.toks_full(t), rec))
    lits = {}
    for cfg, d in dumps["NumLexMC"]:
        for rec in tlc.read_dump(d):
            s = "".join(map(chr, rec["cs"]))
            lits[s] = rec
            got = X.lex_literal(s)
            if got is None or got[0] != rec["k"] or got[1] != rec["v"] or got[3] != rec["s"]:
                raise MachineryError("vf/constexpr.py lex_literal disagrees with NumLex.tla on %r: %r vs %r" % (s, got, rec))
    # every spelling the renderer may choose is a literal of that value by the NumLex rules
    for v in LEAVES:
        for s in X.int_spellings(abs(v), unsigned=True) + X.CHAR_SPELL.get(abs(v), []):
            g = X.lex_literal(s)
            if g is None or g[1] != abs(v):
                raise MachineryError("spelling %r of %d is not accepted by the NumLex mirror" % (s, abs(v)))
    envs = []
    for cfg, d in dumps["ConstExprEnvMC"]:
        for rec in tlc.read_dump(d):
            envs.append((json.dumps(rec["p"]), rec))
    envs.sort(key=lambda kr: kr[0])
    n_env_total = len(envs)
    lim = ENV_REPLAY_LIMIT[tier]
    if len(envs) > lim:
        # fixed stratified cut (every k-th unit of the sorted enumeration), independent of the seed
        k = -(-len(envs) // lim)
        envs = envs[::k]

    cases = []
    cid = 0
    for key, rec in trees:
        cid += 1
        cases.append(expr_case(cid, rec))
    n_expr = len(cases)
    for s in sorted(lits):
        cid += 1
        cases.append(lit_case(cid, lits[s]))
    n_lit = len(cases) - n_expr
    for key, rec in envs:
        cid += 1
        cases.append(env_case(cid, rec))
    n_env = len(cases) - n_expr - n_lit
    for k in range(len(HARD)):
        cid += 1
        cases.append(hard_case(cid, k))

    # ---- replay ------------------------------------------------------------------------------
    rn = Runner(ctx)
    batches = [cases[i:i + BATCH] for i in range(0, len(cases), BATCH)]
    stats = dict(compared=0, unevaluated_allowed=0, hard_unevaluated=0, hard_evaluated=0, oracle_constants=0)

    def one(ib):
        i, b = ib
        tag = "b%04d" % i
        parts = rn.isolate(b, tag)
        # the oracle sees the complete batch header (written first by isolate -> run_cases)
        open(os.path.join(work, tag + ".h"), "w").write(header_text(b, LEAVES))
        gvals = run_oracle(work, b, tag)
        return b, parts, gvals
    results = run.pmap(one, list(enumerate(batches)))
    nontrivial = set()
    n_replayed = 0
    for b, parts, gvals in results:
        stats["oracle_constants"] += check_oracle(b, gvals)
        for part, obs in parts:
            for c in part:
                compare(ctx, c, obs, gvals, stats)
                n_replayed += 1
                if c["kind"] == "expr" and c["tree"][0] != "lit":
                    nontrivial.add(json.dumps(c["tree"]))
                elif c["kind"] == "lit" and not c["text"].isdigit():
                    nontrivial.add(c["text"])
                elif c["kind"] == "env" and any(d["k"] != "open" and d["e"] and d["e"][0] != "lit" for d in c["prog"]):
                    nontrivial.add(json.dumps(c["prog"]))
    ctx.cov["evaluations"] += stats["compared"]
    ctx.cov["distinct_nontrivial"] = len(nontrivial)
    ctx.cov["traces_validated_against_impl"] += n_replayed
    ctx.cov["rule"] = ("TLC enumerates every expression tree / literal spelling / declaration sequence within the cfg "
                       "bounds; each is replayed as enumerator, macro and array bound through interrogate -od and "
                       "the query interface, and through g++; evaluations = constants compared; non-trivial = an "
                       "expression with at least one operator, a literal that is not a plain decimal number, a "
                       "translation unit with at least one reference; distinct = distinct tree / spelling / unit")
    ops = set()
    for c in cases:
        if c["kind"] == "expr":
            ops |= tree_ops(c["tree"])
    ctx.notes.update(dict(expressions=n_expr, literals=n_lit, units=n_env, units_enumerated=n_env_total,
                          hard_expressions=len(HARD), batches=len(batches), abnormal_cases=len(rn.abnormal),
                          operators_covered=sorted(ops), unevaluated_allowed_why=UNEVAL_OK_WHY, **stats))
    step = max(1, len(cases) // 5)
    for c in cases[::step][:5]:
        ctx.sample(dict(kind=c["kind"], declarations=c["lines"], expected=c["expect"]))
    ctx.assumptions.append("int is 32 bit two's complement, char is signed 8 bit, >> of a negative value is arithmetic "
                           "(C++20): the platform of the oracle compiler; unsigned-suffixed literals only stand alone")


def replay(path):
    """./check C07 --replay <violation file>: run the recorded declarations through the current build
    again and print what the database records now."""
    import shutil
    from ..common import scratch
    d = json.load(open(path))
    case = d["case"]
    build.ensure("hooked")
    work = scratch("C07-replay")
    try:
        open(os.path.join(work, "x.h"), "w").write("\n".join(prelude(LEAVES) + case["declarations"]) + "\n")
        r = run.run_tool("interrogate", ["-od", "x.in", "-module", "m", "-library", "l", "-promiscuous", "x.h"],
                         cwd=work, timeout=60, monitor=False)
        print(d["desc"])
        print("\n".join(case["declarations"]))
        print("expected:", case["expected"])
        if r.rc != 0:
            print("interrogate: exit status %s signal %s\n%s" % (r.rc, r.signal, r.stderr[-500:]))
            return 1
        p = subprocess.run([sys.executable, DUMPER, os.path.join(build.libdir(), "libinterrogatedb.so"), "x.in"],
                           cwd=work, stdout=subprocess.PIPE, text=True)
        obs = json.loads(p.stdout)
        mine = {k: {n: v for n, v in obs[k].items() if not n.startswith(("PE", "PM_", "PC_", "PX_"))} for k in "EMA"}
        print("recorded now:", json.dumps(mine))
        return 0
    finally:
        shutil.rmtree(work, ignore_errors=True)
