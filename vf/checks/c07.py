"""C07 — recorded constants equal the values the C++ compiler computes.

specs: ConstExpr (C++ `int` evaluation rule Ev, precedence table, minimal / full token sequences),
ConstExprGen (TLC enumerates every expression tree within the cfg bounds as a postfix behaviour and
checks the laws of the rule in every state), NumLex (character-level literal scanner: spelling ->
value), ConstExprEnv (sequences of declarations with references, textual macros, implicit
enumerator increment).

bind (replay): every dumped expression / literal / translation unit is written into generated headers
as the three kinds of declaration whose value the database records — an enumerator, an object-like
macro, an array bound — `interrogate -od` is run on them and the values are read back through the C
query interface (harness/c07_dump.py: enum values, manifest int values, array sizes) and compared
with the value the spec state carries.  Cast-free expressions and all literals are also evaluated by the
preprocessor itself (`#if (e) == v` selecting the value of a marker macro).  A batch that ends abnormally is bisected until the offending
declarations are isolated.  Outside the value claim (classes of the spec): `div0` / `ovf` expressions have no
value and must be reported as unevaluated; `uns` / `big` expressions (unsigned arithmetic that wraps, literals
>= 2^31) and the table HARD must be unevaluated or exactly what g++ computes; an initialiser interrogate may
not be able to evaluate (flag mu of ConstExprEnv) must not remove the declarations around it.  Oracle sanity: g++ compiles the SAME headers and prints the same
constants; spec != g++ is a MachineryError, never a violation."""
import os, json, subprocess, sys, threading
from ..common import MachineryError, VERIF
from .. import build, tlc, run
from .. import constexpr as X

TLC_JOBS = {
    # (spec module, cfg, workers, simulate, depth)
    "quick": [("ConstExprMC", "ConstExpr_quick", 8, None, None),
              ("ConstExprMC", "ConstExpr_edge", 2, None, None),
              ("ConstExprMC", "ConstExpr_typed", 2, None, None),
              ("NumLexMC", "NumLex_quick", 2, None, None),
              ("ConstExprEnvMC", "ConstExprEnv_quick", 6, None, None),
              ("ConstExprEnvMC", "ConstExprEnv_typed", 4, None, None)],
    "thorough": [("ConstExprMC", "ConstExpr_thorough", 8, None, None),
                 ("ConstExprMC", "ConstExpr_edge", 2, None, None),
                 ("ConstExprMC", "ConstExpr_typed_thorough", 4, None, None),
                 ("ConstExprMC", "ConstExpr_sim", 4, 8000, 9),
                 ("NumLexMC", "NumLex_thorough", 4, None, None),
                 ("ConstExprEnvMC", "ConstExprEnv_thorough", 8, None, None),
                 ("ConstExprEnvMC", "ConstExprEnv_typed_thorough", 4, None, None)],
}
ENV_REPLAY_LIMIT = {"quick": 16000, "thorough": 250000}
BATCH = 400
LEAVES = [0, 1, -1, 2, 3, 7, 8, 31, 255, 256, 1073741824, 2147483647, -2147483647]
DUMPER = os.path.join(VERIF, "harness", "c07_dump.py")

# classes of input (finding ids); a class is a predicate over the CASE, never over what was observed
UNEVAL_OK_WHY = ("CPPExpression::evaluate() knows casts to bool, int, float and double only; a cast to char is "
                 "reported as unevaluated (enum without values / macro without int value), which the property "
                 "permits; a number, if one is recorded, must be the right one")


# ----------------------------------------------------------------------------------------------
# prelude: one earlier declaration of every kind for every leaf value, so that a leaf can be spelled as a
# reference to an earlier enumerator / const int / constexpr int / object-like macro

def _vid(v):
    return ("n%d" % -v) if v < 0 else str(v)


def prelude(values):
    vs = sorted(set(values))
    out = ["enum PE { " + ", ".join("PE_%s = %d" % (_vid(v), v) for v in vs) + " };"]
    for v in vs:
        out.append("const int PC_%s = %d;" % (_vid(v), v))
        out.append("constexpr int PX_%s = %d;" % (_vid(v), v))
        out.append("#define PM_%s %s" % (_vid(v), ("(%d)" % v) if v < 0 else str(v)))
    return out


def refs_for(values):
    return {v: ["PE_" + _vid(v), "PC_" + _vid(v), "PX_" + _vid(v), "PM_" + _vid(v)] for v in values}


REFS = refs_for(LEAVES)
REFS_PP = {v: ["PM_" + _vid(v)] for v in LEAVES}      # in #if only macros are constants


def if_lines(cid, text, v):
    """The preprocessor's own evaluation of the same expression, made observable as a macro value."""
    return ["#if (%s) == %d" % (text, v), "#define I_%d 1" % cid, "#else", "#define I_%d 0" % cid, "#endif"]


# ----------------------------------------------------------------------------------------------
# cases

def has_node(t, kind, op=None):
    if not isinstance(t, list):
        return False
    if t[0] == kind and (op is None or t[1] == op):
        return True
    return any(has_node(c, kind, op) for c in t[1:] if isinstance(c, list))


def tree_ops(t, acc=None):
    acc = set() if acc is None else acc
    if isinstance(t, list):
        if t[0] in ("un", "bin", "cast"):
            acc.add(t[0] + t[1])
        elif t[0] == "cond":
            acc.add("cond")
        for c in t[1:]:
            tree_ops(c, acc)
    return acc


def item(form, name, val, enum=None, mu=False, noval=False):
    """One recorded constant the check looks at.  form E (enumerator `name` of enum `enum`), M (manifest),
    A (array element).  val: the value the spec carries, or None = `the value the compiler computes`
    (taken from the g++ oracle).  mu: may be reported as unevaluated.  noval: there is no value, must be
    reported as unevaluated."""
    return dict(form=form, name=name, val=val, enum=enum, mu=mu, noval=noval)


def expr_case(cid, rec):
    """One enumerated tree -> enumerator (minimal parentheses), macro (minimal, other spellings; every
    third case fully parenthesised), array bound (positive values; alternately full / minimal)."""
    t, d, v = rec["t"], rec["d"], rec["v"]
    c = dict(id=cid, kind="expr", tree=t, d=d, v=v, lines=[], items=[], classes=[],
             uneval_ok=has_node(t, "cast", "char"), oracle=(d in ("ok", "uns", "big")))
    mu = c["uneval_ok"]

    def text(off, full=False, spaced=False, refs=REFS):
        sp = X.respell(t, lambda val, i: X.spell_value(val, cid * 7 + i * 3 + off, refs, pp=(refs is REFS_PP)))
        return X.join(X.toks_full(sp) if full else X.toks_min(sp), spaced=spaced)
    if d == "ok":
        c["lines"].append("enum E_%d { V_%d = %s };" % (cid, cid, text(0)))
        c["items"].append(item("E", "V_%d" % cid, v, enum="E_%d" % cid, mu=mu))
        c["lines"].append("#define M_%d %s" % (cid, text(1, full=(cid % 3 == 0), spaced=(cid % 5 == 0))))
        c["items"].append(item("M", "M_%d" % cid, v, mu=mu))
        if v > 0:
            c["lines"].append("extern char a_%d[%s];" % (cid, text(2, full=(cid % 2 == 0))))
            c["items"].append(item("A", "a_%d" % cid, v, mu=mu))
        if not has_node(t, "cast") and not has_node(t, "ulit") and not has_node(t, "big"):
            # a cast is not a preprocessor expression; unsigned / wide literals are 64 bit there
            c["lines"] += if_lines(cid, text(3, refs=REFS_PP), v)
            c["items"].append(item("M", "I_%d" % cid, 1))
    elif d in ("div0", "ovf"):
        # a zero divisor is evaluated / + - * leave the int range: `#define M (1/0)` is a valid program, the
        # macro has no value.  interrogate treats what it cannot evaluate as "unknown" and lets
        # `unknown && 0`, `unknown || 1` be 0 / 1; for an operand WITHOUT a value that is neither right nor
        # a wrong number (no compiler computes one), so under && / || only normal termination is demanded.
        c["lines"].append("#define M_%d %s" % (cid, text(1)))
        c["items"].append(item("M", "M_%d" % cid, None, noval=True))
        c["any_value_ok"] = d == "div0" and (has_node(t, "bin", "&&") or has_node(t, "bin", "||"))
        if d == "ovf" and not has_node(t, "ulit"):
            # C++ gives the expression no value (an int operation overflows).  A tool that evaluates in a
            # wider type, as the preprocessor does, may report the exact value where that fits in int
            # (`1 + 2147483647 != -1` is 1); `2147483647 + 1` itself can only be unevaluated.
            ex = X.ev_exact(t)
            if ex is None:
                # ... and where the overflowed operand feeds an operation that is undefined on it (a shift of
                # a negative value, intmax_t overflow) nothing is claimed beyond normal termination
                c["any_value_ok"] = True
            elif X.INT_MIN <= ex <= X.INT_MAX:
                c["items"][-1].update(noval=False, val=ex, mu=True, noask=True)
    else:
        # "uns" / "big": unsigned arithmetic that wraps, or a literal >= 2^31, is evaluated.  Outside the
        # value claim; the database must say `unevaluated` or exactly what the compiler computes.
        c["lines"].append("#define M_%d %s" % (cid, text(1)))
        c["items"].append(item("M", "M_%d" % cid, None, mu=True))
        # input class C07-unsigned-arithmetic: an operand of unsigned type takes part, and the unsigned
        # (modulo 2^32) computation differs from the signed one (that is what the classes uns / big say)
        if has_node(t, "ulit") or any(has_node(t, "big", b) for b in X.BIG_UNSIGNED):
            c["classes"] = ["C07-unsigned-arithmetic"]
    c["text"] = X.join(X.toks_min(t))
    return c


def lit_case(cid, rec):
    s = "".join(map(chr, rec["cs"]))
    v = rec["v"]
    unsigned = "u" in rec["s"].lower() or rec.get("p") == "U"
    c = dict(id=cid, kind="lit", text=s, v=v, d="ok", lines=[], items=[], classes=[], uneval_ok=False, oracle=True)
    c["lines"].append("enum E_%d { V_%d = %s };" % (cid, cid, s))
    c["items"].append(item("E", "V_%d" % cid, v, enum="E_%d" % cid))
    c["lines"].append("#define M_%d %s" % (cid, s))
    c["items"].append(item("M", "M_%d" % cid, v))
    if 0 < v:
        c["lines"].append("extern char a_%d[%s];" % (cid, s))
        c["items"].append(item("A", "a_%d" % cid, v))
    c["lines"] += if_lines(cid, s, v)
    c["items"].append(item("M", "I_%d" % cid, 1))
    if not unsigned and v < X.INT_MAX:
        # the literal as an operand: next to an operator on both sides
        c["lines"].append("enum F_%d { W_%d = 1+%s -1, U_%d };" % (cid, cid, s, cid))
        c["items"].append(item("E", "W_%d" % cid, v, enum="F_%d" % cid))
        c["items"].append(item("E", "U_%d" % cid, v + 1, enum="F_%d" % cid))
    return c


TTYPE_TEXT = {"bool": "bool", "char": "char", "schar": "signed char", "uchar": "unsigned char", "short": "short",
              "ushort": "unsigned short", "int": "int"}
OPEN_TEXT = {"open": "enum %s", "openC": "enum class %s", "openU": "enum %s : unsigned char",
             "openCS": "enum class %s : short"}


def env_case(cid, rec):
    """One translation unit of ConstExprEnv."""
    p = rec["p"]
    name = lambda i: "D%d_%d" % (cid, i)
    lit = lambda v: str(v)
    # the enum every enumerator belongs to
    owner, cur_o, ne = {}, None, 0
    for i, dcl in enumerate(p, 1):
        if dcl["k"] in OPEN_TEXT:
            ne += 1
            cur_o = ("EN%d_%d" % (cid, ne), dcl["k"])
        elif dcl["k"] == "close":
            cur_o = None
        elif dcl["k"] in ("enumE", "enumI"):
            owner[i] = cur_o

    def ref(i, user):
        """how declaration `user` names declaration i"""
        if i not in owner or owner.get(user) == owner[i]:
            return name(i)
        en, kind = owner[i]
        if kind in ("openC", "openCS"):
            return "(int)%s::%s" % (en, name(i))          # a scoped enumerator does not convert by itself
        return "%s::%s" % (en, name(i)) if (cid + i) % 2 else name(i)

    def expr(e, user=0):
        k = e[0]
        if k == "lit":
            return lit(e[1])
        if k == "cc":
            return "(char)" + lit(e[1])
        if k == "ref":
            return ref(e[1], user)
        if k == "neg":
            return "-" + ref(e[1], user)
        if k == "rl":
            return "%s %s %s" % (ref(e[2], user), e[1], lit(e[3]))
        if k == "lr":
            return "%s %s %s" % (lit(e[2]), e[1], ref(e[3], user))
        return "%s %s %s" % (ref(e[2], user), e[1], ref(e[3], user))
    c = dict(id=cid, kind="env", prog=p, d="ok", lines=[], items=[], classes=[], uneval_ok=False, oracle=True)
    # input class C07-macro-sign-paste: a macro body `-X` where X is an object-like macro whose fully
    # replaced text starts with `-`

    def first(j):
        d = p[j - 1]
        if d["k"] == "macroP":
            return "("
        if d["k"] != "macroB":
            return "n"                      # a C++ name (or a cast)
        e = d["e"]
        if e[0] == "lit":
            return lit(e[1])[0]
        if e[0] == "cc":
            return "("
        if e[0] == "neg":
            return "-"
        if e[0] == "lr":
            return lit(e[2])[0]
        return first(e[1] if e[0] == "ref" else e[2])
    for dcl in p:
        if dcl["k"] in ("macroP", "macroB") and dcl["e"] and dcl["e"][0] == "neg" and first(dcl["e"][1]) == "-":
            c["classes"] = ["C07-macro-sign-paste"]
    cur = None
    for i, dcl in enumerate(p, 1):
        k = dcl["k"]
        mu = bool(dcl.get("mu"))
        if k in OPEN_TEXT:
            cur = (owner_name(owner, p, i), [], k)
        elif k == "close":
            c["lines"].append("%s { %s };" % (OPEN_TEXT[cur[2]] % cur[0], ", ".join(cur[1])))
            cur = None
        elif k == "enumE":
            cur[1].append("%s = %s" % (name(i), expr(dcl["e"], i)))
            c["items"].append(item("E", name(i), dcl["v"], enum=cur[0], mu=mu))
        elif k == "enumI":
            cur[1].append(name(i))
            c["items"].append(item("E", name(i), dcl["v"], enum=cur[0], mu=mu))
        elif k == "tconst":
            _, ty, v, frac = dcl["e"]
            c["lines"].append("const %s %s = %s;" % (TTYPE_TEXT[ty], name(i), ("%d.5" % v) if frac else str(v)))
        elif k == "const":
            c["lines"].append("const int %s = %s;" % (name(i), expr(dcl["e"])))
        elif k == "constexpr":
            c["lines"].append("constexpr int %s = %s;" % (name(i), expr(dcl["e"])))
        elif k == "macroP":
            c["lines"].append("#define %s (%s)" % (name(i), expr(dcl["e"])))
            c["items"].append(item("M", name(i), dcl["v"], mu=mu))
        elif k == "macroB":
            c["lines"].append("#define %s %s" % (name(i), expr(dcl["e"])))
            c["items"].append(item("M", name(i), dcl["v"], mu=mu))
        elif k == "array":
            c["lines"].append("extern char %s[%s];" % (name(i), expr(dcl["e"])))
            c["items"].append(item("A", name(i), dcl["v"], mu=mu))
    c["text"] = " ".join(c["lines"])
    return c


def owner_name(owner, p, i):
    """name of the enum opened by declaration i (= the owner of the enumerators that follow)"""
    for j in range(i + 1, len(p) + 1):
        if j in owner:
            return owner[j][0]
    return "ENx_%d" % i


# declarations outside the enumerated grammar: what interrogate documents it cannot (always) evaluate.
# (declaration template, [(form, name suffix, value)]) with value True: the one g++ computes, False: there is
# none, an int: that value.  Expectation for these constants: unevaluated, or exactly that value.
# An int in brackets [v] is a strict expectation (must be present and right): the enumerators AROUND one
# that cannot be evaluated.
HARD = [
    ("#define {n} sizeof(int)", [("M", "", True)]), ("#define {n} sizeof(long) * 2", [("M", "", True)]),
    ("#define {n} alignof(double)", [("M", "", True)]), ("#define {n} (int)2.9", [("M", "", True)]),
    ("#define {n} int(7)", [("M", "", True)]), ("#define {n} static_cast<int>(7) + 1", [("M", "", True)]),
    ("#define {n} (long)5 + 1", [("M", "", True)]), ("#define {n} (unsigned char)7", [("M", "", True)]),
    ("#define {n} (short)70000", [("M", "", True)]), ("#define {n} (unsigned short)65537", [("M", "", True)]),
    ("#define {n} (unsigned)7", [("M", "", True)]), ("#define {n} (unsigned)-1", [("M", "", True)]),
    ("enum EH_{i} {{ {n} = (short)-70000 }};", [("E", "", True)]), ("#define {n} (long long)-5", [("M", "", True)]),
    ("#define {n} \"abc\"[1]", [("M", "", True)]), ("#define {n} not_declared_anywhere(3)", [("M", "", False)]),
    ("#define {n} 1.5 + 1", [("M", "", False)]), ("#define {n} 3 +", [("M", "", False)]),
    # the value does not depend on the operand interrogate cannot evaluate
    ("int fh_{i}();\n#define {n} (fh_{i}() || 5)", [("M", "", 1)]), ("int fh_{i}();\n#define {n} (fh_{i}() && 0)", [("M", "", 0)]),
    ("int fh_{i}();\n#define {n} (0 && fh_{i}())", [("M", "", 0)]), ("int fh_{i}();\n#define {n} (7 || fh_{i}())", [("M", "", 1)]),
    ("enum EH_{i} {{ {n} = sizeof(int) }};", [("E", "", True)]), ("enum EH_{i} {{ {n} = sizeof(char) + 1 }};", [("E", "", True)]),
    ("extern char {n}[sizeof(int)];", [("A", "", True)]), ("extern char {n}[sizeof(long) * 2];", [("A", "", True)]),
    ("struct SH_{i} {{ int x; }}; extern char {n}[sizeof(SH_{i})];", [("A", "", True)]),
    # an enumerator that cannot be evaluated must not take its neighbours with it
    ("enum EH_{i} {{ {n}a = 1, {n}b = sizeof(int), {n}c, {n}d = 5, {n}e }};",
     [("E", "a", [1]), ("E", "b", True), ("E", "c", True), ("E", "d", [5]), ("E", "e", [6])]),
    ("enum EH_{i} : unsigned char {{ {n}a = 3, {n}b = (unsigned char)({n}a + 1), {n}c, {n}d = 9 }};",
     [("E", "a", [3]), ("E", "b", True), ("E", "c", True), ("E", "d", [9])]),
    ("struct TH_{i} {{ double d; }};\nenum class EH_{i} {{ {n}a, {n}b = alignof(TH_{i}), {n}c = 4, {n}d = (int){n}c * 2 }};",
     [("E", "a", [0]), ("E", "b", True), ("E", "c", [4]), ("E", "d", [8])]),
    # literals and arithmetic at the edge of int
    ("#define {n} 2147483648", [("M", "", True)]), ("#define {n} 4294967295u", [("M", "", True)]),
    ("#define {n} -2147483648", [("M", "", True)]), ("#define {n} 0xFFFFFFFF", [("M", "", True)]),
    ("#define {n} 4294967296", [("M", "", True)]), ("#define {n} 18446744073709551615ull", [("M", "", True)]),
    ("extern char {n}[2147483648];", [("A", "", True)]), ("#define {n} 2147483647 + 1", [("M", "", False)]),
    ("#define {n} -2147483647 - 2", [("M", "", False)]), ("#define {n} 65536 * 65536", [("M", "", False)]),
    ("#define {n} 65536 * 32768", [("M", "", False)]), ("#define {n} - (-2147483647 - 1)", [("M", "", False)]),
    # character literals with an encoding prefix or a multi-digit escape
    ("#define {n} L'\\377'", [("M", "", True)]), ("#define {n} u'\\xffff'", [("M", "", True)]),
    ("#define {n} U'\\x10ffff'", [("M", "", True)]), ("#define {n} L'\\x7fffffff'", [("M", "", True)]),
    ("#define {n} u8'a'", [("M", "", True)]), ("#define {n} '\\0' + '\\'' + '\\\\'", [("M", "", True)]),
    ("#define {n} u'\\u00e9'", [("M", "", True)]), ("#define {n} U'\\U0001F600'", [("M", "", True)]),
    ("#define {n} L'\\u20ac' + 1", [("M", "", True)]),
    # multi-character literals (type int; value as the compiler computes it)
    ("#define {n} 'ab'", [("M", "", True)]), ("#define {n} 'abcd'", [("M", "", True)]),
    ("#define {n} '\\1\\2'", [("M", "", True)]), ("#define {n} 'ab' + 1", [("M", "", True)]),
    ("#define {n} 'a\\n'", [("M", "", True)]), ("#define {n} '\\377\\377'", [("M", "", True)]),
    ("enum EH_{i} {{ {n} = 'ab' }};", [("E", "", True)]), ("enum EH_{i} {{ {n} = 'abc', {n}n }};", [("E", "", True), ("E", "n", True)]),
    ("extern char {n}['\\0\\3'];", [("A", "", True)]),
]


def hard_case(cid, k):
    tmpl, its = HARD[k]
    n = "H_%d" % cid
    c = dict(id=cid, kind="hard", d="hard", text=tmpl.format(n=n, i=cid), lines=[tmpl.format(n=n, i=cid)],
             items=[], classes=[], uneval_ok=False, oracle=True)
    for form, sfx, val in its:
        if isinstance(val, list):
            c["items"].append(item(form, n + sfx, val[0], enum="EH_%d" % cid))
        elif val is False:
            c["items"].append(item(form, n + sfx, None, enum="EH_%d" % cid, noval=True))
        else:
            c["items"].append(item(form, n + sfx, None if val is True else val, enum="EH_%d" % cid, mu=True))
            c["items"][-1]["noask"] = val is not True       # g++ cannot compute it; the value follows from C++ rules
    return c


# ----------------------------------------------------------------------------------------------
# running one batch

def header_text(cases, values):
    lines = ["// generated by vf/checks/c07.py"] + prelude(values)
    for c in cases:
        lines += c["lines"]
    return "\n".join(lines) + "\n"


class Runner:
    def __init__(self, ctx):
        self.ctx = ctx
        self.abnormal = []
        self.lib = os.path.join(build.libdir(), "libinterrogatedb.so")

    def run_cases(self, cases, tag):
        """interrogate on the header made of `cases`.  Returns (status, observation): status "ok" with the
        dumped constants, or "abnormal" with a description."""
        work = self.ctx.tmp
        hdr = "%s.h" % tag
        with open(os.path.join(work, hdr), "w") as f:
            f.write(header_text(cases, LEAVES))
        db = "%s.in" % tag
        if os.path.exists(os.path.join(work, db)):
            os.remove(os.path.join(work, db))
        r = run.run_tool("interrogate", ["-od", db, "-module", "m", "-library", "l", "-promiscuous", hdr],
                         cwd=work, timeout=120, outputs=(db,))
        if r.rc != 0 or r.timed_out or not r.outputs[db]:
            return "abnormal", "exit status %s, signal %s, timeout %s; stderr: %s" % (
                r.rc, r.signal, r.timed_out, r.stderr[-300:].strip())
        p = subprocess.run([sys.executable, DUMPER, self.lib, db], cwd=work, stdout=subprocess.PIPE,
                           stderr=subprocess.PIPE, text=True)
        if p.returncode != 0:
            raise MachineryError("c07_dump.py failed on %s: %s" % (db, p.stderr[-1000:]))
        return "ok", json.loads(p.stdout)

    def isolate(self, cases, tag):
        """Bisect an abnormally ending batch.  Returns [(cases, observation)] for the parts that ran and
        reports every isolated offending case."""
        st, obs = self.run_cases(cases, tag)
        if st == "ok":
            return [(cases, obs)]
        if len(cases) == 1:
            c = cases[0]
            self.ctx.violation("interrogate ends abnormally on `%s` (%s)" % (short(c), obs),
                               payload(c, None, obs), classes=c["classes"])
            self.abnormal.append(c["id"])
            return []
        h = len(cases) // 2
        return self.isolate(cases[:h], tag + "a") + self.isolate(cases[h:], tag + "b")


def short(c):
    return (c.get("text") or " ".join(c["lines"]))[:160]


def payload(c, exp, got):
    return dict(kind=c["kind"], declarations=c["lines"], expected=exp, observed=got,
                tree=c.get("tree"), program=c.get("prog"),
                command="interrogate -od x.in -module m -library l -promiscuous x.h  (x.h = declarations"
                        " below, preceded by the prelude of vf/checks/c07.py)",
                prelude=prelude(LEAVES) if c["kind"] == "expr" else None)


def oracle_program(cases, hdr):
    """A C++ program that prints the constants of the header as g++ computes them."""
    out = ['#include "%s"' % hdr, "#include <cstdio>"]
    body = []
    for c in cases:
        if not c["oracle"]:
            continue
        for it in c["items"]:
            if it["noval"] or it.get("noask"):
                continue
            n = it["name"]
            if it["form"] == "E":
                q = n
                if c["kind"] == "hard" and "enum class" in c["text"]:
                    q = "%s::%s" % (it["enum"], n)
                elif c["kind"] == "env":
                    q = "%s::%s" % (it["enum"], n)
                body.append('printf("E %s %%lld\\n", (long long)%s);' % (n, q))
            elif it["form"] == "M":
                # constant evaluation is forced: an expression with undefined behaviour does not compile
                out.append("constexpr long long cm_%s = (%s);" % (n, n))
                body.append('printf("M %s %%lld\\n", cm_%s);' % (n, n))
            else:
                body.append('printf("A %s %%zu\\n", sizeof(%s));' % (n, n))
    out.append("int main() {")
    out += body
    out.append("return 0; }")
    return "\n".join(out) + "\n"


def run_oracle(work, cases, tag, all_cases=None):
    """g++ on the header of the batch.  A case outside the value claim (items whose value is `what the
    compiler computes`) that g++ itself rejects is isolated by bisection and loses its claim; g++
    rejecting anything the spec gives a value to is a MachineryError."""
    hdr = "%s.h" % tag
    if all_cases is not None:
        open(os.path.join(work, hdr), "w").write(header_text(all_cases, LEAVES))
    src = os.path.join(work, tag + "_o.cxx")
    exe = os.path.join(work, tag + "_o")
    open(src, "w").write(oracle_program(cases, hdr))
    p = subprocess.run(["g++", "-std=c++20", "-w", "-O0", "-o", exe, src], cwd=work, stdout=subprocess.PIPE,
                       stderr=subprocess.PIPE, text=True)
    if p.returncode != 0:
        soft = [c for c in cases if c["oracle"] and any(it["val"] is None and not it["noval"] for it in c["items"])]
        if not soft:
            raise MachineryError("g++ rejects a header the spec calls well-formed (%s):\n%s" % (hdr, p.stderr[:1500]))
        if len(cases) == 1:
            cases[0]["oracle_rejected"] = True
            return {}
        # the declarations of every case stay in the header; only the constants asked for are halved
        h = len(cases) // 2
        full = all_cases if all_cases is not None else cases
        vals = run_oracle(work, cases[:h], tag + "x", full)
        vals.update(run_oracle(work, cases[h:], tag + "y", full))
        return vals
    q = subprocess.run([exe], stdout=subprocess.PIPE, text=True)
    vals = {}
    for line in q.stdout.split("\n"):
        f = line.split()
        if len(f) == 3:
            vals[(f[0], f[1])] = int(f[2])
    return vals


def check_oracle(cases, vals):
    """spec == g++ on every constant the spec gives a value to, else MachineryError."""
    n = 0
    for c in cases:
        if not c["oracle"]:
            continue
        for it in c["items"]:
            if it["val"] is None or it.get("noask"):
                continue
            g = vals.get((it["form"], it["name"]))
            n += 1
            if g != it["val"]:
                raise MachineryError("spec != g++ on `%s`: %s %s spec %r g++ %r" % (short(c), it["form"], it["name"], it["val"], g))
    return n


def observed(obs, it):
    """Projection of the database to one constant: ("value", v) | ("unevaluated",) | ("absent",)"""
    f, n = it["form"], it["name"]
    if f == "E":
        lst = obs["E"].get(it["enum"])
        if lst is None:
            return ("absent",)
        for nm, v in lst:
            if nm == n:
                return ("value", v)
        return ("unevaluated",)          # the enum is recorded without this enumerator
    if f == "M":
        if n not in obs["M"]:
            return ("absent",)
        return ("unevaluated",) if obs["M"][n] is None else ("value", obs["M"][n])
    if n not in obs["A"]:
        return ("absent",)
    return ("unevaluated",) if obs["A"][n] == -1 else ("value", obs["A"][n])


def compare(ctx, c, obs, gvals, stats):
    """Comparison of one case with what the database records."""
    enums = {}
    for it in c["items"]:
        got = observed(obs, it)
        stats["compared"] += 1
        if it["form"] == "E":
            enums.setdefault(it["enum"], []).append(it["name"])
        want = it["val"]
        if want is None and not it["noval"]:
            if c.get("oracle_rejected"):
                stats["oracle_rejected"] += 1
                continue
            want = gvals.get((it["form"], it["name"]))
        if c["kind"] == "hard":
            stats["hard_unevaluated" if got[0] != "value" else "hard_evaluated"] += 1
        if it["noval"]:
            if got[0] == "unevaluated" or c.get("any_value_ok"):
                continue
            ctx.violation("`%s` [%s %s]: has no value and must be reported as unevaluated, but is %s" % (
                short(c), it["form"], it["name"], "recorded as %s" % got[1] if got[0] == "value" else got[0]),
                payload(c, None, got), classes=c["classes"])
            continue
        if got == ("value", want):
            continue
        if got[0] == "unevaluated" and (it["mu"] or c["uneval_ok"]):
            stats["unevaluated_allowed"] += 1
            continue
        what = {"value": "recorded as %s" % (got[-1],), "unevaluated": "reported as unevaluated",
                "absent": "not in the database at all"}[got[0]]
        ctx.violation("`%s` [%s %s]: value %s%s, %s" % (
            short(c), it["form"], it["name"], want, " (or unevaluated)" if it["mu"] else "", what),
            payload(c, want, got), classes=c["classes"])
    # the recorded enumerators are the declared ones, in declaration order, nothing else
    for en, names in enums.items():
        rec = [nm for nm, v in obs["E"].get(en, [])]
        if [n for n in names if n in rec] != rec:
            ctx.violation("`%s` [E %s]: the recorded enumerators %s are not a subsequence of the declared %s" % (
                short(c), en, rec, names), payload(c, names, rec), classes=c["classes"])


# ----------------------------------------------------------------------------------------------

def run_check(ctx):
    build.ensure("hooked")
    tier = ctx.tier
    work = ctx.tmp

    # ---- TLC ------------------------------------------------------------------------------
    def job(j):
        spec, cfg, workers, sim, depth = j
        dump = os.path.join(work, "dump-%s.ndjson" % cfg)
        res = tlc.run(spec, cfg, workers=workers, env={"VERIF_DUMP": dump}, simulate=sim, depth=depth,
                      timeout=600 if tier == "quick" else 1500, xmx="2g")
        return j, dump, res
    dumps = {}
    for j, dump, res in run.pmap(job, TLC_JOBS[tier], workers=len(TLC_JOBS[tier]) if tier == "quick" else 3):
        ctx.add_tlc(res)
        if res.verdict == "invariant":
            raise MachineryError("%s/%s: invariant %s violated in the model\n%s" % (j[0], j[1], res.violated, res.out[-2500:]))
        tlc.must_ok(res)
        dumps.setdefault(j[0], []).append((j[1], dump))
    ctx.cov["exhaustive"] = True

    # ---- dumps -> cases (sorted: the dump order of a parallel TLC run is not deterministic) ------
    seen, trees = set(), []
    for cfg, d in dumps["ConstExprMC"]:
        for rec in tlc.read_dump(d):
            key = json.dumps(rec["t"])
            if key not in seen:
                seen.add(key)
                trees.append((key, rec))
    trees.sort(key=lambda kr: kr[0])
    if not trees:
        raise MachineryError("no expressions dumped")
    # the Python mirror (used for spellings and by vf/condexpr.py) must be the spec, on every tree
    for key, rec in trees:
        t = rec["t"]
        if X.ev(t) != (rec["d"], rec["v"]) or X.toks_min(t) != rec["m"] or X.toks_full(t) != rec["f"]:
            raise MachineryError("vf/constexpr.py disagrees with ConstExpr.tla on %s: %r %r %r vs %r" % (
                key, X.ev(t), X.toks_min(t), X.toks_full(t), rec))
    lits = {}
    for cfg, d in dumps["NumLexMC"]:
        for rec in tlc.read_dump(d):
            s = "".join(map(chr, rec["cs"]))
            lits[s] = rec
            got = X.lex_literal(s)
            if got is None or (got[0], got[1], got[3], got[4]) != (rec["k"], rec["v"], rec["s"], rec["p"]):
                raise MachineryError("vf/constexpr.py lex_literal disagrees with NumLex.tla on %r: %r vs %r" % (s, got, rec))
    # every spelling the renderer may choose is a literal of that value by the NumLex rules
    for v in LEAVES:
        for s in X.int_spellings(abs(v), unsigned=True) + X.char_spellings(abs(v)):
            g = X.lex_literal(s)
            if g is None or g[1] != abs(v):
                raise MachineryError("spelling %r of %d is not accepted by the NumLex mirror" % (s, abs(v)))
    envs = []
    for cfg, d in dumps["ConstExprEnvMC"]:
        for rec in tlc.read_dump(d):
            envs.append((json.dumps(rec["p"]), rec))
    envs.sort(key=lambda kr: kr[0])
    n_env_total = len(envs)
    lim = ENV_REPLAY_LIMIT[tier]
    if len(envs) > lim:
        # fixed stratified cut (every k-th unit of the sorted enumeration), independent of the seed
        k = -(-len(envs) // lim)
        envs = envs[::k]

    # light-weight case descriptions; the case itself (texts, expectations) is built inside the worker
    # that replays its batch and dropped afterwards (the thorough tier has > 10^6 cases)
    for key, rec in trees:
        rec.pop("m", None)
        rec.pop("f", None)
    # the expressions outside the value claim go into batches of their own (their oracle may need bisection)
    trees.sort(key=lambda kr: kr[1]["d"] in ("uns", "big"))
    descr = [("expr", rec) for key, rec in trees] + [("lit", lits[s]) for s in sorted(lits)] + \
            [("env", rec) for key, rec in envs] + [("hard", k) for k in range(len(HARD))]
    descr = [(kind, cid, x) for cid, (kind, x) in enumerate(descr, 1)]
    n_expr, n_lit, n_env = len(trees), len(lits), len(envs)
    del trees, envs
    make = {"expr": expr_case, "lit": lit_case, "env": env_case, "hard": hard_case}

    # ---- replay ------------------------------------------------------------------------------
    rn = Runner(ctx)
    batches = [descr[i:i + BATCH] for i in range(0, len(descr), BATCH)]
    stats = dict(compared=0, unevaluated_allowed=0, hard_unevaluated=0, hard_evaluated=0, oracle_constants=0,
                 oracle_rejected=0)
    lock = threading.Lock()
    nontrivial = set()
    ops = set()
    replayed = [0]

    def one(ib):
        i, bd = ib
        tag = "b%04d" % i
        b = [make[kind](cid, x) for kind, cid, x in bd]
        parts = rn.isolate(b, tag)
        # the oracle sees the complete batch header (written first by isolate -> run_cases)
        open(os.path.join(work, tag + ".h"), "w").write(header_text(b, LEAVES))
        gvals = run_oracle(work, b, tag)
        with lock:
            stats["oracle_constants"] += check_oracle(b, gvals)
            for part, obs in parts:
                for c in part:
                    compare(ctx, c, obs, gvals, stats)
                    replayed[0] += 1
                    if c["kind"] == "expr":
                        ops.update(tree_ops(c["tree"]))
                        if c["tree"][0] != "lit":
                            nontrivial.add(hash(json.dumps(c["tree"])))
                    elif c["kind"] == "lit" and not c["text"].isdigit():
                        nontrivial.add(hash(c["text"]))
                    elif c["kind"] == "env" and any(d["e"] and d["e"][0] != "lit" for d in c["prog"]):
                        nontrivial.add(hash(json.dumps(c["prog"])))
        for f in os.listdir(work):
            if f.startswith(tag):
                os.remove(os.path.join(work, f))
        return [dict(kind=c["kind"], declarations=c["lines"],
                     expected=[[it["form"], it["name"], it["val"]] for it in c["items"]]) for c in b[:1]]
    samples = run.pmap(one, list(enumerate(batches)))
    n_replayed = replayed[0]
    ctx.cov["evaluations"] += stats["compared"]
    ctx.cov["distinct_nontrivial"] = len(nontrivial)
    ctx.cov["traces_validated_against_impl"] += n_replayed
    ctx.cov["rule"] = ("TLC enumerates every expression tree / literal spelling / declaration sequence within the cfg "
                       "bounds; each is replayed as enumerator, macro and array bound through interrogate -od and "
                       "the query interface, and through g++; evaluations = constants compared; non-trivial = an "
                       "expression with at least one operator, a literal that is not a plain decimal number, a "
                       "translation unit with at least one reference; distinct = distinct tree / spelling / unit")
    ctx.notes.update(dict(expressions=n_expr, literals=n_lit, units=n_env, units_enumerated=n_env_total,
                          hard_expressions=len(HARD), batches=len(batches), abnormal_cases=len(rn.abnormal),
                          operators_covered=sorted(ops), unevaluated_allowed_why=UNEVAL_OK_WHY, **stats))
    step = max(1, len(samples) // 5)
    for sm in samples[::step][:5]:
        for x in sm:
            ctx.sample(x)
    ctx.assumptions.append("int is 32 bit two's complement, char is signed 8 bit, >> of a negative value is arithmetic "
                           "(C++20), wchar_t / char16_t / char32_t literals are code units: the platform of the oracle compiler")


def replay(path):
    """./check C07 --replay <violation file>: run the recorded declarations through the current build
    again and print what the database records now."""
    import shutil
    from ..common import scratch
    d = json.load(open(path))
    case = d["case"]
    build.ensure("hooked")
    work = scratch("C07-replay")
    try:
        open(os.path.join(work, "x.h"), "w").write("\n".join(prelude(LEAVES) + case["declarations"]) + "\n")
        r = run.run_tool("interrogate", ["-od", "x.in", "-module", "m", "-library", "l", "-promiscuous", "x.h"],
                         cwd=work, timeout=60, monitor=False)
        print(d["desc"])
        print("\n".join(case["declarations"]))
        print("expected:", case["expected"])
        if r.rc != 0:
            print("interrogate: exit status %s signal %s\n%s" % (r.rc, r.signal, r.stderr[-500:]))
            return 1
        p = subprocess.run([sys.executable, DUMPER, os.path.join(build.libdir(), "libinterrogatedb.so"), "x.in"],
                           cwd=work, stdout=subprocess.PIPE, text=True)
        obs = json.loads(p.stdout)
        mine = {k: {n: v for n, v in obs[k].items() if not n.startswith(("PE", "PM_", "PC_", "PX_"))} for k in "EMA"}
        print("recorded now:", json.dumps(mine))
        return 0
    finally:
        shutil.rmtree(work, ignore_errors=True)
