"""C08 — macro expansion yields the token sequence a conforming preprocessor yields.

spec MacroRef (Prosser's replacement algorithm with hide sets; state [defs, pushStack, out], one
step per source line) enumerated by MacroMC (families of #define / #undef / push_macro / pop_macro /
Text lines; TLC checks NoResidual on every line and carries the reference token sequence)
  -> every enumerated line is rendered to C text, run through gcc -E (spec sanity on EVERY line:
     spec != gcc is a machinery failure) and through parse_file -E; both outputs are re-tokenised by
     one small C tokeniser and compared token by token with the spec's `out`.

Claimed domain = the lines in none of the known-finding classes.  A class is a predicate over the
INPUT: either an event of the *reference* replacement of that input (computed by the spec and
dumped with the line: fnblock, argpaint, ...) or a syntactic property of the program computed by
classes_of() below -- never a function of what parse_file printed.  Lines of the claimed domain are
batched (a crash / hang of one line hides the verdict on its batch, so a batch that ends
abnormally is split until the offending line is isolated, and a mismatch seen in a batch is
confirmed on the line alone before it is reported).  Lines in a finding class are never batched
with others: a fixed stratified sample of each class is run line by line under a 5 s limit, which
prints the KNOWN-FINDING lines and notices a class that has stopped failing."""
import json, os, re, subprocess, time
from ..common import MachineryError, NCPU, REPO
from .. import build, tlc, run

CFG = {"quick": "Macro_quick", "thorough": "Macro_thorough"}
NAMES = ["F", "G", "H", "O", "P", "Q"]            # every macro name the families use
BATCH = 150                                       # cases (records) per parse_file batch
GCC_BATCH = 1500
BATCH_TIMEOUT = 20
LINE_TIMEOUT = 5
SAMPLE_PER_CLASS = {"quick": 64, "thorough": 400}
CONFIRM_CAP = 400
ABNORMAL_CAP = 24                                 # stop isolating once this many lines crash / hang on their own
TRACE_BATCHES = {"quick": 6, "thorough": 40}
TRACE_MAX = 64 << 20
GCC = ["gcc", "-E", "-P", "-x", "c++", "-std=gnu++20", "-w"]

# spec event (computed by MacroRef on the reference run of the input) -> finding id
EVENT_CLASS = {
    "fnblock": "C08-fn-reentry",
    "argpaint": "C08-arg-repaint",
    "vaoptempty": "C08-vaopt-empty-arg",
    "strmissing": "C08-stringify-missing-arg",
    "strva": "C08-stringify-va-spacing",
    "pasteempty": "C08-paste-placemarker",
    "hidearg": "C08-arg-outer-hidden",
    "litparam": "C08-param-in-literal",
    "objhash": "C08-hash-in-object-macro",
    "strchq": "C08-stringify-quote-in-char",
}

# --------------------------------------------------------------------------- rendering
# one small C tokeniser for both preprocessors' output: literals, identifiers, pp-numbers (with
# digit separators), punctuators by maximal munch -- `- -` and `--`, `& &` and `&&`, `- >` and `->`
# are different token sequences
TOK = re.compile(r'"(?:[^"\\\n]|\\.)*"|\'(?:[^\'\\\n]|\\.)*\'|[A-Za-z_][A-Za-z_0-9]*|\d(?:\'?[A-Za-z0-9_])*'
                 r'|<<=|>>=|\.\.\.|->\*|<=>|::|->|\+\+|--|<<|>>|<=|>=|==|!=|&&|\|\||[-+*/%&|^]=|##|[^\sA-Za-z_0-9]')


def norm(t):
    """parse_file prints the value of an integer literal: 1'000 and 1000 are the same token."""
    return t.replace("'", "") if t[0].isdigit() else t


def tight_body(body):
    """Spelling of a replacement list with no white space between an operator and a neighbouring
    identifier / number (`-x`, `x-y`); two operators and two words stay apart."""
    out = []
    for i, t in enumerate(body):
        if i and (re.match(r"\w", t[0]) is not None) == (re.match(r"\w", body[i - 1][-1]) is not None):
            out.append(" ")
        elif i and (t in ("#", "##") or body[i - 1] in ("#", "##", ",")):
            out.append(" ")
        out.append(t)
    return "".join(out)


def defline(l, tight=False):
    body = tight_body(l["body"]) if tight else " ".join(l["body"])
    if l["fn"]:
        ps = list(l["params"]) + (["..."] if l["va"] else [])
        return ("#define %s(%s) %s" % (l["m"], ", ".join(ps), body)).rstrip()
    return ("#define %s %s" % (l["m"], body)).rstrip()


def d0_of(rec):
    """(table, bare names) of the command-line definitions of a program; ({}, []) if none."""
    d0 = rec.get("d0") or {}
    tab = d0.get("tab") or {}
    return (tab if isinstance(tab, dict) else {}), list(d0.get("bare") or [])


def has_d0(rec):
    return bool(d0_of(rec)[0])


def dflags_of(rec):
    tab, bare = d0_of(rec)
    return [("-D" + n) if n in bare else dflag(n, tab[n]) for n in sorted(tab)]


def dflag(name, d):
    """-D form of an initial (command-line) definition."""
    if d["fn"]:
        ps = list(d["params"]) + (["..."] if d["va"] else [])
        return "-D%s(%s)=%s" % (name, ",".join(ps), " ".join(d["body"]))
    return "-D%s=%s" % (name, " ".join(d["body"]))


TIGHT = set("(),")


def layout(toks, style):
    """Source spelling of a Text line.  Tokens are separated by white space (the spec's # operator
    spells one space between the tokens of an argument); style 1-3 spread an invocation over
    several physical lines and vary the amount of white space; style 4 (only used for programs
    without #) writes no white space next to parentheses and commas: F("a\\",'x')."""
    if style == 0:
        return " ".join(toks)
    out, depth = [], 0
    for i, t in enumerate(toks):
        out.append(t)
        if t == "(":
            depth += 1
        elif t == ")":
            depth -= 1
        if i + 1 < len(toks):
            nxt = toks[i + 1]
            if style == 5:       # a comment between a name and the "(" that follows it
                if nxt == "(" and re.match(r"[A-Za-z_]", t):
                    out.append(" /* c */ " if i % 2 else " // c\n ")
                else:
                    out.append(" ")
            elif style == 4:
                if not (t in TIGHT or nxt in TIGHT):
                    out.append(" ")
            elif style == 1 and depth > 0 and t in ("(", ","):
                out.append("\n    ")
            elif style == 2 and depth > 0 and nxt in (")", ","):
                out.append("  \n")
            elif style == 3:
                out.append("\t " if i % 2 else "\n ")
            else:
                out.append(" ")
    return "".join(out)


def style_of(cid, k, rec):
    """Deterministic layout choice (a function of the case, not of the seed)."""
    n = (cid * 7 + k) % 8
    if n == 4:
        tab = d0_of(rec)[0]
        bodies = [l["body"] for l in rec["p"] if l["k"] == "def"] + [tab[m]["body"] for m in tab]
        return 4 if not any("#" in b for b in bodies) else 0
    if n == 5 and cid % 2 == 0:
        return 5
    return n if n < 4 and cid % 2 == 0 else 0


def comment_before_paren(cid, k, rec):
    toks = rec["p"][k]["toks"]
    return style_of(cid, k, rec) == 5 and any(toks[i + 1] == "(" and re.match(r"[A-Za-z_]", toks[i])
                                               for i in range(len(toks) - 1))


def render_case(cid, rec, keep, reset=True):
    """C text of one enumerated program; only the Text lines in `keep` are written (Text lines do
    not change the macro table, so leaving one out does not change the others)."""
    out = []
    if reset:
        out += ["#undef " + n for n in NAMES]
    out.append("int CB%d ;" % cid)
    depth = {}
    for k, l in enumerate(rec["p"]):
        kind = l["k"]
        if kind == "def":
            out.append(defline(l, tight=(rec["f"] == "op" and cid % 2 == 1)))
        elif kind == "undef":
            out.append("#undef " + l["m"])
        elif kind == "push":
            out.append('#pragma push_macro("%s")' % l["m"])
            depth[l["m"]] = depth.get(l["m"], 0) + 1
        elif kind == "pop":
            out.append('#pragma pop_macro("%s")' % l["m"])
            depth[l["m"]] = max(0, depth.get(l["m"], 0) - 1)
        elif kind == "text" and k in keep:
            out.append("CT%d %s ;" % (k, layout(l["toks"], style_of(cid, k, rec))))
    if reset:   # leave the push_macro stacks empty for the next case of the batch
        for m, n in sorted(depth.items()):
            out += ['#pragma pop_macro("%s")' % m] * n
    out.append("int CE%d ;" % cid)
    return out


def observe(text):
    """Projection of a preprocessor's output: case id -> {line k -> token spellings}."""
    res, cur = {}, None
    toks = [norm(t) for t in TOK.findall(text)]
    i, n = 0, len(toks)
    while i < n:
        t = toks[i]
        if t == "int" and i + 2 < n and toks[i + 2] == ";" and toks[i + 1][:2] in ("CB", "CE") and toks[i + 1][2:].isdigit():
            cur = res.setdefault(int(toks[i + 1][2:]), {}) if toks[i + 1][1] == "B" else None
            i += 3
            continue
        if cur is not None and t.startswith("CT") and t[2:].isdigit():
            j = i + 1
            while j < n and toks[j] != ";":
                j += 1
            cur[int(t[2:])] = toks[i + 1:j]
            i = j + 1
            continue
        i += 1
    return res


def expected(o):
    """The spec's token spellings for one line (one spelling = one token)."""
    return [norm(t) for t in o["t"]]


# --------------------------------------------------------------------------- input classes
OPEN = None      # ids of the finding classes that are still open (status "finding"); set by run_check


def classes_of(rec, k, cid=None):
    """Finding classes of Text line k of a program, computed from the INPUT: events of the
    reference run (dumped by the spec) and properties of the command line.  A class whose entry in
    known_findings.json is no longer an open finding (fixed / removed) does not take lines out of
    the claimed domain any more: its lines are replayed and must agree like all others."""
    cls = [EVENT_CLASS.get(e, "C08-" + e) for e in rec["o"][k].get("e", [])]
    if d0_of(rec)[1]:
        cls.append("C08-bare-D")        # the program is run with a -DNAME option without a value
    if cid is not None and comment_before_paren(cid, k, rec):
        cls.append("C08-comment-before-paren")  # the renderer wrote a comment between a name and "("
    toks = rec["p"][k]["toks"]
    if "(" in toks and any(t[0].isdigit() and "'" in t for t in toks):
        cls.append("C08-digit-separator-arg")   # an invocation with a digit separator in an argument
    cls = sorted(set(cls))
    return [c for c in cls if OPEN is None or c in OPEN]


# --------------------------------------------------------------------------- running
class Replayer:
    def __init__(self, ctx, recs):
        self.ctx, self.recs, self.work = ctx, recs, ctx.tmp
        self.nfile = 0
        self.nruns = 0
        self.abnormal = 0          # isolated lines that crash / hang / exit non-zero

    def path(self, tag):
        self.nfile += 1
        return os.path.join(self.work, "%s%06d.c" % (tag, self.nfile))

    def dflags(self, cid):
        return dflags_of(self.recs[cid])

    def write(self, items, tag):
        """items: list of (cid, set of line indices) -> file; -D programs are run alone."""
        lines = []
        single_d0 = len(items) == 1 and has_d0(self.recs[items[0][0]])
        for cid, keep in items:
            lines += render_case(cid, self.recs[cid], keep, reset=not single_d0)
        p = self.path(tag)
        with open(p, "w") as f:
            f.write("\n".join(lines) + "\n")
        return p

    def parse_file(self, items, timeout, trace=None):
        p = self.write(items, "p")
        flags = self.dflags(items[0][0]) if len(items) == 1 else []
        r = run.run_tool("parse_file", ["-E"] + flags + [os.path.basename(p)], cwd=self.work, timeout=timeout, trace=trace)
        self.nruns += 1
        os.unlink(p)
        if r.timed_out:
            return "hang", None, r
        if r.rc != 0:
            return ("crash" if r.rc < 0 else "exit%d" % r.rc), None, r
        return "ok", observe(r.stdout), r

    def gcc(self, items):
        p = self.write(items, "g")
        flags = self.dflags(items[0][0]) if len(items) == 1 else []
        g = subprocess.run(GCC + flags + [p], stdout=subprocess.PIPE, stderr=subprocess.PIPE, text=True)
        os.unlink(p)
        if g.returncode != 0:
            raise MachineryError("gcc -E failed on a batch of enumerated programs: %s" % g.stderr[-800:])
        return observe(g.stdout)

    # -- claimed domain: batches, split on abnormal end --------------------------------
    def resolve(self, items, timeout):
        """-> {(cid, k): (status, observed tokens)} with status ok|diff|crash|hang|exitN|lost."""
        st, obs, r = self.parse_file(items, timeout)
        res = {}
        if st == "ok":
            for cid, keep in items:
                o = obs.get(cid, {})
                for k in keep:
                    got = o.get(k)
                    res[(cid, k)] = ("ok" if got == expected(self.recs[cid]["o"][k]) else "diff", got)
            return res
        nlines = sum(len(keep) for _, keep in items)
        if nlines <= 1 or self.abnormal >= ABNORMAL_CAP:
            # isolated -- or enough lines isolated already: the rest of an abnormal batch is reported whole
            tag = st if nlines <= 1 else "unresolved (batch ended with %s)" % st
            for cid, keep in items:
                for k in keep:
                    res[(cid, k)] = (tag, "signal %s" % r.signal if st == "crash" and nlines <= 1 else tag)
            if nlines <= 1:
                self.abnormal += 1
            return res
        if len(items) > 1:
            n = max(1, (len(items) + 7) // 8)
            parts = [items[i:i + n] for i in range(0, len(items), n)]
        else:
            cid, keep = items[0]
            parts = [[(cid, {k})] for k in sorted(keep)]
        for sub in run.pmap(lambda part: self.resolve(part, max(LINE_TIMEOUT, timeout // 2)), parts, workers=8):
            res.update(sub)
        return res

    def alone(self, cid, k):
        st, obs, r = self.parse_file([(cid, {k})], LINE_TIMEOUT)
        if st != "ok":
            return st, ("signal %s" % r.signal if st == "crash" else st)
        got = obs.get(cid, {}).get(k)
        return ("ok" if got == expected(self.recs[cid]["o"][k]) else "diff"), got


# --------------------------------------------------------------------------- trace validation
# projection of the H-macro hook events to the vocabulary of MacroTrace
TTOK = re.compile(r'"(?:[^"\\\n]|\\.)*"|\'(?:[^\'\\\n]|\\.)*\'|\.?\d(?:[eEpP][+-]|[A-Za-z0-9_.])*|[A-Za-z_][A-Za-z_0-9]*'
                  r'|##|\.\.\.|[^\sA-Za-z_0-9]')
IDENT = re.compile(r'[A-Za-z_][A-Za-z_0-9]*$')


def tcut(text):
    """Spellings of a text; white space inside literals is dropped (MacroTrace compares the
    results of # modulo white space: ExtSep = "")."""
    out = []
    for t in TTOK.findall(text):
        if t[0] in "\"'":
            t = "".join(t.split())
        out.append(t)
    return out


def parse_define(text):
    m = re.match(r'([A-Za-z_][A-Za-z_0-9]*)(\()?', text)
    if not m:
        return None
    name, fn, rest = m.group(1), bool(m.group(2)), text[m.end():]
    params, va, ok = [], False, True
    if fn:
        close = rest.find(")")
        if close < 0:
            return dict(m=name, ok=False)
        for prm in [x.strip() for x in rest[:close].split(",")] if rest[:close].strip() else []:
            if prm == "...":
                va = True
            elif IDENT.match(prm) and not va:
                params.append(prm)
            else:
                ok = False            # GNU named variadic, junk
        rest = rest[close + 1:]
    body = tcut(rest)
    for i, t in enumerate(body):
        if t == "#" and fn and not (i + 1 < len(body) and (body[i + 1] in params or (va and body[i + 1] == "__VA_ARGS__"))):
            ok = False
        if t == "#" and not fn:
            ok = False
        if t in ("__VA_ARGS__", "__VA_OPT__") and not va:
            ok = False
    if body and (body[0] == "##" or body[-1] == "##"):
        ok = False
    return dict(m=name, fn=fn, params=params, va=va, body=body, ok=ok)


def project_trace(paths, out_path, trim=150):
    """Concatenate hook traces into one MacroTrace input.  Returns the number of Expand events."""
    events, spell = [], set()
    n_exp = 0
    for pth in paths:
        events.append(dict(e="Reset"))
        args, ign, since = [], [], 0
        for line in open(pth, errors="replace"):
            try:
                ev = json.loads(line)
            except ValueError:
                continue
            k = ev.get("e")
            if k == "Define":
                d = parse_define(ev["text"])
                if d is None:
                    continue
                if not d["ok"]:
                    d = dict(m=d["m"], ok=False, fn=False, params=[], va=False, body=[])
                spell.update(d["body"]); spell.update(d["params"]); spell.add(d["m"])
                events.append(dict(e="Define", **d))
            elif k in ("Undef", "Push", "Pop"):
                name = ev["m"].strip()
                if IDENT.match(name):
                    spell.add(name)
                    events.append(dict(e=k, m=name))
            elif k == "ExpandArg":
                args.append(tcut(ev["text"]))
            elif k == "ExpandIgn":
                ign.append(ev["m"])
            elif k == "Expand":
                res = tcut(ev["result"])
                for a in args:
                    spell.update(a)
                spell.update(res); spell.update(ign); spell.add(ev["m"])
                events.append(dict(e="Expand", m=ev["m"], fn=bool(ev["fn"]), args=args, ign=ign, result=res, skip=""))
                args, ign = [], []
                n_exp += 1
            else:
                continue
            since += 1
            if since >= trim:
                events.append(dict(e="Trim"))
                since = 0
    cls, esc = {"$none": "i"}, {"$none": "$none"}
    for t in spell:
        if t[0] in "\"'":
            cls[t] = "s"
            esc[t] = t.replace("\\", "\\\\").replace('"', '\\"')
        elif t[0].isdigit() or (t[0] == "." and len(t) > 1 and t != "..."):
            cls[t] = "n"
        elif IDENT.match(t):
            cls[t] = "i"
        else:
            cls[t] = "p"
    with open(out_path, "w") as f:
        f.write(json.dumps(dict(e="Lex", cls=cls, esc=esc)) + "\n")
        for ev in events:
            f.write(json.dumps(ev) + "\n")
    return n_exp


def validate_traces(ctx, groups, what):
    """groups: list of lists of raw hook trace files.  Each group is one TLC run."""
    def one(ig):
        i, paths = ig
        cat = os.path.join(ctx.tmp, "mtrace-%s-%d.ndjson" % (what, i))
        n = project_trace(paths, cat)
        status, r = tlc.validate_trace("MacroTrace", cat, env={"JAVA_TOOL_OPTIONS": "-Xss256m"})
        return cat, n, status, r
    total = dict(events=0, compared=0, skipped=0, runs=0)
    for cat, n, status, r in run.pmap(one, list(enumerate(g for g in groups if g))):
        ctx.cov["states"] += r.generated
        ctx.cov["transitions"] += r.generated
        total["runs"] += 1
        total["events"] += n
        if status != "accepted":
            status, r = tlc.validate_trace("MacroTrace", cat, env={"JAVA_TOOL_OPTIONS": "-Xss256m"})   # repeat once
        m = re.findall(r'"MacroTrace compared", (\d+), "skipped", (\d+)', r.out)
        if m:
            total["compared"] += int(m[-1][0])
            total["skipped"] += int(m[-1][1])
        if status != "accepted":
            lines = open(cat).read().split("\n")
            at = getattr(r, "stuck_at", None) or 1
            os.makedirs(ctx.replay_dir, exist_ok=True)
            keep = os.path.join(ctx.replay_dir, os.path.basename(cat))
            with open(keep, "w") as f:
                f.write("\n".join(lines))
            ctx.violation("%s trace %s by MacroTrace (%s) at event %d: %s" % (
                what, status, r.violated or "the recorded replacement step is not the reference's", at,
                lines[at - 1][:400] if at <= len(lines) else ""),
                dict(trace=keep, event=lines[at - 1] if at <= len(lines) else None, tlc_tail=r.out[-2500:],
                     stat_key="trace:" + what))
    return total


def hooks_present():
    src = os.path.join(REPO, "src", "cppparser", "cppPreprocessor.cxx")
    try:
        return '\\"e\\":\\"Expand\\"' in open(src, errors="replace").read()
    except OSError:
        return False


def corpus_traces(ctx):
    """The shipped preprocessor tests and the stub headers, parsed once with the hooks on."""
    items = []
    tdir = os.path.join(REPO, "tests", "cppparser")
    for f in sorted(os.listdir(tdir)):
        if f.endswith((".c", ".h", ".cxx")):
            items.append((os.path.join(tdir, f), ["-T"] if f.endswith(".c") else []))
    pinc = os.path.join(REPO, "parser-inc")
    for root, _, fs in sorted(os.walk(pinc)):
        for f in sorted(fs):
            items.append((os.path.join(root, f), []))

    def one(it):
        path, extra = it
        tr = os.path.join(ctx.tmp, "corpus-%s.trace" % abs(hash(path)))
        run.run_tool("parse_file", extra + ["-S", pinc, path], cwd=ctx.tmp, trace=tr, timeout=120)
        return tr if os.path.exists(tr) else None
    return [t for t in run.pmap(one, items) if t]


def describe(rec, k):
    pre = dflags_of(rec)
    lines = []
    for i, l in enumerate(rec["p"][:k + 1]):
        if l["k"] == "def":
            lines.append(defline(l))
        elif l["k"] == "undef":
            lines.append("#undef " + l["m"])
        elif l["k"] in ("push", "pop"):
            lines.append('#pragma %s_macro("%s")' % (l["k"], l["m"]))
        elif i == k:
            lines.append(" ".join(l["toks"]))
    return " / ".join(pre + lines)


def canonical(recs):
    recs.sort(key=lambda r: json.dumps([r["f"], r.get("d0"), r["p"]], sort_keys=True))
    return recs


def run_check(ctx):
    build.ensure("hooked")
    tier = ctx.tier
    t0 = time.time()
    timing = {}

    def lap(name):
        nonlocal t0
        timing[name] = round(time.time() - t0, 1)
        t0 = time.time()
    dump = os.path.join(ctx.tmp, "dump.ndjson")
    res = tlc.run("MacroMC", CFG[tier], env={"VERIF_DUMP": dump, "JAVA_TOOL_OPTIONS": "-Xss256m"}, timeout=1500 if tier == "quick" else 3000)
    ctx.add_tlc(res)
    if res.verdict == "invariant":
        raise MachineryError("MacroRef: sanity invariant %s violated by the reference algorithm\n%s" % (res.violated, res.out[-2500:]))
    tlc.must_ok(res)
    try:
        recs = canonical(tlc.read_dump(dump))
    except ValueError as e:
        raise MachineryError("dump of MacroMC is not line-wise JSON (a record longer than TLC's atomic write?): %s" % e)
    if not recs:
        raise MachineryError("no programs dumped")
    rp = Replayer(ctx, recs)
    global OPEN
    OPEN = set(ctx.known)
    lap("tlc+load")

    # ---- the lines and their input classes
    domain, by_class, n_out = [], {}, {}
    lines_of = {}
    for cid, rec in enumerate(recs):
        for k, l in enumerate(rec["p"]):
            if l["k"] != "text":
                continue
            o = rec["o"][k]
            if "x" in o:
                n_out[o["x"]] = n_out.get(o["x"], 0) + 1
                continue
            lines_of.setdefault(cid, set()).add(k)
            cls = classes_of(rec, k, cid)
            if cls:
                for c in cls:
                    by_class.setdefault(c, []).append((cid, k))
            else:
                domain.append((cid, k))
    n_lines = sum(len(v) for v in lines_of.values())
    fams = sorted(set(r["f"] for r in recs))

    # ---- spec sanity: gcc -E on EVERY line (claimed domain and finding classes alike)
    solo = [cid for cid in lines_of if has_d0(recs[cid])]
    shared = [cid for cid in sorted(lines_of) if not has_d0(recs[cid])]
    gjobs = [[(cid, lines_of[cid]) for cid in shared[i:i + GCC_BATCH]] for i in range(0, len(shared), GCC_BATCH)]
    gjobs += [[(cid, lines_of[cid])] for cid in solo]
    bad = []
    for items, G in zip(gjobs, run.pmap(rp.gcc, gjobs)):
        for cid, keep in items:
            for k in keep:
                e, g = expected(recs[cid]["o"][k]), G.get(cid, {}).get(k)
                if g != e:
                    bad.append((cid, k, e, g))
    if bad:
        cid, k, e, g = bad[0]
        path = ctx.save_replay("spec-vs-gcc", dict(program=render_case(cid, recs[cid], {k}), spec=e, gcc=g,
                                                  n_disagreements=len(bad)))
        raise MachineryError("spec != gcc -E on %d of %d lines, e.g. %s: spec %s gcc %s (%s)" % (
            len(bad), n_lines, describe(recs[cid], k), e, g, path))

    lap("gcc")
    # ---- replay of the claimed domain through parse_file -E
    dom_of = {}
    for cid, k in domain:
        dom_of.setdefault(cid, set()).add(k)
    shared = [cid for cid in sorted(dom_of) if not has_d0(recs[cid])]
    # the seed only permutes which cases share a batch
    rot = ctx.seed % max(1, len(shared))
    shared = shared[rot:] + shared[:rot]
    jobs = [[(cid, dom_of[cid]) for cid in shared[i:i + BATCH]] for i in range(0, len(shared), BATCH)]
    jobs += [[(cid, dom_of[cid])] for cid in dom_of if has_d0(recs[cid])]
    results = {}
    for sub in run.pmap(lambda items: rp.resolve(items, BATCH_TIMEOUT), jobs):
        results.update(sub)
    # isolated lines first, the unresolved remainder of abnormal batches last
    suspects = sorted((key for key, (st, _) in results.items() if st != "ok"),
                      key=lambda key: (results[key][0].startswith("unresolved"), key))
    confirmed = {}
    todo = [key for key in suspects if results[key][0] == "diff"][:CONFIRM_CAP]
    for key, r in zip(todo, run.pmap(lambda ck: rp.alone(*ck), todo)):
        confirmed[key] = r
    n_viol = 0
    for key in suspects:
        st, got = confirmed.get(key, results[key])
        if st == "ok":
            continue            # the line was the victim of a neighbour in its batch
        if st == "hang" and n_viol < ABNORMAL_CAP:     # timing verdicts are reported only if they repeat
            st, got = rp.alone(*key)
            if st == "ok":
                continue
        cid, k = key
        n_viol += 1
        ctx.violation("%s: conforming result %s, parse_file -E %s" % (
            describe(recs[cid], k), " ".join(expected(recs[cid]["o"][k])) or "(nothing)",
            " ".join(got) if isinstance(got, list) else got),
            dict(program=render_case(cid, recs[cid], {k}), dflags=rp.dflags(cid), expected=expected(recs[cid]["o"][k]),
                 observed=got, status=st, family=recs[cid]["f"], stat_key=recs[cid]["f"] + ":" + st), classes=[])

    lap("replay")
    # ---- finding classes: a fixed stratified sample, one line per process
    per = SAMPLE_PER_CLASS[tier]
    sample = {}
    for c, items in sorted(by_class.items()):
        items.sort()
        stepc = max(1, len(items) // per)
        for key in items[::stepc][:per]:
            sample.setdefault(key, [])
    keys = sorted(sample)
    class_stats = {c: dict(lines=len(v), sampled=0, disagree=0, crash=0, hang=0) for c, v in by_class.items()}
    for key, (st, got) in zip(keys, run.pmap(lambda ck: rp.alone(*ck), keys)):
        cid, k = key
        cls = classes_of(recs[cid], k, cid)
        for c in cls:
            s = class_stats[c]
            s["sampled"] += 1
            if st != "ok":
                s["disagree"] += 1
                if st in ("crash", "hang"):
                    s[st] += 1
        if st != "ok":
            ctx.violation("%s: conforming result %s, parse_file -E %s" % (
                describe(recs[cid], k), " ".join(expected(recs[cid]["o"][k])) or "(nothing)",
                " ".join(got) if isinstance(got, list) else got),
                dict(program=render_case(cid, recs[cid], {k}), dflags=rp.dflags(cid), expected=expected(recs[cid]["o"][k]),
                     observed=got, status=st, family=recs[cid]["f"], stat_key="|".join(cls) + ":" + st), classes=cls)
    for c, s in sorted(class_stats.items()):
        if s["sampled"] and not s["disagree"]:
            print("NOTE C08: no sampled line of finding class %s disagrees any more (%d sampled) -- fixed?" % (c, s["sampled"]))

    lap("class samples")

    # ---- trace validation (code -> spec): H-macro events of some replay batches and of the corpus
    if hooks_present():
        nb = TRACE_BATCHES[tier]
        shared_jobs = [j for j in jobs if len(j) > 1]
        picked = shared_jobs[::max(1, len(shared_jobs) // nb)][:nb]

        oversized = []

        def traced(ij):
            i, items = ij
            tr = os.path.join(ctx.tmp, "batch%03d.trace" % i)
            rp.parse_file(items, BATCH_TIMEOUT * 3, trace=tr)
            if os.path.exists(tr) and os.path.getsize(tr) > TRACE_MAX:
                oversized.append(tr)       # a runaway replacement; the replay of the batch reports it
                return None
            return tr if os.path.exists(tr) else None
        btr = [t for t in run.pmap(traced, list(enumerate(picked))) if t]
        tv_b = validate_traces(ctx, [[t] for t in btr], "replay")
        ctr = corpus_traces(ctx)
        tv_c = validate_traces(ctx, [ctr[i::4] for i in range(4)], "corpus")
        ctx.notes["trace_validation"] = dict(oversized_traces_skipped=len(oversized), replay_batches=len(btr), replay=tv_b, corpus_files=len(ctr), corpus=tv_c)
        ctx.cov["traces_validated_against_impl"] += len(btr) + len(ctr)
        if tv_b["compared"] == 0:
            raise MachineryError("trace validation compared no replacement step (hooks silent?)")
    else:
        ctx.notes["trace_validation"] = "H-macro hooks (patches/c08-hooks.diff) are not in the tree under test: skipped"
    lap("trace validation")
    ctx.notes["timing_s"] = timing
    # ---- coverage
    n_dom = len(domain)
    ctx.cov["exhaustive"] = True
    ctx.cov["evaluations"] += n_lines + n_dom + len(keys)
    nontrivial = set()      # a case = the directives before the line (and -D) + the line itself
    for cid, keep in lines_of.items():
        rec = recs[cid]
        for k in keep:
            if rec["o"][k]["t"] != rec["p"][k]["toks"]:
                nontrivial.add(hash(describe(rec, k)))
    ctx.cov["distinct_nontrivial"] = len(nontrivial)
    ctx.cov["traces_validated_against_impl"] += n_dom + len(keys)
    ctx.cov["rule"] = ("TLC enumerates every program of the families in the cfg (definitions from item alphabets, "
                       "#undef/redefinition/push/pop sequences, -D initial tables) with a fixed list of call-site "
                       "lines per family; a case = (program, Text line).  Every case is checked spec = gcc -E; every "
                       "case of the claimed domain is replayed through parse_file -E; distinct = distinct text of "
                       "(-D table, directives before the line, line), non-trivial = the reference output differs "
                       "from the line's own tokens (at least one replacement happened)")
    ctx.notes["families"] = fams
    ctx.notes["programs"] = len(recs)
    ctx.notes["lines_total"] = n_lines
    ctx.notes["lines_claimed_domain"] = n_dom
    ctx.notes["lines_outside_standard"] = n_out
    ctx.notes["finding_classes"] = class_stats
    ctx.notes["parse_file_runs"] = rp.nruns
    ctx.notes["domain_violations"] = n_viol
    seen_fam = {}
    for cid, k in domain[::97]:        # one replayed, non-trivial case per family
        rec = recs[cid]
        if rec["f"] not in seen_fam and rec["o"][k]["t"] != rec["p"][k]["toks"] and len(rec["o"][k]["t"]) >= 3:
            seen_fam[rec["f"]] = 1
            ctx.sample(dict(program=describe(rec, k), expected=expected(rec["o"][k]), family=rec["f"]), limit=8)
    if not ctx.cov["samples"] and domain:
        cid, k = domain[0]
        ctx.sample(dict(program=describe(recs[cid], k), expected=expected(recs[cid]["o"][k]), family=recs[cid]["f"]))
    ctx.assumptions += [
        "gcc -E -P -x c++ -std=gnu++20 is a conforming preprocessor on the enumerated grammar (it validates the spec on every line)",
        "string literals produced by # are compared with the white space the renderer writes between source tokens (one space)",
    ]


def replay(path):
    """./check C08 --replay <violation file>: run the saved program again through parse_file -E and gcc -E."""
    from ..common import scratch
    import shutil
    d = json.load(open(path))
    case = d.get("case", d)
    if "program" not in case:
        print(json.dumps(d, indent=1))
        return 0
    build.ensure("hooked")
    work = scratch("C08-replay")
    try:
        src = os.path.join(work, "replay.c")
        with open(src, "w") as f:
            f.write("\n".join(case["program"]) + "\n")
        flags = case.get("dflags") or []
        r = run.run_tool("parse_file", ["-E"] + flags + ["replay.c"], cwd=work, timeout=LINE_TIMEOUT, monitor=False)
        g = subprocess.run(GCC + flags + [src], stdout=subprocess.PIPE, stderr=subprocess.PIPE, text=True)
        print("\n".join(case["program"]))
        exp = case.get("expected", case.get("spec"))
        print("spec       :", exp)
        for name, out in (("gcc -E     ", g.stdout), ("parse_file ", "" if r.timed_out else r.stdout)):
            obs = [v for o in observe(out).values() for v in o.values()]
            print(name + ":", obs[0] if obs else None)
        print("parse_file exit:", "timeout" if r.timed_out else r.rc)
        obs = [v for o in observe("" if r.timed_out else r.stdout).values() for v in o.values()]
        return 0 if (obs and obs[0] == exp and r.rc == 0) else 1
    finally:
        shutil.rmtree(work, ignore_errors=True)
