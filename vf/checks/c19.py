"""C19 — a failed or incomplete output write is reported by a non-zero exit status.

spec ToolRun (process life cycle of the three tools; the environment may fail the open, one
write(2) — transiently or from then on —, the flush or the close(2) of every requested channel;
TLC: C19_FaultReported / C19_CleanRunSucceeds and the C15 run-protocol invariants in every state
of every run, <>Exited)  ->  every complete run TLC dumps (command x parse outcomes x fault
schedule) is replayed into the real tools under harness/faultio.c (LD_PRELOAD), the abstract
write positions first / middle / last ranging over EVERY write index of the measured fault-free
run, open faults and "no space from the first write" additionally realised by real file-system
conditions (missing directory, path below a regular file, directory as target, immutable
target, a full device)  ->  verdict per run from one projection (exit status, files present,
bytes on disk vs bytes of the fault-free run) against the value the spec state carries  ->
the merged hook + injector trace of every run is validated against ToolRunTrace."""
import json, os, stat, errno, subprocess, itertools, shutil
from ..common import MachineryError, NCPU
from .. import build, tlc, run, harness

CFG = {"quick": "ToolRun_quick", "thorough": "ToolRun_thorough"}
NCLS = {"quick": 40, "thorough": 160}
KCAP = {"quick": 40, "thorough": 10 ** 9}
CH_EXT = {"oc": "cxx", "od": "in", "oh": "txt"}
ERRNO = {"open": errno.EACCES, "write": errno.EIO, "writefrom": errno.ENOSPC, "close": errno.EIO}
TRACE_SPEC = "ToolRunTrace"
NAME_LEN = 24     # every output path of a command has the same length: the generated files embed
                  # the command line and the -oc path, so sizes are only comparable at equal lengths


def oname(prefix, ch):
    return (prefix + ch).ljust(NAME_LEN, "_") + "." + CH_EXT[ch]


def big_header(ncls):
    out = []
    for i in range(ncls):
        out.append("class K%d {\n__published:\n  K%d();\n  int get_%d(int a, double b) const;\n"
                   "  void set_%d(const K%d &other, int v = %d);\n"
                   "  static K%d *make_%d(const char *name);\n  int field_%d;\n};\n" % ((i,) * 9))
    out.append("__begin_publish\n")
    for i in range(ncls):
        out.append("int free_fn_%d(K%d *p, int n);\n" % (i, i))
    out.append("__end_publish\n")
    return "".join(out)


SMALL = "class Small%d {\n__published:\n  Small%d();\n  int value() const;\n};\n"
BROKEN = "class Broken {\n__published:\n  int f(;\n};\n"


class Cmd:
    """One command line of the replay: tool + back-end flags; channels in the code's order."""
    def __init__(self, name, tool, flags, chans):
        self.name, self.tool, self.flags, self.chans = name, tool, flags, chans


COMMANDS = [
    Cmd("interrogate-c", "interrogate", ["-module", "m", "-library", "l", "-c"], ["oc", "od", "oh"]),
    Cmd("interrogate-pyn", "interrogate", ["-module", "m", "-library", "l", "-python-native"], ["oc", "od", "oh"]),
    Cmd("module-pyn", "interrogate_module", ["-module", "m", "-library", "l", "-python-native"], ["oc"]),
    Cmd("parse_file", "parse_file", [], []),
]


# ---------------------------------------------------------------------------------------
# one run of a tool under the injector; returns the observation and the trace lines
DIAG = ("rror", "Unable to", "failed to parse")


def sources(cmd, parsed, loaderr, work):
    """Realise the parse outcomes of a schedule as source files (.in files for the module tool)."""
    out = []
    for i, o in enumerate(parsed):
        if cmd.tool == "interrogate_module":
            out.append(os.path.join(work, "lib%d.in" % i))
        elif o == "ok":
            out.append(os.path.join(work, "big.h" if i == 0 else "small%d.h" % i))
        elif o == "err":
            out.append(os.path.join(work, "broken.h"))
        else:
            out.append(os.path.join(work, "does-not-exist-%d.h" % i))
    if loaderr:
        out.append(os.path.join(work, "missing.in"))
    return out


def run_one(cmd, rundir, paths, srcs, faults, so, want=None, decl=None, unreadable=False, nfiles=1,
            foreign=()):
    """paths: {ch: absolute output path}; faults: {ch: (op, k)} for the injector; decl: the fault
    kinds announced to the trace spec (covers the static conditions, which need no injector
    fault)."""
    os.makedirs(rundir, exist_ok=True)
    tr = os.path.join(rundir, "trace.ndjson")
    if os.path.exists(tr):
        os.remove(tr)
    req = [c for c in cmd.chans if c in paths]
    args = list(cmd.flags)
    for c in req:
        args += ["-" + c, paths[c]]
    args += srcs
    env = {"SOURCE_DATE_EPOCH": "1", "LD_PRELOAD": so, "FAULTIO_LOG": tr,
           "FAULTIO_TARGETS": ";".join("%s=%s" % (c, paths[c]) for c in req),
           "FAULTIO_FAULTS": ",".join("%s:%s:%d:%d" % (c, op, k, ERRNO[op]) for c, (op, k) in sorted(faults.items()))}
    r = run.run_tool(cmd.tool, args, cwd=rundir, trace=tr, timeout=60, env=env)
    # `foreign`: channels whose path existed before the run (file-system conditions); whatever is
    # there afterwards is not an output of this run
    present = [c for c in req if c not in foreign and os.path.isfile(paths[c]) and not os.path.islink(paths[c])]
    disk = {c: (os.path.getsize(paths[c]) if c in present else -1) for c in req}
    obs = dict(e="Observed", rc=(r.rc if (r.rc is not None and r.rc >= 0) else 255),
               signal=r.signal, timeout=int(r.timed_out), present=present, disk=disk,
               ndiag=sum(1 for ln in r.stderr.split("\n") if any(d in ln for d in DIAG)),
               loaderr=int("Error reading interrogate data" in r.stderr))
    if want is not None:
        obs["want"] = {c: want[c] for c in req}
    head = dict(e="Run", tool=cmd.tool, req=req, nfiles=nfiles, io=1,
                faults=(decl if decl is not None else {c: op for c, (op, k) in faults.items()}),
                unreadable=int(unreadable))
    lines = [json.dumps(head)]
    if os.path.exists(tr):
        for ln in open(tr):
            ln = ln.strip()
            if ln and not ln.startswith('{"e":"Died"'):
                lines.append(ln)
    lines.append(json.dumps(obs))
    writes = {c: sum(1 for ln in lines if '"op":"write","ch":"%s"' % c in ln) for c in req}
    return dict(rc=r.rc, signal=r.signal, timed_out=r.timed_out, present=present, disk=disk,
                stderr=r.stderr[-1500:], lines=lines, writes=writes, args=args, env=env)


# ---------------------------------------------------------------------------------------
def posclass(f):
    if f["op"] in ("write", "writefrom"):
        return "last" if f["at"] == "f" else ("first" if f["k"] == 1 else "middle")
    return "-"


def sched_key(rec):
    return (rec["tool"], tuple(sorted(rec["req"])), tuple(rec["parsed"]), bool(rec["loadErr"]),
            tuple(sorted((c, f["op"], posclass(f)) for c, f in (rec["sched"] or {}).items())))


def ks_for(cls, n, cap):
    """Concrete write indices of an abstract position in a run that makes n write(2) calls."""
    if n < 1:
        return []
    if cls == "first":
        return [1] if n >= 2 else []          # with a single write that write is the flush
    if cls == "last":
        return [n]
    ks = list(range(2, n))
    if len(ks) > cap:                           # fixed stratified cut, never the seed
        step = len(ks) / float(cap)
        ks = sorted({ks[int(i * step)] for i in range(cap)})
    return ks


def setup_static(work, ctx):
    """File-system conditions that make open(2) fail / every write fail.  Returns
    {name: (kind, make_path(ch, rundir))}; conditions this sandbox cannot produce are noted."""
    st = {}
    st["missing-directory"] = ("open", lambda ch, d: os.path.join(d, oname("nodir/o-", ch)))

    def below_file(ch, d):
        f = os.path.join(d, "plainfile")
        open(f, "w").write("x")
        return os.path.join(d, oname("plainfile/o-", ch))
    st["path-below-regular-file"] = ("open", below_file)

    def is_dir(ch, d):
        p = os.path.join(d, oname("dir-", ch))
        os.makedirs(p, exist_ok=True)
        return p
    st["target-is-directory"] = ("open", is_dir)

    # read-only target: permission bits do not bind root; the immutable attribute does
    probe = os.path.join(work, "ro-probe")
    open(probe, "w").write("x")
    os.chmod(probe, 0o444)
    bites = False
    try:
        open(probe, "w").close()
    except OSError:
        bites = True
    if bites:
        def ro(ch, d):
            p = os.path.join(d, oname("ro-", ch))
            open(p, "w").write("old contents\n")
            os.chmod(p, 0o444)
            return p
        st["read-only-target"] = ("open", ro)
    else:
        imm = subprocess.run(["chattr", "+i", probe], stdout=subprocess.PIPE, stderr=subprocess.PIPE)
        ok = False
        if imm.returncode == 0:
            try:
                open(probe, "w").close()
            except OSError:
                ok = True
            subprocess.run(["chattr", "-i", probe])
        if ok:
            def ro(ch, d):
                p = os.path.join(d, oname("ro-", ch))
                open(p, "w").write("old contents\n")
                os.chmod(p, 0o444)
                subprocess.run(["chattr", "+i", p], check=True)
                ctx._immutable.append(p)
                return p
            st["read-only-target"] = ("open", ro)
            ctx.notes["read_only_target"] = "running as root: chmod 0444 does not bind, realised with chattr +i"
        else:
            ctx.notes["read_only_target"] = "skipped: running as root and chattr +i is not available here"
    os.remove(probe)

    # a full device: /dev/full semantics (character device 1,7)
    node = os.path.join(work, "fullprobe")
    full_ok = False
    try:
        os.mknod(node, stat.S_IFCHR | 0o666, os.makedev(1, 7))
        try:
            fd = os.open(node, os.O_WRONLY)
            try:
                os.write(fd, b"x")
            except OSError as e:
                full_ok = e.errno == errno.ENOSPC
            os.close(fd)
        except OSError:
            pass
    except OSError:
        pass
    if os.path.exists(node):
        os.remove(node)
    if full_ok:
        def full(ch, d):
            p = os.path.join(d, oname("full-", ch))
            os.mknod(p, stat.S_IFCHR | 0o666, os.makedev(1, 7))
            return p
        st["device-full"] = ("writefrom", full)
    elif os.path.exists("/dev/full") and stat.S_ISCHR(os.stat("/dev/full").st_mode):
        def full(ch, d):
            p = os.path.join(d, oname("full-", ch))
            os.symlink("/dev/full", p)
            return p
        st["device-full"] = ("writefrom", full)
    else:
        ctx.notes["device_full"] = "skipped: no full device can be created or found in this sandbox"
    return st


# ---------------------------------------------------------------------------------------
def run_check(ctx):
    build.ensure("hooked")
    so = harness.ensure("faultio.so", ["faultio.c"], shared=True)
    tier = ctx.tier
    ctx._immutable = []
    try:
        _run(ctx, tier, so)
    finally:
        for p in ctx._immutable:
            subprocess.run(["chattr", "-i", p])


def _run(ctx, tier, so):
    import time
    work = ctx.tmp
    t0 = time.time()
    phase = {}
    # ---- 1. TLC ------------------------------------------------------------------------
    dump = os.path.join(work, "dump.ndjson")
    res = tlc.run("ToolRunMC", CFG[tier], env={"VERIF_DUMP": dump}, coverage=True, timeout=1200)
    ctx.add_tlc(res)
    tlc.must_ok(res, "ToolRun")
    vac = tlc.vacuous_actions(res, ignore=("Init",))
    if vac:
        raise MachineryError("ToolRun: actions never taken: %s" % vac)
    # the property is not vacuous: the protocol of the code before the fixes violates it
    neg = tlc.run("ToolRunMC", "ToolRun_unfixed", timeout=600)
    if neg.verdict != "invariant" or neg.violated not in ("C19_FaultReported", "C15_StatusIsExit"):
        raise MachineryError("ToolRun with CheckAfterWriter = FALSE should violate C19_FaultReported, got %s %s"
                             % (neg.verdict, neg.violated))
    ctx.notes["negative_model"] = "CheckAfterWriter=FALSE (code before the fixes): TLC reports %s after %d states" % (
        neg.violated, neg.generated)
    phase["tlc"] = round(time.time() - t0, 1)
    recs = tlc.read_dump(dump)
    if not recs:
        raise MachineryError("no runs dumped")
    classes = {}
    for rec in recs:
        classes.setdefault(sched_key(rec), rec)
    ctx.notes["tlc_complete_runs"] = len(recs)
    ctx.notes["schedule_classes"] = len(classes)
    ctx.cov["exhaustive"] = True
    ctx.cov["rule"] = (
        "TLC enumerates every run of ToolRun within the cfg bounds (tool x requested channels x parse outcomes x "
        "<=1 fault per channel: open, transient/persistent write at first/middle/last position, close; database "
        "load error); runs are de-duplicated by (tool, requested set, parse outcomes, fault kind and abstract "
        "position per channel); each class is replayed for every applicable command line with the abstract "
        "position ranging over every write index of the measured fault-free run; non-trivial = the run has at "
        "least one injected or file-system fault on a requested channel, or a parse/load failure; distinct = "
        "distinct (command, sources, concrete fault assignment)")

    # ---- 2. inputs ---------------------------------------------------------------------
    open(os.path.join(work, "big.h"), "w").write(big_header(NCLS[tier]))
    for i in range(1, 4):
        open(os.path.join(work, "small%d.h" % i), "w").write(SMALL % (i, i))
    open(os.path.join(work, "broken.h"), "w").write(BROKEN)
    for i in range(0, 4):     # databases for interrogate_module (not under test here: no injector)
        src = "big.h" if i == 0 else "small%d.h" % i
        r = run.run_tool("interrogate", ["-module", "m", "-library", "l%d" % i, "-python-native",
                                         "-od", os.path.join(work, "lib%d.in" % i), "-oc", os.path.join(work, "lib%d.cxx" % i),
                                         os.path.join(work, src)], cwd=work, env={"SOURCE_DATE_EPOCH": "1"})
        if r.rc != 0 or not os.path.exists(os.path.join(work, "lib%d.in" % i)):
            raise MachineryError("could not produce lib%d.in: rc=%s %s" % (i, r.rc, r.stderr[-400:]))

    # ---- 3. fault-free measurement per (command, requested set, nfiles) ------------------
    measure = {}
    jobs = []
    for cmd in COMMANDS:
        if not cmd.chans:
            continue
        nmax = max(len(k[2]) for k in classes if k[0] == cmd.tool)
        for nf in range(1, nmax + 1):
            for r_ in range(1, len(cmd.chans) + 1):
                for req in itertools.combinations(cmd.chans, r_):
                    jobs.append((cmd, req, nf))

    def meas(job):
        cmd, req, nf = job
        d = os.path.join(work, "m%05d" % jobs.index(job))
        paths = {c: os.path.join(d, oname("out-", c)) for c in req}
        return job, run_one(cmd, d, paths, sources(cmd, ["ok"] * nf, False, work), {}, so, nfiles=nf)
    base_runs = []
    for (cmd, req, nf), o in run.pmap(meas, jobs):
        if o["rc"] != 0 or o["timed_out"] or sorted(o["present"]) != sorted(req):
            ctx.violation("fault-free run of %s with outputs %s exits %s / leaves %s" % (cmd.name, list(req), o["rc"], o["present"]),
                          dict(argv=o["args"], stderr=o["stderr"]))
            continue
        for c in req:
            if o["writes"][c] < 1:
                raise MachineryError("injector saw no write(2) on channel %s of %s %s" % (c, cmd.name, o["args"]))
        measure[(cmd.name, tuple(req), nf)] = dict(writes=o["writes"], size=o["disk"])
    if not measure:
        raise MachineryError("no fault-free measurement succeeded")
    ctx.notes["fault_free_writes"] = {"%s %s nfiles=%d" % (k[0], "+".join(k[1]), k[2]): v["writes"]
                                      for k, v in sorted(measure.items()) if k[2] == 1}

    # ---- 4. the replay plan ------------------------------------------------------------
    static = setup_static(work, ctx)
    ctx.notes["static_conditions"] = sorted(static)
    plan = []      # (cmd, rec, assignment {ch: (op, k)}, static {ch: name}, label)
    skipped_pos = 0
    for key, rec in sorted(classes.items(), key=lambda kv: json.dumps(kv[0])):
        for cmd in COMMANDS:
            if cmd.tool != rec["tool"]:
                continue
            req = tuple(c for c in cmd.chans if c in rec["req"])
            nf = len(rec["parsed"])
            allok = all(p == "ok" for p in rec["parsed"])
            sched = {c: f for c, f in (rec["sched"] or {}).items() if f["op"] != "none"}
            if not sched or not allok:
                plan.append((cmd, rec, {}, {}, "no-fault"))
                continue
            m = measure.get((cmd.name, req, nf))
            if m is None:
                continue
            per = {}
            ok = True
            for c, f in sched.items():
                if f["op"] in ("write", "writefrom"):
                    ks = ks_for(posclass(f), m["writes"][c], KCAP[tier])
                    if not ks:
                        ok = False
                    per[c] = [(f["op"], k) for k in ks]
                else:
                    per[c] = [(f["op"], 0)]
            if not ok:
                skipped_pos += 1
                continue
            # one fault: every write index; several faults: the positions move in lock-step, first
            # and last representative of the range (one when more than one source file is parsed)
            width = max(len(v) for v in per.values())
            if len(sched) == 1:
                picks = range(width)
            elif nf == 1 or tier == "thorough":
                picks = sorted({0, width - 1})
            else:
                picks = [width // 2]
            for i in picks:
                plan.append((cmd, rec, {c: v[i % len(v)] for c, v in per.items()}, {}, "injected"))
            # file-system realisations of the same schedule: every open fault by each condition,
            # a persistent write fault at the first position by the full device
            for name, (kind, mk) in sorted(static.items()):
                chans = [c for c, f in sched.items() if (kind == "open" and f["op"] == "open") or
                         (kind == "writefrom" and f["op"] == "writefrom" and
                          (posclass(f) == "first" or (posclass(f) == "last" and m["writes"][c] == 1)))]
                if chans and (len(sched) == 1 or len(chans) == len(sched)) and (nf == 1 or tier == "thorough"):
                    rest = {c: per[c][0] for c in sched if c not in chans}
                    plan.append((cmd, rec, rest, {c: name for c in chans}, name))
    ctx.notes["schedules_without_concrete_position"] = skipped_pos

    # ---- 5. replay ---------------------------------------------------------------------
    def replay(item):
        idx, (cmd, rec, assign, stat_, label) = item
        d = os.path.join(work, "r%05d" % idx)
        os.makedirs(d, exist_ok=True)
        req = [c for c in cmd.chans if c in rec["req"]]
        paths = {}
        for c in req:
            paths[c] = static[stat_[c]][1](c, d) if c in stat_ else os.path.join(d, oname("out-", c))
        nf = len(rec["parsed"])
        m = measure.get((cmd.name, tuple(req), nf))
        decl = {c: op for c, (op, k) in assign.items()}
        for c, name in stat_.items():
            decl[c] = static[name][0]
        srcs = sources(cmd, rec["parsed"], rec["loadErr"], work)
        # when the parse does not get to the end, the remaining files are still named
        if cmd.tool != "interrogate_module":
            total = rec["nfiles"]
            srcs = srcs + [os.path.join(work, "small%d.h" % (i + 1)) for i in range(len(rec["parsed"]), total)]
        o = run_one(cmd, d, paths, srcs, assign, so, want=(m["size"] if m else None), decl=decl,
                    unreadable=("unread" in rec["parsed"]), nfiles=rec["nfiles"], foreign=tuple(stat_))
        return item, o, paths

    t1 = time.time()
    results = run.pmap(replay, list(enumerate(plan)))
    phase["replay"] = round(time.time() - t1, 1)
    distinct = set()
    nontrivial = set()
    traces = []
    judged_bad = 0
    for (idx, (cmd, rec, assign, stat_, label)), o, paths in results:
        req = [c for c in cmd.chans if c in rec["req"]]
        case = dict(command=cmd.name, argv=o["args"], faults={c: "%s@%d" % a for c, a in assign.items()},
                    static=stat_, parsed=rec["parsed"], loadErr=rec["loadErr"], expected_exit=rec["exit"],
                    observed=dict(rc=o["rc"], signal=o["signal"], present=o["present"], disk=o["disk"]),
                    stderr=o["stderr"], env={k: v for k, v in o["env"].items() if k.startswith("FAULTIO")})
        fid = (cmd.name, tuple(rec["parsed"]), rec["loadErr"], tuple(sorted(assign.items())), tuple(sorted(stat_.items())), tuple(req))
        distinct.add(fid)
        faulty = bool(assign) or bool(stat_) or rec["loadErr"] or any(p != "ok" for p in rec["parsed"])
        if faulty:
            nontrivial.add(fid)
        bad = None
        m = measure.get((cmd.name, tuple(req), len(rec["parsed"])))
        # projection: (exit status non-zero, signal, incomplete channels)
        incomplete = []
        if m and all(p == "ok" for p in rec["parsed"]):
            for c in req:
                if c in stat_ or c in assign or o["disk"].get(c, -1) < m["size"][c]:
                    incomplete.append(c)
        if o["signal"] or o["timed_out"]:
            bad = "died with signal %s / timeout %s" % (o["signal"], o["timed_out"])
        elif (rec["exit"] != 0) != (o["rc"] != 0):
            if o["rc"] == 0:
                bad = "exit status 0 although %s" % (
                    "output(s) %s failed or are incomplete" % incomplete if incomplete else "the run failed (%s)" % (rec["parsed"] + ["loadErr"] * rec["loadErr"]))
            else:
                bad = "exit status %s on a run without any fault" % o["rc"]
        elif incomplete and o["rc"] == 0:
            bad = "exit status 0 although output(s) %s are incomplete" % incomplete
        elif not faulty and (sorted(o["present"]) != sorted(req) or (m and any(o["disk"][c] != m["size"][c] for c in req))):
            bad = "fault-free run left %s with sizes %s (expected %s)" % (o["present"], o["disk"], m and m["size"])
        elif not stat_ and sorted(o["present"]) != sorted(c for c in rec["outputs"] if c in req):
            bad = "output files present %s, the protocol leaves %s" % (sorted(o["present"]), sorted(rec["outputs"]))
        if bad:
            judged_bad += 1
            ctx.violation("%s %s [%s]: %s" % (cmd.name, " ".join("%s:%s@%d" % (c, a[0], a[1]) for c, a in sorted(assign.items())) or
                                               " ".join("%s:%s" % kv for kv in sorted(stat_.items())) or "no fault", label, bad), case)
        else:
            traces.append((idx, o["lines"], case))
    ctx.cov["evaluations"] += len(results)
    ctx.cov["distinct_nontrivial"] = len(nontrivial)
    ctx.cov["traces_validated_against_impl"] += len(results)
    ctx.notes["replay_runs"] = len(results)
    ctx.notes["replay_runs_by_kind"] = {k: sum(1 for p in plan if p[4] == k) for k in sorted({p[4] for p in plan})}
    ctx.notes["runs_judged_violating_by_replay"] = judged_bad
    for (idx, (cmd, rec, assign, stat_, label)), o, paths in results[:: max(1, len(results) // 5)][:5]:
        ctx.sample(dict(command=cmd.name, requested=[c for c in cmd.chans if c in rec["req"]], parsed=rec["parsed"],
                        faults={c: "%s@%d" % a for c, a in assign.items()}, static=stat_,
                        expected_exit=rec["exit"], observed_exit=o["rc"], bytes_on_disk=o["disk"]))

    # ---- 6. trace validation -------------------------------------------------------------
    t2 = time.time()
    nev = validate(ctx, traces, work)
    phase["trace_validation"] = round(time.time() - t2, 1)
    ctx.notes["phase_seconds"] = phase
    ctx.notes["trace_events_validated"] = nev
    ctx.notes["traces_validated"] = len(traces)
    ctx.assumptions += [
        "libstdc++ basic_filebuf reaches the kernel only through fopen/fopen64/open/openat, write/writev, fclose/close (all interposed)",
        "a fault is a call returning -1 with errno; short writes are not injected",
        "SOURCE_DATE_EPOCH fixes the file identifier so that the size of a fault-free output is reproducible",
    ]


def validate(ctx, traces, work, spec=TRACE_SPEC):
    """Concatenate the runs (each starts with its Run event, which resets the state) into NCPU
    files and validate them; on a failure, re-run once, then bisect to the run."""
    if not traces:
        return 0
    groups = [traces[i::NCPU] for i in range(NCPU)]
    groups = [g for g in groups if g]

    def write(path, g):
        n = 0
        with open(path, "w") as f:
            for idx, lines, case in g:
                for ln in lines:
                    f.write(ln + "\n")
                    n += 1
        return n

    def one(gi_g):
        gi, g = gi_g
        cat = os.path.join(work, "trace-%02d.ndjson" % gi)
        n = write(cat, g)
        status, r = tlc.validate_trace(spec, cat)
        return status, r, cat, n, g
    total = 0
    for status, r, cat, n, g in run.pmap(one, list(enumerate(groups))):
        ctx.cov["states"] += r.generated
        ctx.cov["transitions"] += r.generated
        total += n
        if status == "accepted":
            continue
        status2, r2 = tlc.validate_trace(spec, cat)        # a rejection is reported only if it repeats
        if status2 == "accepted":
            continue
        # locate the run: the event index TLC stopped at
        at = r2.stuck_at or 1
        pos, hit = 0, g[-1]
        for item in g:
            if pos + len(item[1]) >= at:
                hit = item
                break
            pos += len(item[1])
        idx, lines, case = hit
        keep = os.path.join(ctx.replay_dir, "trace-run%05d.ndjson" % idx)
        os.makedirs(ctx.replay_dir, exist_ok=True)
        open(keep, "w").write("\n".join(lines) + "\n")
        local = max(0, at - pos - 1)
        ctx.violation("trace of %s %s by %s (%s) at event %d: %s" % (
            case.get("command"), status2, spec, r2.violated or "no action of the protocol matches", local,
            " | ".join(lines[max(0, local - 1):local + 2])[:400]),
            dict(case=case, trace=keep, tlc_tail=r2.out[-2500:]))
    return total
