"""The COMPOSED preprocessor (spec Preproc; serves C08, C09, C17) — a part of the C09 check.

spec Preproc (one step = one logical source line; macro table + one conditional stack per open
file + include stack with physical line numbers + once-only set + emitted facts; TLC: the
invariants / action properties listed in specs/Preproc_*.cfg in every state of every program
within the bounds)
  -> every complete behaviour (main + up to two headers) is rendered to real files, many cases
     per translation unit, and run through gcc -E -P (spec sanity on EVERY case: spec != gcc is
     a MachineryError) and through parse_file -E; the observable is the sequence of facts
     TX_<case>_<file>_<line> = <value> ; that survives, in order, plus which macros are defined
     at the end;  a sample is run again with the case's main file as the top-level file;
  -> the H-dir hook trace of the batch runs is validated by the existing CondInclTrace, the
     H-macro events by the existing MacroTrace (projection of c08).

run_part(ctx, work) is called from c09.py: violations count for C09; the payload field `about`
says when the mismatch is purely one of macro text (C08) or of once-only inclusion (C17)."""
import os, re, json, subprocess, collections, zlib
from ..common import MachineryError, NCPU
from .. import tlc, run

W = min(6, NCPU)           # the machine is shared: never more than 6 workers here
BATCH = 300
# (cfg, simulate traces per worker | None, cap on replayed programs)
CFGS = {
    "quick": [("Preproc_flow", None, 12000), ("Preproc_guard", None, 20000), ("Preproc_once", None, 8000),
              ("Preproc_cinc", None, 8000), ("Preproc_lines", None, 8000), ("Preproc_linem", None, 6000),
              ("Preproc_sim", 120, 3000)],
    "thorough": [("Preproc_flow", None, None), ("Preproc_guard", None, None), ("Preproc_once", None, None),
                 ("Preproc_cinc", None, None), ("Preproc_lines", None, None), ("Preproc_linem", None, None),
                 ("Preproc_quick", None, 100000), ("Preproc_guard7_t", None, 100000), ("Preproc_flow_t", None, 100000),
                 ("Preproc_lines_t", None, 120000), ("Preproc_two_t", None, 100000), ("Preproc_thorough", 1500, 60000)],
}
# every interaction the composition exists for; each must occur in replayed programs (vacuity guard)
INTERACTIONS = [
    "def-in-included-decides-if", "undef-in-included-decides-if", "def-in-skipped-group-of-included",
    "include-in-kept-group", "include-in-skipped-group", "once-file-not-reentered", "reinclude-without-once",
    "guard-undefined-between-includes", "guard-skips-second-include", "computed-include",
    "computed-include-macro-redefined", "line-in-text", "line-in-macro-body", "line-in-if",
    "line-after-multiline-shape", "line-in-included-file", "line-right-after-include-returns",
    "file-in-includer", "file-in-included", "conditional-inside-file-included-from-conditional",
    "pragma-once-in-skipped-group",
]
FNAME = {"main": "c%d_main.c", "h1": "c%d_h1.h", "h2": "c%d_h2.h"}
NAMES = ("M", "N", "HN")


# --------------------------------------------------------------------------- rendering
def _pick(opts, cid, idx):
    return opts[(cid * 7 + idx) % len(opts)]


def render_line(code, cid, f, idx, k):
    """One logical line -> text occupying exactly NPhys(shape) physical lines, the value token on
    physical line Off(shape) of them (Preproc.tla: p = 1/0, c = 2/0, b = 2/1, m = 3/2)."""
    kind, x, v, sh = code.split(":")
    if kind == "text":
        tx = "TX_%d_%s_%d" % (cid, f, idx)
        body = {"p": ["%s = %s ;"],
                "c": ["%s = %s \\\n ;", "%s = %s ; /* c\n d */", "%s = %s ; \\\n", "%s = %s /* c\n*/ ;"],
                "b": ["%s = \\\n%s ;", "/* c\n d */ %s = %s ;", "\n%s = %s ;", "%s \\\n = %s ;", "%s /* c\n d */ = %s ;"],
                "m": ["/* a\n b\n c */ %s = %s ;", "%s \\\n = \\\n %s ;", "\n\n%s = %s ;", "%s = /* a\n*/ \\\n%s ;"]}[sh]
        return _pick(body, cid, idx) % (tx, v)
    if kind in ("def", "defhn"):
        val = '"%s"' % (FNAME[v] % cid) if kind == "defhn" else v
        if sh == "c":
            return _pick(["#define %s \\\n  %s", "#define %s %s /* c\n d */", "#define %s %s \\\n"], cid, idx) % (x, val)
        return "#define %s %s" % (x, val)
    if kind in ("undef", "undefhn"):
        return "#undef %s" % x
    if kind in ("ifdef", "ifndef", "elifdef", "elifndef"):
        return "#%s %s" % (kind, x)
    if kind in ("if", "elif"):
        cond = {"D": "defined(%s)" % x, "V": x, "E": "%s == 1" % x, "L": "__LINE__ > %d" % k}[v]
        if sh == "c":
            return _pick(["#%s %s \\\n", "#%s %s /* c\n d */", "# %s %s && \\\n 1"], cid, idx) % (kind, cond)
        return "#%s %s" % (kind, cond)
    if kind in ("else", "endif"):
        return "#" + kind
    if kind == "inc":
        inc = '#include "%s"' % (FNAME[x] % cid)
        if sh == "c":
            return _pick(["%s /* c\n d */", "%s \\\n"], cid, idx) % inc
        return inc
    if kind == "incm":
        return "#include HN"
    if kind == "once":
        return "#pragma once"
    if kind == "blank":
        if sh == "c":
            return _pick(["/* a\n b */", "\n", "// a\n/* b */"], cid, idx)
        return _pick(["", "// c", "/* c */"], cid, idx)
    raise MachineryError("unknown line code %r" % code)


def render_case(cid, rec, d):
    """Write the files of one case into directory d; return {file: text}."""
    texts = {}
    for f in ("main", "h1", "h2"):
        if f != "main" and f not in rec["ex"]:
            continue
        lines = [render_line(c, cid, f, i, rec["k"]) for i, c in enumerate(rec[f], 1)]
        # (gcc identifies once-only files by content: the trailing comment makes every file unique
        #  without moving any line)
        texts[f] = "\n".join(lines) + ("\n" if lines else "") + "// case %d %s\n" % (cid, f)
        with open(os.path.join(d, FNAME[f] % cid), "w") as o:
            o.write(texts[f])
    return texts


def batch_text(cids):
    out = []
    for c in cids:
        out += ["#undef M", "#undef N", "#undef HN", "CB_%d ;" % c, '#include "%s"' % (FNAME["main"] % c)]
        for n in NAMES:
            out += ["#ifdef %s" % n, "FD_%d_%s ;" % (c, n), "#endif"]
        out.append("CE_%d ;" % c)
    return "\n".join(out) + "\n"


# --------------------------------------------------------------------------- projection
TOK = re.compile(r'CB_(\d+)\s*;|CE_(\d+)\s*;|FD_(\d+)_(\w+?)\s*;|TX_(\d+)_(main|h1|h2)_(\d+)\s*=\s*(.*?)\s*;', re.S)
FSTR = re.compile(r'^"c(\d+)_(main|h1|h2)\.[ch]"$')


def observe(stdout):
    """Preprocessor output -> {case: [facts, sorted final names, closed?]}; a fact is [file, line, value],
    a __FILE__ value is projected back to the file id."""
    res, cur = {}, None
    for m in TOK.finditer(stdout):
        if m.group(1):
            cur = int(m.group(1)); res[cur] = [[], [], False]
        elif cur is None:
            continue
        elif m.group(2):
            if int(m.group(2)) == cur:
                res[cur][2] = True
            cur = None
        elif m.group(3):
            if int(m.group(3)) == cur:
                res[cur][1].append(m.group(4))
        else:
            v = " ".join(m.group(8).split())
            fm = FSTR.match(v)
            if fm:
                v = fm.group(2) if int(fm.group(1)) == cur else v
            # facts of another case showing up here are kept as they are: they can never equal the expectation
            res[cur][0].append([m.group(6) if int(m.group(5)) == cur else "case%s:%s" % (m.group(5), m.group(6)),
                                int(m.group(7)), v])
    for c in res:
        res[c][1].sort()
    return res


def expected(rec):
    return [[[f, i, v] for f, i, v in rec["o"]], sorted(n for n in NAMES if rec["d"][n] != "-"), True]


def about(rec, exp, got):
    """Which property the mismatch speaks about (input + expectation only; informative)."""
    kinds = {c.split(":")[0] for f in ("main", "h1", "h2") for c in rec[f]}
    if not kinds & {"inc", "incm"}:
        return "C08 (macro text only)" if not kinds & {"if", "ifdef", "ifndef"} else "C09"
    if kinds & {"once"} and not kinds & {"if", "ifdef", "ifndef"}:
        return "C17 (once-only inclusion)"
    return "C09/C08/C17 interaction"


def finding_classes(rec):
    """Known-finding classes of a case: predicates over the INPUT only."""
    codes = [c.split(":") for f in ("main", "h1", "h2") for c in rec[f]]
    line_macro = {c[1] for c in codes if c[0] == "def" and c[2] == "__LINE__"}
    # aliases: a name defined as another name may reach __LINE__ through it (upper bound)
    if line_macro:
        line_macro |= {c[1] for c in codes if c[0] == "def" and c[2] in ("M", "N")}
    for c in codes:
        if c[0] in ("if", "elif") and c[3] == "c" and (c[2] == "L" or (c[2] in ("V", "E") and c[1] in line_macro)):
            # a controlling expression that mentions __LINE__ (directly or through a macro) on a directive
            # that continues on further physical lines
            return ["C09-line-in-multiline-if"]
    return []


# --------------------------------------------------------------------------- the part
def key_of(rec):
    return json.dumps([rec["main"], rec["h1"], rec["h2"], sorted(rec["ex"]), rec["k"]])


def collect(ctx, work):
    """Run TLC on every configuration of the tier (three at a time, two workers each); returns programs."""
    specs = CFGS[ctx.tier]

    def one(item):
        cfg, sim, cap = item
        dump = os.path.join(work, cfg + ".ndjson")
        res = tlc.run("PreprocMC", cfg, env={"VERIF_DUMP": dump}, workers=2, simulate=sim, depth=100 if sim else None,
                      coverage=(cfg == "Preproc_once"), timeout=600 if ctx.tier == "quick" else 3000, xmx="4g")
        return cfg, sim, cap, dump, res
    progs, seen, per_cfg = [], {}, {}
    for cfg, sim, cap, dump, res in run.pmap(one, specs, workers=3):
        ctx.add_tlc(res)
        if res.verdict == "invariant":
            raise MachineryError("Preproc: %s violated in the model (%s)\n%s" % (res.violated, cfg, res.out[-2500:]))
        tlc.must_ok(res, cfg)
        # large dumps are cut while streaming: a fixed stratified cut by a checksum of the program text
        # (independent of VERIF_SEED and of TLC's dump order)
        n_lines = sum(1 for _ in open(dump)) if os.path.exists(dump) else 0
        step = -(-n_lines // cap) if cap and n_lines > cap else 1
        recs, n_all = [], 0
        for r in tlc.iter_dump(dump):
            k = key_of(r)
            hk, ho = hash(k), hash(json.dumps([r["o"], r["d"]]))
            if hk in seen:
                # "out is determined by the program": the same files must carry the same result
                if seen[hk] != ho:
                    raise MachineryError("Preproc: one program, two results: %s" % k)
                continue
            seen[hk] = ho
            n_all += 1
            if step > 1 and zlib.crc32(k.encode()) % step:
                continue
            r["_cfg"] = cfg
            recs.append(r)
        res.out = ""
        if step > 1:
            ctx.notes.setdefault("preproc_sampled", []).append("%s: 1 in %d of %d programs (by checksum)" % (cfg, step, n_all))
        per_cfg[cfg] = dict(dumped=n_all, replayed=len(recs), states=res.generated, wall_s=round(res.wall, 1))
        progs += recs
        try:
            os.unlink(dump)
        except OSError:
            pass
    ctx.notes["preproc_cfgs"] = per_cfg
    return progs


def run_part(ctx, work):
    """Composed-preprocessor part.  Adds to ctx.cov / ctx.notes, calls ctx.violation on mismatches.
    Returns the number of (case, tool) evaluations."""
    import time
    t0 = time.time()
    laps = ctx.notes.setdefault("preproc_wall_s", {})

    def lap(what):
        laps[what] = round(time.time() - t0, 1)
    work = os.path.join(work, "preproc")
    os.makedirs(work, exist_ok=True)
    progs = collect(ctx, work)
    lap("tlc")
    if not progs:
        raise MachineryError("Preproc: no complete behaviour dumped")
    hits = collections.Counter()
    for r in progs:
        hits.update(r["hits"])
    missing = [h for h in INTERACTIONS if not hits[h]]
    if missing:
        raise MachineryError("Preproc: vacuous run, interactions never exercised by a replayed program: %s" % missing)
    ctx.notes["preproc_interactions"] = {h: hits[h] for h in sorted(hits)}

    # ---- render -------------------------------------------------------------------------
    index = {}
    for cid, r in enumerate(progs, 1):
        index[cid] = r
    cids = sorted(index)
    batches = [cids[i:i + BATCH] for i in range(0, len(cids), BATCH)]

    def render(ib):
        bi, b = ib
        for c in b:
            index[c]["_text"] = render_case(c, index[c], work)
        fn = "pb%04d.c" % bi
        with open(os.path.join(work, fn), "w") as o:
            o.write(batch_text(b))
        return fn
    files = run.pmap(render, list(enumerate(batches)), workers=W)

    def tools(fn, trace=True):
        tr = os.path.join(work, fn + ".trace") if trace else None
        r = run.run_tool("parse_file", ["-E", fn], cwd=work, trace=tr, timeout=300)
        g = subprocess.run(["gcc", "-E", "-P", "-w", "-std=gnu2x", fn], cwd=work, stdout=subprocess.PIPE,
                           stderr=subprocess.PIPE, text=True)
        return fn, r, g, tr

    lap("render")
    n_eval, nontrivial, bad = 0, set(), 0
    results = run.pmap(tools, files, workers=W)
    lap("tools")
    for (fn, r, g, tr), b in zip(results, batches):
        if g.returncode != 0:
            raise MachineryError("Preproc: gcc -E failed on %s: %s" % (fn, g.stderr[-800:]))
        obs_g = observe(g.stdout)
        crashed = r.rc != 0 or r.timed_out
        obs_i = {} if crashed else observe(r.stdout)
        if crashed:
            ctx.violation("parse_file -E exited with %s (signal %s, timeout %s) on a batch of composed programs"
                          % (r.rc, r.signal, r.timed_out), dict(file=fn, stderr=r.stderr[-2000:], about="C15/C09"))
        for c in b:
            rec = index[c]
            exp = expected(rec)
            if obs_g.get(c) != exp:
                path = ctx.save_replay("preproc-spec-vs-gcc", dict(files=rec["_text"], spec=exp, gcc=obs_g.get(c), cfg=rec["_cfg"]))
                raise MachineryError("Preproc: spec != gcc -E on a program of %s (%s): spec %r gcc %r" % (
                    rec["_cfg"], path, exp, obs_g.get(c)))
            n_eval += 1
            if rec["hits"]:
                nontrivial.add(c)
            if crashed:
                continue
            got = obs_i.get(c)
            if got != exp:
                bad += 1
                ctx.violation("composed program (%s; %s): expected facts %s final macros %s, parse_file -E gave %s" % (
                    rec["_cfg"], ", ".join(sorted(rec["hits"])) or "no interaction", exp[0], exp[1], got),
                    dict(files=rec["_text"], expected=exp, observed=got, interactions=sorted(rec["hits"]),
                         about=about(rec, exp, got), stat_key="preproc:" + about(rec, exp, got)),
                    classes=finding_classes(rec))

    # ---- a sample again with the case's main file as the top-level file --------------------
    n_solo = 150 if ctx.tier == "quick" else 1500
    solo = cids[:: max(1, len(cids) // n_solo)][:n_solo]

    def solo_run(c):
        fn = FNAME["main"] % c
        r = run.run_tool("parse_file", ["-E", fn], cwd=work, timeout=60)
        g = subprocess.run(["gcc", "-E", "-P", "-w", "-std=gnu2x", fn], cwd=work, stdout=subprocess.PIPE,
                           stderr=subprocess.PIPE, text=True)
        return c, r, g
    for c, r, g in run.pmap(solo_run, solo, workers=W):
        rec = index[c]
        exp = expected(rec)[0]
        og = observe("CB_%d ;\n%s\nCE_%d ;" % (c, g.stdout, c)).get(c, [None])[0]
        if g.returncode != 0 or og != exp:
            raise MachineryError("Preproc: spec != gcc -E on top-level case %s: spec %r gcc %r %s" % (
                rec["_text"], exp, og, g.stderr[-300:]))
        n_eval += 1
        oi = None if (r.rc != 0 or r.timed_out) else observe("CB_%d ;\n%s\nCE_%d ;" % (c, r.stdout, c)).get(c, [None])[0]
        if oi != exp:
            ctx.violation("composed program as the top-level file (%s): expected facts %s, parse_file -E gave %s (rc %s)" % (
                rec["_cfg"], exp, oi, r.rc),
                dict(files=rec["_text"], expected=exp, observed=oi, interactions=sorted(rec["hits"]),
                     about=about(rec, exp, oi), toplevel=True, stat_key="preproc-solo"),
                classes=finding_classes(rec))

    lap("compare+toplevel")
    ctx.cov["evaluations"] += n_eval
    ctx.cov["distinct_nontrivial"] += len(nontrivial)
    ctx.cov["traces_validated_against_impl"] += n_eval
    ctx.notes["preproc_programs_replayed"] = len(progs)
    ctx.notes["preproc_toplevel_runs"] = len(solo)
    ctx.notes["preproc_rule"] = ("Preproc: a case = one complete program (main + headers) of a configuration; every case "
                                 "is checked spec = gcc -E and replayed through parse_file -E; non-trivial = the program "
                                 "exercises at least one interaction of preproc_interactions; distinct = distinct files")
    for rec in progs[:: max(1, len(progs) // 3)][:3]:
        ctx.sample(dict(preproc=rec["_cfg"], main=rec["main"], h1=rec["h1"], h2=rec["h2"], out=rec["o"],
                        interactions=rec["hits"]))

    # ---- the hook traces of the batch runs through the EXISTING trace specifications ------
    traces = [tr for fn, r, g, tr in results if tr and os.path.exists(tr)]
    n_tr = 6 if ctx.tier == "quick" else 120       # (300 cases, about 5 000 events, per trace)
    traces = traces[:: max(1, len(traces) // n_tr)][:n_tr]
    ctx.notes["preproc_trace_events"] = validate_dir(ctx, work, traces)
    lap("trace validation")
    return n_eval


def validate_dir(ctx, work, traces):
    """H-dir events of the composed runs, consumed by CondInclTrace (directives of included files are
    handled by the same machine: a balanced file leaves it in the mode it entered)."""
    if not traces:
        return 0
    groups = [g for g in (traces[i::W] for i in range(W)) if g]

    def one(ig):
        gi, g = ig
        cat = os.path.join(work, "pp-dir-%d.ndjson" % gi)
        n = 0
        with open(cat, "w") as o:
            for t in g:
                o.write('{"e":"Reset"}\n')
                for line in open(t, errors="replace"):
                    if line.startswith('{"e":"Died"'):
                        continue
                    o.write(line); n += 1
        status, r = tlc.validate_trace("CondInclTrace", cat)
        return status, r, cat, n
    total = 0
    for status, r, cat, n in run.pmap(one, list(enumerate(groups)), workers=W):
        ctx.cov["states"] += r.generated
        ctx.cov["transitions"] += r.generated
        total += n
        if status != "accepted":
            status2, r2 = tlc.validate_trace("CondInclTrace", cat)       # a rejection is reported only if it repeats
            if status2 == "accepted":
                continue
            lines = open(cat).read().split("\n")
            at = r2.stuck_at or 1
            os.makedirs(ctx.replay_dir, exist_ok=True)
            keep = os.path.join(ctx.replay_dir, os.path.basename(cat))
            with open(keep, "w") as o:
                o.write("\n".join(lines))
            ctx.violation("composed-run trace %s by CondInclTrace (%s) at event %d: %s" % (
                status2, r2.violated or "no action of the mechanism matches", at, " ".join(lines[max(0, at - 2):at + 2])),
                dict(trace=keep, tlc_tail=r2.out[-2500:], about="C09", stat_key="preproc-trace"))
    return total
