"""C20 — the query interface is total and name lookups are exact.

spec IdbQuery: QF = one line per function of interrogate_interface.h (table, field / flag bit / vector), Query =
the total operator every by-index function must compute (neutral answer outside the domain), Lookup = the
lazily refreshed name maps; get_wrapper_by_unique_name (substr(0,4) hash + binary_search_wrapper_hash) and
get_fptr (find_module + binary_search_module) as STEP MACHINES.  TLC: termination (<>Returned under WF and a
step bound), exactness against plain membership for every sorted table of size 0..N and every key position /
every layout of module ranges and every wrapper index, totality + neutral values + counts + lookup soundness
of the by-index interface on every database scenario.
Bind: every enumerated call is executed against libinterrogatedb through harness/idb_driver.py (ctypes; the
header is parsed at run time, so a function the spec does not model stops the check): module defs with the
unique-name tables / fptr tables are registered, the spec's databases (rendered by the spec's writer) and
real `interrogate -od` databases are loaded, EVERY function is called with every index in [-2, next+2] +
INT_MIN/INT_MAX and every position in [-1, count+1] + extremes, by-name lookups with every stored, mutated
and absent name; each call is isolated (a crash or hang costs that call only).  HISTORIES (task "stage"): a lookup
is answered, a further database is requested and merged, then every stored name is looked up -- all 6 x 6 pairs
of (lookup function answered first, lookup function used later), with the name maps' fresh bits as spec state.
FIRST-QUERY histories (task "first"): every function of the interface is the first query after a request (it must
force the load and see the requested files), a second database is requested and the function is first again; each
count function is followed by its accessor at every position.  Lookup names include systematic mutations of
every stored name (leading / trailing '::' and blank, case, prefixes, suffixes, dropped / doubled characters, the
other name fields of the same record); none may be answered with an entity that does not bear that name."""
import os, json, time, threading
from ..common import MachineryError, NCPU
from .. import build, tlc
from . import _idbq as Q

CFG = {"quick": "IdbQuery_quick", "thorough": "IdbQuery_thorough"}
UNIQ = "interrogate_get_wrapper_by_unique_name"
HASH = {0: "ZZZZ", 1: "Hs01", 2: "hS02"}          # 0: a hash no module registered

# order-preserving renderings of the abstract keys 0..MaxKey+1 (std::string order = unsigned byte order);
# key 0 is the empty wrapper name (a unique name of exactly four characters)
RENDER = [
    ["", "A", "AA", "AB", "B", "Ba", "a", "zz", "zzz", "zzzz"],
    ["", "\x01", "0", "9", "A", "a", "\x7f", "\xc3\xa9", "\xff", "\xff\xff"],
    ["", "aaaaaaa", "aaaaaaaa", "aaaaaaab", "aaaaaab", "aab", "b", "ba", "bb", "c"],
]


for _r in RENDER:
    if [x.encode("latin-1") for x in _r] != sorted(x.encode("latin-1") for x in _r) or len(set(_r)) != len(_r):
        raise MachineryError("c20: a rendering of the keys is not strictly increasing")


def uniq_name(q, ren):
    if q["kind"] == "short":
        return [HASH[1][:q["len"]], "zz\xff"[:q["len"]]]
    return [HASH[q["hash"]] + ren[q["key"]]]


def uniq_classes(q, mods):
    """finding classes as predicates over the INPUT"""
    if q["kind"] == "short":
        return ["C20-unique-name-shorter-than-4"]
    tabs = [m for m in mods if m["hash"] == q["hash"] and m["table"]]
    if tabs:
        keys = [e["key"] for e in tabs[-1]["table"]]
        if q["key"] not in keys and any(k < q["key"] for k in keys):
            return ["C20-absent-unique-name-above-present"]
    return []


def run_check(ctx):
    build.ensure("hooked")
    funcs = Q.interface_functions()
    tier = ctx.tier
    t0 = time.time()
    phases = ctx.notes.setdefault("phase_s", {})
    real = Q.make_real(ctx)
    if tier == "quick":
        real = [x for x in real if len(x["bytes"]) <= 5000]
    inp = os.path.join(ctx.tmp, "scen.json")
    json.dump([{"name": "real-" + x["name"], "gen": False, "files": [list(x["bytes"])]} for x in real], open(inp, "w"))
    dump = os.path.join(ctx.tmp, "dump.ndjson")
    ddump = os.path.join(ctx.tmp, "dump-db.ndjson")
    box = {}

    def t_search():
        box["s"] = tlc.run("IdbQueryMC", CFG[tier], env={"VERIF_DUMP": dump}, workers=max(2, NCPU - 2), timeout=1500)

    def t_db():     # one worker: its records are too long for concurrent appends to stay whole
        box["d"] = tlc.run("IdbQueryMC", "IdbQuery_db", env={"VERIF_DUMP": ddump, "VERIF_INPUT": inp}, workers=1, timeout=1500)
    ths = [threading.Thread(target=t_search), threading.Thread(target=t_db)]
    for t in ths:
        t.start()
    for t in ths:
        t.join()
    for res in (box["s"], box["d"]):
        ctx.add_tlc(res)
        if res.verdict in ("invariant", "temporal"):
            raise MachineryError("IdbQuery/%s: %s %s violated in the model\n%s" % (res.cfg, res.verdict, res.violated, res.out[-2500:]))
        tlc.must_ok(res)
    phases["tlc"] = round(time.time() - t0, 1)
    try:
        recs = tlc.read_dump(dump) + tlc.read_dump(ddump)
    except ValueError as e:
        raise MachineryError("TLC dump unreadable: %s" % e)
    # a finished call is dumped when it is reached and again by its stuttering step: keep one copy
    seen, uniq_recs = set(), []
    for x in recs:
        k = json.dumps(x, sort_keys=True)
        if k not in seen:
            seen.add(k)
            uniq_recs.append(x)
    recs = uniq_recs
    trec = [x for x in recs if "qf" in x]
    if len(trec) != 1:
        raise MachineryError("no interface table dumped")
    table = Q.Table(trec[0])
    table.check_header(funcs)
    uniq = [x for x in recs if x.get("task") == "uniq"]
    fptr = [x for x in recs if x.get("task") == "fptr"]
    dbs = [x for x in recs if x.get("task") == "db"]
    stages = [x for x in recs if x.get("task") == "stage"]
    if len(stages) < 72:
        raise MachineryError("IdbQuery dump incomplete: %d staged lookup histories" % len(stages))
    if not uniq or not fptr or len(dbs) < 3 + len(real):
        raise MachineryError("IdbQuery dump incomplete: %d uniq, %d fptr, %d db" % (len(uniq), len(fptr), len(dbs)))
    ctx.cov["exhaustive"] = True
    ctx.cov["rule"] = ("TLC enumerates every sorted unique-name table of size 0..MaxN over MaxKey+1 names x two offset "
                       "permutations x two registration layouts x every key (present, each gap, before first, after last, "
                       "empty, shorter than 4, unregistered hash); every layout of <= MaxMods module ranges x every wrapper "
                       "index; every function x index x position on the database scenarios. Each call is executed against "
                       "the library. distinct = distinct (registered tables / loaded files, function, arguments); non-trivial "
                       "= the argument lies outside the valid domain, or the spec demands a non-neutral answer")
    ctx.assumptions += [
        "the neutral answer of interrogate_type_array_size is 1 (what a default-constructed record, like every non-array "
        "type, answers); every other function answers 0 / false / \"\" outside its domain",
        "a NULL const char* answer (library / module name of a record without module def) counts as the empty string",
        "by-name functions are called with valid C strings only (no NULL pointer)",
        "a lookup by a name that several records bear may answer any of them (the spec's mechanism answers the highest index)",
        "index ranges of registered module defs ascend in request order (what request_module produces)",
        "trusted: TLC, the regular-expression parse of interrogate_interface.h in harness/idb_driver.py (cross-checked against "
        "IdbQuery.QF: a function missing on either side stops the check), ctypes",
    ]
    base_bytes = None
    for d in dbs:
        if d["name"] == "rich":
            base_bytes = bytes(d["files"][0])
    if base_bytes is None:
        raise MachineryError("no 'rich' scenario in the dump")
    base_path = os.path.join(ctx.tmp, "base.in")
    open(base_path, "wb").write(base_bytes)

    cases, expect = [], {}       # expect[cid] = list of (description, classes, checker(result) -> None | message)
    nontrivial = set()
    build_uniq(uniq, cases, expect, nontrivial)
    build_fptr(fptr, cases, expect, nontrivial, base_path)
    build_db(ctx, table, dbs, real, cases, expect, nontrivial)
    build_stage(stages, cases, expect, nontrivial)
    firsts = [x for x in recs if x.get("task") == "first"]
    if len(firsts) != 2 * len(table.qf):
        raise MachineryError("IdbQuery dump incomplete: %d first-query histories for %d functions" % (len(firsts), len(table.qf)))
    build_first(firsts, cases, expect, nontrivial)
    ctx.notes["first_query_histories"] = len(firsts)
    phases["render"] = round(time.time() - t0, 1)
    for r in (uniq[len(uniq) // 2], uniq[-1]):
        ctx.sample(dict(call=UNIQ, table=[[HASH[m["hash"]] + RENDER[0][e["key"]], m["first"] + e["off"]]
                                          for m in r["inp"]["mods"] for e in m["table"]],
                        names=uniq_name(r["inp"]["q"], RENDER[0]), answer=r["res"], search_steps=r["steps"]))
    r = fptr[len(fptr) // 2]
    ctx.sample(dict(call="interrogate_wrapper_pointer", modules=[[m["first"], m["next"], m["nf"]] for m in r["inp"]["mods"]],
                    wrapper=r["inp"]["w"], answer=r["res"], search_steps=r["steps"]))
    results = Q.run_driver(ctx, cases, timeout=5, tag="q")
    phases["replay"] = round(time.time() - t0, 1)

    # a sweep that died is repeated call by call, so that the one bad argument is isolated
    retry, rexp = [], {}
    n_calls = 0
    for case in cases:
        cid = str(case["id"])
        out = results[cid]["r"]
        exp = expect[cid]
        if len(out) != len(exp):
            raise MachineryError("driver answered %d of %d queries of case %s" % (len(out), len(exp), cid))
        for qi, (q, o, e) in enumerate(zip(case["queries"], out, exp)):
            if q[0] == "sweep" and Q.died(o) and isinstance(e[2], tuple):
                rid = "retry-%s-%d" % (cid, qi)
                qs, es = explode(q, e)
                retry.append({"id": rid, "setup": case["setup"], "queries": qs})
                rexp[rid] = es
            else:
                n_calls += report(ctx, case, q, o, e, results[cid]["stderr"])
    if retry:
        rres = Q.run_driver(ctx, retry, timeout=5, tag="retry")
        for case in retry:
            out = rres[str(case["id"])]["r"]
            for q, o, e in zip(case["queries"], out, rexp[case["id"]]):
                n_calls += report(ctx, case, q, o, e, rres[str(case["id"])]["stderr"])
    phases["judge"] = round(time.time() - t0, 1)
    ctx.cov["evaluations"] += n_calls
    ctx.cov["traces_validated_against_impl"] += n_calls
    ctx.cov["distinct_nontrivial"] = len(nontrivial)
    ctx.notes["processes"] = len(cases) + len(retry)
    ctx.notes["unique_name_calls"] = sum(len(expect[str(c["id"])]) for c in cases if str(c["id"]).startswith("u"))
    ctx.notes["fptr_calls"] = sum(len(expect[str(c["id"])]) for c in cases if str(c["id"]).startswith("p"))
    ctx.notes["database_scenarios"] = [d["name"] for d in dbs if not d["name"].startswith("lookup")] + \
        ["lookup-* x %d" % sum(1 for d in dbs if d["name"].startswith("lookup"))]
    ctx.notes["interface_functions"] = len(funcs)
    ctx.notes["staged_lookup_histories"] = len(stages)


# -------------------------------------------------------------------------------------------------
def eq(want, what):
    def chk(got):
        if got is None:
            got = ""
        return None if (got == want and isinstance(got, bool) == isinstance(want, bool)) else \
            "%s = %r, the spec demands %r" % (what, got, want)
    return chk


def one_of(ok, what):
    def chk(got):
        return None if got in ok else "%s = %r, the spec allows %s" % (what, got, sorted(ok))
    return chk


def build_uniq(uniq, cases, expect, nontrivial):
    groups = {}
    for r in uniq:
        groups.setdefault(json.dumps(r["inp"]["mods"], sort_keys=True), []).append(r)
    n = 0
    for key, rs in groups.items():
        mods = rs[0]["inp"]["mods"]
        for ri, ren in enumerate(RENDER):
            setup = []
            for m in mods:
                setup.append(["mod", {"lib": "L%d" % m["hash"], "hash": HASH[m["hash"]], "mod": "M",
                                      "names": [[ren[e["key"]], e["off"]] for e in m["table"]],
                                      "first": 1, "next": 1 + m["num"]}])
            queries, exp = [], []
            for r in rs:
                q = r["inp"]["q"]
                for name in uniq_name(q, ren):
                    queries.append(["n", UNIQ, name])
                    what = "%s(%r) with table %s" % (UNIQ, name, [[HASH[m["hash"]] + ren[e["key"]], m["first"] + e["off"]]
                                                                     for m in mods for e in m["table"]])
                    exp.append((what, uniq_classes(q, mods), eq(r["res"], "answer")))
                    nontrivial.add(("u", key, ri, name))
            cid = "u%d" % n
            n += 1
            cases.append({"id": cid, "setup": setup, "queries": queries})
            expect[cid] = exp


def build_fptr(fptr, cases, expect, nontrivial, base_path):
    groups = {}
    for r in fptr:
        groups.setdefault(json.dumps(r["inp"]["shapes"], sort_keys=True), []).append(r)
    n = 0
    for key, rs in groups.items():
        mods, shapes = rs[0]["inp"]["mods"], rs[0]["inp"]["shapes"]
        setup = []
        for m, sh in zip(mods, shapes):
            if sh["gap"]:
                setup += [["db", base_path], ["touch"]]            # loading 3 records moves _next_index by 3
            setup.append(["mod", {"fptrs": m["fp"], "first": 1, "next": 1 + sh["size"]}])
        queries, exp = [], []
        lay = [[m["first"], m["next"], m["nf"]] for m in mods]
        for r in rs:
            w, want = r["inp"]["w"], r["res"]
            queries.append(["c", "interrogate_wrapper_has_pointer", w])
            exp.append(("interrogate_wrapper_has_pointer(%d) with modules [first, next, num_fptrs] %s" % (w, lay), [],
                        eq(want != 0, "answer")))
            queries.append(["c", "interrogate_wrapper_pointer", w])
            exp.append(("interrogate_wrapper_pointer(%d) with modules [first, next, num_fptrs] %s" % (w, lay), [],
                        eq(want, "answer")))
            nontrivial.add(("p", key, w))
        cid = "p%d" % n
        n += 1
        cases.append({"id": cid, "setup": setup, "queries": queries})
        expect[cid] = exp


def build_db(ctx, table, dbs, real, cases, expect, nontrivial):
    rpath = {"real-" + x["name"]: x["path"] for x in real}
    for n, d in enumerate(dbs):
        name = d["name"]
        cid = "d%d" % n
        if name in rpath:
            paths = [rpath[name]]
        else:
            paths = []
            for k, fb in enumerate(d["files"]):
                p = os.path.join(ctx.tmp, "%s-%d.in" % (cid, k))
                open(p, "wb").write(bytes(fb))
                paths.append(p)
        setup = [["db", p] for p in paths] + [["touch"]]
        idx = d["idx"]
        inside = set(range(1, d["next"]))
        queries, exp = [], []
        sweep_all = not name.startswith("lookup")
        tag = "%s (%d records)" % (name, d["nrec"])
        for ent, val in zip(table.qf, d["res"]):
            fn, op = ent["fn"], ent["op"]
            if op in ("gcount", "errflag"):
                queries.append(["c", fn])
                exp.append(("%s() on %s" % (fn, tag), [], eq(Q._val(val, ent["r"]), "answer")))
                nontrivial.add((cid, fn))
            elif op == "gat" or (sweep_all and op not in ("lookup", "uniq", "at", "atfield", "atflag")):
                want = [Q._val(v, ent["r"]) for v in val]
                queries.append(["sweep", fn, idx])
                exp.append(("%s(i) on %s" % (fn, tag), [], ("sweep", idx, want, ent)))
                for i, v in zip(idx, want):
                    if i not in inside or v != Q.neutral(ent["r"]):
                        nontrivial.add((cid, fn, i))
            elif sweep_all and op in ("at", "atfield", "atflag"):
                args = [[i, c["pos"]] for i, c in zip(idx, val)]
                want = [[Q._val(v, ent["r"]) for v in c["v"]] for c in val]
                queries.append(["sweep", fn, args])
                exp.append(("%s(i, n) on %s" % (fn, tag), [], ("sweep2", args, want, ent)))
                for (i, ns), vs in zip(args, want):
                    for nn, v in zip(ns, vs):
                        if i not in inside or v != Q.neutral(ent["r"]) or not (0 <= nn):
                            nontrivial.add((cid, fn, i, nn))
            elif op in ("lookup", "uniq"):
                for c in val:
                    nm = Q.b2s(c["name"])
                    queries.append(["n", fn, nm])
                    cl = ["C20-unique-name-shorter-than-4"] if op == "uniq" and len(nm) < 4 else []
                    exp.append(("%s(%r) on %s" % (fn, nm, tag), cl, one_of(set(c["ok"]), "answer")))
                    nontrivial.add((cid, fn, nm))
        cases.append({"id": cid, "setup": setup, "queries": queries})
        expect[cid] = exp
        if len(ctx.cov["samples"]) < 3 and name in ("rich",) + tuple(rpath):
            ctx.sample(dict(scenario=name, records=d["nrec"], next_index=d["next"], index_arguments=idx[:6] + ["..."] + idx[-3:],
                            example={table.qf[j]["fn"]: d["res"][j] if not isinstance(d["res"][j], list) else d["res"][j][:8]
                                     for j in (2, 45, 117)}))


def build_stage(stages, cases, expect, nontrivial):
    """histories: files1, one lookup, a further database requested (merged by the next query), lookups of every name"""
    for n, r in enumerate(stages):
        setup = [["dbmem", Q.b2s(f)] for f in r["files1"]] + [["touch"]]
        nm1 = Q.b2s(r["nm1"])
        hist = "after %s(%r) on %d file(s) and a further database" % (r["fn1"], nm1, len(r["files1"]))
        queries = [["n", r["fn1"], nm1]]
        exp = [("%s(%r) on %d file(s)" % (r["fn1"], nm1, len(r["files1"])), [], one_of(set(r["ok1"]), "answer"))]
        for f in r["files2"]:
            queries.append(["dbmem", Q.b2s(f)])
            exp.append(("requesting a further database", [], lambda got: None))
        for c in sorted(r["lk"], key=lambda c: c["name"]):
            nm = Q.b2s(c["name"])
            queries.append(["n", r["fn2"], nm])
            exp.append(("%s(%r) %s" % (r["fn2"], nm, hist), [], one_of(set(c["ok"]), "answer")))
            nontrivial.add(("s", n, nm))
        cid = "s%d" % n
        cases.append({"id": cid, "setup": setup, "queries": queries})
        expect[cid] = exp


def build_first(firsts, cases, expect, nontrivial):
    """every function as the FIRST query after a request (it must see the requested files), then a second request
    and the same function first again; a count function is followed by its accessor at every position"""
    for n, r in enumerate(firsts):
        fn, op, rt = r["fn"], r["op"], r["r"]

        def call(arg):
            if op in ("gcount", "errflag"):
                return ["c", fn]
            if op in ("lookup", "uniq"):
                return ["n", fn, Q.b2s(arg["nm"])]
            if op in ("at", "atfield", "atflag"):
                return ["c", fn, arg["i"], arg["n"]]
            return ["c", fn, arg["i"]]
        queries, exp = [], []
        for stage, (arg, ok, cnt, files) in enumerate(((r["arg1"], r["ok1"], r["cnt1"], None),
                                                       (r["arg2"], r["ok2"], r["cnt2"], r["files2"])), 1):
            for f in files or []:
                queries.append(["dbmem", Q.b2s(f)])
                exp.append(("requesting a further database", [], lambda got: None))
            q = call(arg)
            want = [Q._val(v, rt) for v in ok]
            queries.append(q)
            exp.append(("%s%s as the first query after request %d" % (fn, tuple(q[2:]), stage), [],
                        one_of_vals(want, "answer")))
            nontrivial.add(("f", fn, stage, n % 2))
            if op == "gcount":
                pos = list(range(-1, cnt + 2))
                queries.append(["sweep", r["acc"], pos])
                exp.append(("%s(n) right after %s() = %d (first query after request %d)" % (r["acc"], fn, cnt, stage), [],
                            entries(cnt, pos)))
        cid = "f%d" % n
        cases.append({"id": cid, "setup": [["dbmem", Q.b2s(f)] for f in r["files1"]], "queries": queries})
        expect[cid] = exp


def one_of_vals(ok, what):
    def chk(got):
        if got is None:
            got = ""
        return None if any(got == w and isinstance(got, bool) == isinstance(w, bool) for w in ok) else \
            "%s = %r, the spec allows %r" % (what, got if not isinstance(got, str) or len(got) < 80 else got[:80] + "...",
                                             [w if not isinstance(w, str) or len(w) < 80 else w[:80] + "..." for w in ok])
    return chk


def entries(cnt, pos):
    """the accessor answers an entry exactly at the positions 0 .. cnt-1"""
    def chk(got):
        if Q.died(got):
            return Q.describe_death(got)
        bad = [(p, g) for p, g in zip(pos, got) if (g != 0) != (0 <= p < cnt)]
        return None if not bad else "the count is %d but the accessor answers %s" % (cnt, dict(bad))
    return chk


def explode(q, e):
    """a sweep as single calls"""
    what, cl, (kind, args, want, ent) = e
    fn = q[1]
    qs, es = [], []
    if kind == "sweep":
        for i, v in zip(args, want):
            qs.append(["c", fn, i])
            es.append(("%s(%d)%s" % (fn, i, what[what.index(" on "):]), cl, eq(v, "answer")))
    else:
        for (i, ns), vs in zip(args, want):
            for n, v in zip(ns, vs):
                qs.append(["c", fn, i, n])
                es.append(("%s(%d, %d)%s" % (fn, i, n, what[what.index(" on "):]), cl, eq(v, "answer")))
    return qs, es


def report(ctx, case, q, o, e, stderr):
    """judge one answer; returns the number of library calls it stands for"""
    what, classes, chk = e
    payload = dict(setup=case["setup"], query=q, stderr=stderr)
    if Q.died(o):
        ctx.violation("%s: %s" % (what, Q.describe_death(o)), dict(payload, observed=o), classes=classes)
        return 1
    if q[0] == "sweep" and callable(chk):
        msg = chk(o)
        if msg:
            ctx.violation("%s: %s" % (what, msg), dict(payload, observed=o), classes=classes)
        return len(q[2])
    if isinstance(chk, tuple):
        kind, args, want, ent = chk
        if o == want:
            return sum(len(a[1]) for a in args) if kind == "sweep2" else len(args)
        n = 0
        if kind == "sweep":
            for i, w, g in zip(args, want, o):
                n += 1
                if not Q.same(w, g):
                    ctx.violation("%s with i = %d: answer %r, the spec demands %r" % (what, i, g, w),
                                  dict(payload, index=i, expected=w, observed=g), classes=classes)
        else:
            for (i, ns), ws, gs in zip(args, want, o):
                for nn, w, g in zip(ns, ws, gs):
                    n += 1
                    if not Q.same(w, g):
                        ctx.violation("%s with i = %d, n = %d: answer %r, the spec demands %r" % (what, i, nn, g, w),
                                      dict(payload, index=i, position=nn, expected=w, observed=g), classes=classes)
        return n
    msg = chk(o)
    if msg:
        ctx.violation("%s: %s" % (what, msg), dict(payload, observed=o), classes=classes)
    return 1
