"""C10 — implicit special members and class traits follow the C++ rules.

spec Traits (C++ rules as recursive operators over class sequences built step by step; TLC
enumerates every hierarchy within the alphabet and checks rule sanity) -> each program is
rendered to C++; g++ SFINAE probes validate the spec's verdicts (spec != g++ => exit 2);
interrogate's judgement is read (1) from `parse_file -p` (type block + __is_polymorphic) and
(2) from the constructor / destructor lists of the -od database, and compared with the spec."""
import json, os, re, subprocess
from ..common import MachineryError, NCPU
from .. import build, tlc, run, idb

ACC = {"pub": "public", "prot": "protected", "priv": "private"}
BASEKW = {"base_pub": "public", "base_prot": "protected", "base_priv": "private", "base_vpub": "public virtual"}
SUFFIX = {"user": ";", "default": " = default;", "delete": " = delete;", "pure": " = 0;"}
BATCH = 250


def render_class(name, c, names):
    hsh = sum(ord(ch) for ch in name)
    # spellings of a public virtual base of a struct: the same to C++ (a struct's bases are public by default)
    vspell = ["public virtual", "virtual public", "virtual"][hsh % 3]
    # the type of a member sub-object may be written through a typedef (declared before the class)
    via_typedef = hsh % 5 == 2
    pre = []
    bases = [(vspell if r == "base_vpub" else BASEKW[r]) + " " + names[j] for j, r in enumerate(c["rel"]) if r in BASEKW]
    L = ["struct %s%s {" % (name, (" : " + ", ".join(bases)) if bases else "")]
    if via_typedef:
        for j, r in enumerate(c["rel"]):
            if r in ("member", "arrmember"):
                pre.append("typedef %s %s_t%d;" % (names[j], name, j))
    # members that have no effect on any trait: const / reference members WITH a default member initializer
    neutral = [[], ["  const int zi{4};"], ["  const int zj = 4;", "  int &zr = zg;"], ["  static const int zs = 3;"], []][hsh % 5]

    def sm(state, acc, decl):
        if state != "none":
            L.append("%s:" % ACC[acc])
            L.append("  " + decl + SUFFIX[state])
    # spellings of a user-provided default / copy constructor (same meaning to C++): plain, explicit,
    # all parameters defaulted, extra defaulted parameter after the const reference
    v = sum(ord(ch) for ch in name) % 4
    dform = "%s()" % name
    if c["dc"] == "user":
        dform = ["%s()", "explicit %s()", "%s(int x = 0)", "%s(int x = 0, ...)"][v] % name
    cform = "%s(const %s &)" % (name, name)
    if c["cc"] == "user":
        cform = ["%s(const %s &)", "%s(const %s &, int x = 0)", "%s(const %s &other)", "explicit %s(const %s &)"][v] % (name, name)
    sm(c["dc"], c["dcacc"], dform)
    sm(c["cc"], c["ccacc"], cform)
    if c.get("oc"):
        # a constructor that needs at least one argument (spelled in ways that look like a default constructor)
        L.append("public:")
        # ... or like a copy / move constructor (a further parameter without default: neither of them)
        forms = ["%s(int a, int b = 0);", "explicit %s(int a);", "%s(const char *s, ...);", "%s(int a, int b = 0, int c = 0);",
                 "%s(const {n} &o, int a, int b);", "%s({n} &&o, int a, int b = 0);", "template<class T> %s(const T &o, int a);"]
        h = sum(ord(ch) for ch in name) % 7
        L.append("  " + (forms[h if h >= 4 else v].replace("{n}", name)) % name)
    if c["mc"] != "none":
        L.append("public:")
        L.append("  %s(%s &&)%s" % (name, name, SUFFIX[c["mc"]]))
    if c["dt"] != "none":
        L.append("%s:" % ACC[c["dtacc"]])
        L.append("  " + ("virtual " if c["dtvirt"] else "") + "~%s()" % name + SUFFIX[c["dt"]])
    L.append("public:")
    if c["cint"]:
        L.append("  const int cm;")
    if c["ref"]:
        L.append("  int &rm;")
    L += neutral
    for j, r in enumerate(c["rel"]):
        tn = ("%s_t%d" % (name, j)) if via_typedef else names[j]
        if r == "member":
            L.append("  %s m%d;" % (tn, j))
        elif r == "arrmember":
            L.append("  %s a%d[2];" % (tn, j))
        elif r == "staticmember":
            L.append("  static %s s%d;" % (names[j], j))
    # spellings of the virtual function, the same style for all classes of one program
    style = int(name[1:name.index("_")]) % 4
    par, opar = [("", ""), ("int x", "const int x"), ("", ""), ("", "")][style]
    osfx = ["override", "override", "noexcept override", ""][style]
    # style 2: every class after the first declares f noexcept (an overrider may be stricter, never looser)
    nx = " noexcept" if (style == 2 and not name.endswith("_C1")) else ""
    if c["vf"] == "virt":
        L.append("  virtual void f(%s)%s;" % (par, nx))
    elif c["vf"] == "pure":
        L.append("  virtual void f(%s)%s = 0;" % (par, nx))
    elif c["vf"] == "over" and style == 3:
        L.append("  auto f(%s) -> void;" % opar)       # style 3: the overrider is written with a trailing return type
    elif c["vf"] == "over":
        L.append("  void f(%s) %s;" % (opar, osfx))
    elif c["vf"] == "overc":
        L.append("  void f(%s) const;" % par)      # an overload: does not override void f()
    L.append("};")
    return "\n".join(pre + L)


# ---- fixed probes: class shapes outside the Traits alphabet (reported by adversaries), each with its nearest
# control.  Text with @ = the case prefix; classes are @_C1 .. @_Cn.  g++ gives the ground truth for these (there is
# no spec verdict), the tool's judgement comes from parse_file -p.  (id, text, number of classes, finding class)
PROBES = [
    ("virtual-diamond-final-overrider",
     "struct @_C1 { virtual void f() = 0; }; struct @_C2 : public virtual @_C1 { void f() override; }; "
     "struct @_C3 : public virtual @_C1 { }; struct @_C4 : public @_C2, public @_C3 { };", 4, "C10-virtual-base-dominance"),
    ("virtual-base-constructed-by-most-derived",
     "struct @_C1 { @_C1(int); }; struct @_C2 : public virtual @_C1 { @_C2() : @_C1(1) { } }; struct @_C3 : public @_C2 { };",
     3, "C10-virtual-base-dominance"),
    ("const-array-member", "struct @_C1 { const int a[3]; }; struct @_C2 { const int a[3] = {1, 2, 3}; };", 2, "C10-const-member-shapes"),
    ("const-member-of-typedefd-class", "struct @_C1 { @_C1(); }; typedef @_C1 @_t; struct @_C2 { const @_t m; };", 2, "C10-const-member-shapes"),
    ("const-member-control", "struct @_C1 { @_C1(); }; struct @_C2 { const @_C1 m; }; struct @_C3 { const int x = 1; const int y{2}; };", 3, None),
    ("defaulted-destructor", "struct @_C1 { ~@_C1() = delete; }; struct @_C2 { ~@_C2() = default; @_C1 m; }; struct @_C3 { ~@_C3() = default; };", 3, None),
    # a NON-virtual diamond has two sub-objects of the top class: the pure virtual of the arm that does not override
    # stays pure, whatever the other arm does (each of these is decided by g++)
    ("nonvirtual-diamond-one-arm-overrides",
     "struct @_C1 { virtual void f() = 0; }; struct @_C2 : public @_C1 { void f() override; }; "
     "struct @_C3 : public @_C1 { }; struct @_C4 : public @_C2, public @_C3 { }; struct @_C5 : public @_C4 { };", 5, None),
    ("nonvirtual-diamond-both-arms-override",
     "struct @_C1 { virtual void f() = 0; }; struct @_C2 : public @_C1 { void f() override; }; "
     "struct @_C3 : public @_C1 { void f() override; }; struct @_C4 : public @_C2, public @_C3 { };", 4, None),
    ("nonvirtual-diamond-bottom-overrides",
     "struct @_C1 { virtual void f() = 0; }; struct @_C2 : public @_C1 { }; "
     "struct @_C3 : public @_C1 { }; struct @_C4 : public @_C2, public @_C3 { void f() override; };", 4, None),
    ("two-unrelated-pure-bases-one-overridden",
     "struct @_C1 { virtual void f() = 0; }; struct @_C2 { virtual void f() = 0; }; struct @_C3 : public @_C1 { void f() override; }; "
     "struct @_C4 : public @_C3, public @_C2 { }; struct @_C5 : public @_C3, public @_C2 { void f() override; };", 5, None),
    ("trailing-return-overrider",
     "struct @_C1 { virtual void f() = 0; virtual int g(int) const = 0; }; struct @_C2 : public @_C1 { auto f() -> void; auto g(int) const -> int; }; "
     "struct @_C3 : public @_C1 { auto f() -> void; };", 3, None),
    ("virtual-base-spellings", "struct @_C1 { }; struct @_C2 : virtual @_C1 { }; class @_C3 : virtual public @_C1 { }; struct @_C4 : public virtual @_C1 { };", 4, None),
]


def render_case(i, rec):
    if "raw" in rec:
        return rec["raw"].replace("@", "K%d" % i)
    # global scope (members of namespaces are exported only on demand), unique names per case
    names = ["K%d_C%d" % (i, k + 1) for k in range(len(rec["c"]))]
    out = []
    for k, c in enumerate(rec["c"]):
        out.append(render_class(names[k], c, names))
    return "\n".join(out)      # (the headers define `extern int zg;` once, see ZG)


PROBE = r'''#include <type_traits>
#include <cstdio>
#include <utility>
template<class T, class=void> struct CanNew : std::false_type {};
template<class T> struct CanNew<T, std::void_t<decltype(new T())>> : std::true_type {};
template<class T, class=void> struct CanCopy : std::false_type {};
template<class T> struct CanCopy<T, std::void_t<decltype(new T(std::declval<const T&>()))>> : std::true_type {};
#define P(I,T) printf("%d " #T " %d %d %d %d %d\n", I, (int)std::is_abstract<K##I##_##T>::value, (int)std::is_polymorphic<K##I##_##T>::value, (int)CanNew<K##I##_##T>::value, (int)CanCopy<K##I##_##T>::value, (int)std::is_destructible<K##I##_##T>::value);
'''


# ---- known-finding classes: predicates over the INPUT hierarchy only --------------------
def cc_extra_defaults(name, c):
    """this class's user-provided copy constructor is spelled with an extra defaulted parameter"""
    return c["cc"] == "user" and sum(ord(ch) for ch in name) % 4 == 1


def classes_of(rec, k, i=0):
    """Finding classes that class k (0-based) of program i falls in (input predicates only)."""
    cs = rec["c"]
    out = []

    def reach(j, seen):
        if cc_extra_defaults("K%d_C%d" % (i, j + 1), cs[j]):
            return True
        return any(reach(b, seen | {j}) for b, r in enumerate(cs[j]["rel"])
                   if (r in BASEKW or r in ("member", "arrmember")) and b not in seen)
    if reach(k, set()):
        out.append("C10-copy-ctor-extra-defaults")
    return out


def features(rec, k):
    """input-only feature flags of class k used for triage statistics"""
    cs, v = rec["c"], rec["v"]
    c = cs[k]
    bases = [j for j, r in enumerate(c["rel"]) if r in BASEKW]
    members = [j for j, r in enumerate(c["rel"]) if r in ("member", "arrmember")]
    f = []
    if any(v[b]["abs"] for b in bases) and not v[k]["abs"]:
        f.append("absbase")
    if c["dc"] == "default" or c["cc"] == "default" or c["dt"] == "default":
        f.append("eqdefault")
    if c["cint"]:
        f.append("cint")
    if c["ref"]:
        f.append("ref")
    if c["mc"] != "none":
        f.append("mc:" + c["mc"])
    if any(not v[j]["d"] for j in bases + members):
        f.append("sub-undestructible")
    if any(not v[j]["dc"] for j in bases + members):
        f.append("sub-nodc")
    if any(not v[j]["cc"] for j in bases + members):
        f.append("sub-nocc")
    if c["dt"] != "none" and (c["dtacc"] != "pub" or c["dt"] == "delete"):
        f.append("owndtor-unusable")
    if c["dc"] in ("user", "default") and c["dcacc"] != "pub":
        f.append("dc-nonpub")
    if c["cc"] in ("user", "default") and c["ccacc"] != "pub":
        f.append("cc-nonpub")
    if c["dc"] == "delete":
        f.append("dc-deleted")
    if c["cc"] == "delete":
        f.append("cc-deleted")
    if v[k]["abs"]:
        f.append("abstract")
    if any(r == "base_vpub" for r in c["rel"]):
        f.append("vbase")
    return f


def spec_tuple(v):
    return dict(abs=int(v["abs"]), poly=int(v["poly"]), dc=int(v["dc"]), cc=int(v["cc"]), d=int(v["d"]))


def run_batch(args):
    work, b, cases = args
    h = "b%d.h" % b
    open(os.path.join(work, h), "w").write("extern int zg;\n" + "\n".join(render_case(i, rec) for i, rec in cases) + "\n")
    src = "b%d.cxx" % b
    body = "".join("P(%d,C%d) " % (i, k + 1) for i, rec in cases for k in range(len(rec["c"])))
    open(os.path.join(work, src), "w").write('#include "%s"\n%sint main(){\n%s\n}\n' % (h, PROBE, body))
    r = subprocess.run(["g++", "-std=c++17", "-O0", "-w", src, "-o", "b%d.exe" % b,
                        "-Wl,--unresolved-symbols=ignore-all"], cwd=work, stdout=subprocess.PIPE,
                       stderr=subprocess.PIPE, text=True)
    if r.returncode != 0:
        return dict(b=b, gxx_error=r.stderr[:3000])
    out = subprocess.run(["./b%d.exe" % b], cwd=work, stdout=subprocess.PIPE, text=True).stdout
    gxx = {}
    for line in out.splitlines():
        p = line.split()
        gxx[(int(p[0]), p[1])] = dict(zip(("abs", "poly", "dc", "cc", "d"), (int(x) for x in p[2:])))
    # interrogate, view 1: parse_file -p
    q = []
    for i, rec in cases:
        for k in range(len(rec["c"])):
            q.append("K%d_C%d" % (i, k + 1))
            q.append("__is_polymorphic(K%d_C%d)" % (i, k + 1))
    r2 = run.run_tool("parse_file", ["-p", h], cwd=work, stdin=("\n".join(q) + "\n").encode(), timeout=300)
    ig = {}
    cur, d = None, {}
    lastexpr = None
    nexpr = 0
    for line in r2.stdout.splitlines():
        if line.startswith("Type: "):
            cur, d = None, {}
        elif line.startswith("scope = ::"):
            cur = line[len("scope = ::"):].strip()
        elif "Expression: __is_polymorphic(" in line:
            # the echo prints the unscoped name; queries are answered in order
            lastexpr = q[2 * nexpr]
            nexpr += 1
        elif line.startswith("value is ") and lastexpr:
            ig.setdefault(lastexpr, {})["poly"] = int(line.split()[-1])
            lastexpr = None
        else:
            for key, short in (("is_default_constructible", "dc"), ("is_copy_constructible", "cc"),
                               ("is_destructible", "d"), ("is_abstract", "abs")):
                if line.startswith(key + " = "):
                    d[short] = int(line.split("=")[1])
                    if short == "abs":
                        ig.setdefault(cur, {}).update(d)
    # interrogate, view 2: the database
    r3 = run.run_tool("interrogate", ["-od", "b%d.in" % b, "-oc", "b%d_i.cxx" % b, "-module", "m", "-library",
                                      "l%d" % b, "-python-native", "-promiscuous", h], cwd=work, timeout=300)
    db = None
    if r3.rc == 0:
        db = idb.dump([os.path.join(work, "b%d.in" % b)])
    return dict(b=b, gxx=gxx, ig=ig, rc_pf=r2.rc, rc_int=r3.rc, err_int=r3.stderr[-1500:], db=db)


def db_view(db):
    """type scoped name -> (exports default ctor, exports copy ctor, has destructor)"""
    out = {}
    for t in db["types"].values():
        if not (t["is_struct"] or t["is_class"]):
            continue
        dflt = cpy = False
        for f in t["constructors"]:
            fn = db["functions"].get(str(f))
            if not fn:
                continue
            for w in fn["python_wrappers"] + fn["c_wrappers"]:
                wr = db["wrappers"].get(str(w))
                if not wr:
                    continue
                ps = [p for p in wr["parameters"] if not p["is_this"]]
                if wr["is_copy_constructor"]:
                    cpy = True
                elif all(p["is_optional"] for p in ps):
                    dflt = True
        out[t["scoped_name"]] = dict(dc=int(dflt), cc=int(cpy), d=int(t["has_destructor"]))
    return out


def run_check(ctx):
    build.ensure("hooked")
    tier = ctx.tier
    progs = []
    for cfg in (["Traits_quick2", "Traits_quick3"] if tier == "quick" else ["Traits_thorough2", "Traits_thorough3"]):
        dump = os.path.join(ctx.tmp, cfg + ".ndjson")
        res = tlc.run("TraitsMC", cfg, env={"VERIF_DUMP": dump}, timeout=2400)
        ctx.add_tlc(res)
        if res.verdict == "invariant":
            raise MachineryError("Traits: rule sanity invariant %s violated\n%s" % (res.violated, res.out[-2000:]))
        tlc.must_ok(res)
        recs = tlc.read_dump(dump)
        recs.sort(key=lambda r: json.dumps(r, sort_keys=True))
        cap = 14000 if tier == "quick" else 120000
        if len(recs) > cap:          # fixed stratified cut, independent of the seed
            step = -(-len(recs) // cap)
            recs = recs[::step]
            ctx.notes.setdefault("sampled", []).append("%s: every %d-th of the sorted dump" % (cfg, step))
        progs += recs
    cases = list(enumerate(progs))
    batches = [(ctx.tmp, b, cases[k:k + BATCH]) for b, k in enumerate(range(0, len(cases), BATCH))]
    n_classes = 0
    distinct = set()
    for res in run.pmap(run_batch, batches):
        b = res["b"]
        if "gxx_error" in res:
            raise MachineryError("g++ rejects a generated program (spec WF too weak): %s" % res["gxx_error"])
        if res["rc_pf"] != 0:
            ctx.violation("parse_file -p exit %s on a batch of valid class hierarchies" % res["rc_pf"], dict(batch=b))
            continue
        dbv = db_view(res["db"]) if res["db"] and "types" in res["db"] else None
        if res["rc_int"] != 0 or dbv is None:
            ctx.violation("interrogate exit %s on a batch of valid class hierarchies: %s" % (res["rc_int"], res["err_int"][-300:]),
                          dict(batch=b))
        for i, rec in batches[b][2]:
            for k in range(len(rec["c"])):
                n_classes += 1
                nm = "C%d" % (k + 1)
                sp = spec_tuple(rec["v"][k])
                g = res["gxx"].get((i, nm))
                if g != sp:
                    raise MachineryError("spec != g++ on %s of:\n%s\nspec %s\ng++  %s" % (nm, render_case(i, rec), sp, g))
                distinct.add(json.dumps(rec["c"][:k + 1], sort_keys=True))
                own_dtor_unusable = rec["c"][k]["dt"] != "none" and (rec["c"][k]["dtacc"] != "pub" or rec["c"][k]["dt"] == "delete")
                t = res["ig"].get("K%d_%s" % (i, nm))
                cls = classes_of(rec, k, i)
                if t is None:
                    ctx.violation("parse_file -p gave no judgement for K%d_%s" % (i, nm), dict(program=render_case(i, rec)))
                    continue
                keys = ["abs", "poly", "d"] if own_dtor_unusable else ["abs", "poly", "dc", "cc", "d"]
                bad = [x for x in keys if t.get(x) != sp[x]]
                if bad:
                    ctx.violation("class %s: interrogate judges %s, C++ (spec = g++) says %s  [%s]" % (
                        nm, {x: t.get(x) for x in bad}, {x: sp[x] for x in bad}, render_case(i, rec).replace("\n", " ")),
                        dict(program=render_case(i, rec), cls=nm, spec=sp, interrogate=t, view="parse_file -p",
                             stat_key="pf %s %s" % (["%s:%s->%s" % (x, sp[x], t.get(x)) for x in bad], features(rec, k))), classes=cls)
                if dbv is not None:
                    dv = dbv.get("K%d_%s" % (i, nm))
                    if dv is None:
                        continue      # not exported at all (e.g. nothing public): no claim
                    keys = ["d"] if own_dtor_unusable else ["dc", "cc", "d"]
                    bad = [x for x in keys if dv[x] != sp[x]]
                    if bad:
                        ctx.violation("class %s: database exports %s, C++ provides %s  [%s]" % (
                            nm, {x: dv[x] for x in bad}, {x: sp[x] for x in bad}, render_case(i, rec).replace("\n", " ")),
                            dict(program=render_case(i, rec), cls=nm, spec=sp, database=dv, view="database",
                                 stat_key="db %s %s" % (["%s:%s->%s" % (x, sp[x], dv[x]) for x in bad], features(rec, k))), classes=cls)
    # fixed probes (g++ is the ground truth)
    pcases = [(900000 + j, dict(raw=text, c=[None] * n)) for j, (pid, text, n, cls) in enumerate(PROBES)]
    pres = run_batch((ctx.tmp, 999999, pcases))
    if "gxx_error" in pres:
        raise MachineryError("g++ rejects a C10 probe: " + pres["gxx_error"][:1500])
    exact = ctx.notes.setdefault("finding_class_failed_of_members", {})
    for (i, rec), (pid, text, n, cls) in zip(pcases, PROBES):
        bad_any = False
        for k in range(n):
            nm = "C%d" % (k + 1)
            g = pres["gxx"].get((i, nm))
            t = pres["ig"].get("K%d_%s" % (i, nm))
            n_classes += 1
            if g is None:
                raise MachineryError("no g++ verdict for probe %s %s" % (pid, nm))
            # (classes whose destructor is unusable are compared on abstract / polymorphic / destructible only,
            # as in the generated part)
            keys = ("abs", "poly", "d") if pid == "defaulted-destructor" else ("abs", "poly", "dc", "cc", "d")
            bad = ["none"] if t is None else [x for x in keys if t.get(x) != g[x]]
            if bad:
                bad_any = True
                ctx.violation("probe %s, class %s: interrogate judges %s, g++ says %s  [%s]" % (
                    pid, nm, {x: (t or {}).get(x) for x in bad}, {x: g.get(x) for x in bad}, render_case(i, rec)),
                    dict(probe=pid, program=render_case(i, rec), cls=nm, gxx=g, interrogate=t, view="parse_file -p",
                         stat_key="probe " + pid), classes=[cls] if cls else [])
        if cls:
            m = exact.setdefault(cls, [0, 0])
            m[1] += 1
            m[0] += bad_any
    ctx.cov["evaluations"] = n_classes
    ctx.cov["traces_validated_against_impl"] = len(progs)
    ctx.cov["distinct_nontrivial"] = len(distinct)
    ctx.cov["exhaustive"] = not ctx.notes.get("sampled")
    ctx.cov["rule"] = ("TLC enumerates every class hierarchy over the feature alphabet of the cfg (root class with up to "
                       "RootBudget non-implicit feature groups; later classes related to earlier ones as base/virtual "
                       "base/member); each class of each program is judged by spec, g++ and interrogate (parse_file -p "
                       "and database); distinct = distinct class-with-ancestry descriptions; all are non-trivial "
                       "(each has at least one relation or non-default feature)")
    for i, rec in cases[:: max(1, len(cases) // 4)][:4]:
        ctx.sample(dict(program=render_case(i, rec), verdicts=rec["v"]))
