"""C14 — output is a pure function of the inputs (reproducible builds).

spec Repro (a run = step machine whose nondeterministic choices are the hidden inputs of a process:
allocation order of the FunctionRemap objects, clock, SOURCE_DATE_EPOCH, locale, environment size;
TLC: two runs on the same overload set give the same files for every choice, and the sort in
write_function_forset is independent of the allocation order iff RemapCompareLess has no ties on
the set) -> every dumped overload set (tie sets and tie-free controls) is rendered into generated
libraries; each library is run several times per back-end under different allocator seeds
(LD_PRELOAD harness/shufmalloc.c), locales, TZ, shifted clocks (LD_PRELOAD harness/shifttime.c), environment padding, setarch -R, a second apart;
sha256 of -oc / -od / -oh and of the interrogate_module output must agree (without
SOURCE_DATE_EPOCH: agree modulo the file identifier, which must be the same number in code and
database).  The H-sort hook trace of all python-native runs is validated against ReproTrace
(content -> emitted order is a function across runs)."""
import hashlib, json, os, re, shutil, subprocess, time
from ..common import MachineryError, REPO, NCPU
from .. import build, tlc, run, harness

EPOCH = "1700000000"
CFGS = {"quick": ["Repro_inputs", "Repro_quick4", "Repro_quick"], "thorough": ["Repro_inputs", "Repro_quick4", "Repro_thorough"]}
NLIB = {"quick": 12, "thorough": 48}
MAXSETS = {"quick": 3000, "thorough": 40000}
BACKENDS = ["-python-native", "-python", "-c"]

# category name (as interrogate spells it in a function signature) -> C++ parameter declaration
DECL = {"B *": "B *", "B const *": "const B *", "B": "const B &", "C *": "C *", "D *": "D *", "E": "E",
        "PyObject *": "PyObject *", "bool": "bool", "char": "char", "double": "double", "float": "float",
        "int": "int", "long int": "long", "long long int": "long long", "short int": "short",
        "signed char": "signed char", "std::string": "std::string", "unsigned char": "unsigned char",
        "unsigned int": "unsigned int", "unsigned long int": "unsigned long",
        "unsigned long long int": "unsigned long long", "unsigned short int": "unsigned short"}

# hidden-input settings of the runs (the first is the plain environment)
PAD = "x" * 1000


def hidden(tier):
    """The hidden-input settings of the runs.  `pre`: what an earlier run left where the outputs go (nothing /
    the same files / longer files / shorter files / a symbolic link to a longer file / a read-only longer
    file); `via`: the working directory is entered by its real name or
    through a symbolic link; `pwd`: what $PWD says (real / link / dotdot = link/../link / garbage / unset);
    the other variables are everything a libc or Filename call of the tools may consult."""
    h = [dict(name="plain", via="real", pwd="real", pre="none", env={"LC_ALL": "C", "TZ": "UTC0"}),
         dict(name="seed1", seed="1", via="link", pwd="link", pre="longer",
              env={"LC_ALL": "C.utf8", "LC_NUMERIC": "C.utf8", "TZ": "XXX-13:30", "SHIFT_TIME": "8640000", "VERIF_PAD1": PAD * 4,
                   "TMPDIR": "/nonexistent/tmp", "OLDPWD": "/"}),
         dict(name="seed2", seed="2", setarch=True, via="real", pwd="unset", pre="shorter", unset=["OLDPWD", "HOME"],
              env={"LC_ALL": "de_DE.UTF-8", "LC_NUMERIC": "de_DE.UTF-8", "LANG": "de_DE.UTF-8",
                   "TZ": "America/St_Johns", "XDG_DATA_HOME": "/nonexistent/x"}),
         dict(name="rev", seed="rev", via="link", pwd="garbage", pre="symlink",
              env={"LC_ALL": "POSIX", "TZ": "<-11>11", "SHIFT_TIME": "-40000000", "POSIXLY_CORRECT": "1", "HOME": "/nonexistent",
                   "PANDA_ROOT": "/nonexistent/root", "VERIF_PAD1": PAD * 30, "VERIF_PAD2": PAD * 30}),
         dict(name="seed3", seed="3", setarch=True, via="link", pwd="dotdot", pre="readonly",
              env={"LANG": "fr_FR", "LC_NUMERIC": "POSIX", "TZ": "", "TMPDIR": ".", "CWD": "/"}),
         dict(name="seed4", seed="4", via="real", pwd="link", pre="same",
              env={"LC_ALL": "tr_TR.ISO-8859-9", "VERIF_PAD1": PAD * 100}),
         # glibc's own allocator, every block mmap()ed: another way to permute addresses
         dict(name="mmap", via="real", pwd="real", pre="longer", env={"MALLOC_MMAP_THRESHOLD_": "0", "LC_ALL": "C"})]
    if tier == "thorough":
        h += [dict(name="seed%d" % s, seed=str(s), setarch=bool(s % 2), via=("link", "real")[s % 2],
                   pwd=("real", "dotdot", "link", "unset")[s % 4], env={"LC_ALL": "C"}) for s in (5, 6, 7, 8)]
    return h


def n_runs(backend, tier):
    return {"-python-native": 7, "-python": 4, "-c": 4}[backend] + (4 if tier == "thorough" else 0)


# ---------------------------------------------------------------------------------------------
PROLOGUE = """#ifndef %(g)s
#define %(g)s
#ifdef CPPPARSER
#define PUBLISHED __published
#define BEGIN_PUBLISH __begin_publish
#define END_PUBLISH __end_publish
#define MAKE_PROPERTY(n, ...) __make_property(n, __VA_ARGS__)
#define MAKE_SEQ(n, a, b) __make_seq(n, a, b)
#else
#define PUBLISHED public
#define BEGIN_PUBLISH
#define END_PUBLISH
#define MAKE_PROPERTY(n, ...)
#define MAKE_SEQ(n, a, b)
#endif
#include <string>
struct _object;
typedef _object PyObject;
#define %(L)s_VERSION %(v)d
#define %(L)s_SCALE 2.5
#define %(L)s_NAME "lib %(k)d"
#define %(L)s_MASK (1 << %(v)d)
enum E { e_a, e_b = 7 };
class B {
PUBLISHED:
  B();
  int get_b() const;
};
class C {
PUBLISHED:
  C();
};
class D : public B {
PUBLISHED:
  D();
};
class H%(k)d {
PUBLISHED:
  H%(k)d();
  operator bool () const;
  bool __bool__();
  size_t get_hash() const;
  size_t __hash__();
};
// slots of the python-native maker declared with unexpected return types / arities (the rarely taken
// "don't know what to do" branches); __traverse__/__getbuffer__/__releasebuffer__ with unexpected
// parameters are left out: interrogate crashes on them (a front-end matter, not reproducibility)
class Odd%(k)d {
PUBLISHED:
  Odd%(k)d();
  float __setattr__(const std::string &name, int v);
  double __delattr__(const std::string &name);
  const char *__setitem__(int i, int v);
  float __delitem__(int i);
  int __getattr__(const std::string &name) const;
  bool operator () ();
  float __len__() const;
  const char *__int__() const;
  double __bool__() const;
  float __hash__() const;
  void __iter__();
  float __next__();
  double __repr__() const;
  int __str__() const;
  float __contains__(int a, int b) const;
  void __getitem__() const;
  float __call__(int a) const;
  float __clear__();
  float __cmp__(const Odd%(k)d &o) const;
  float __ipow__(int a, int b, int c);
  float __pow__(int a);
};
// the date and time of translation, wherever a compiler would substitute them
#define BUILD%(k)d_DATE __DATE__
#define BUILD%(k)d_TIME __TIME__
#define BUILD%(k)d_STAMP __TIMESTAMP__
class Dated%(k)d {
PUBLISHED:
  Dated%(k)d();
  int when(const char *d = __DATE__, const char *t = __TIME__);
  const char *stamp(const char *s = __TIMESTAMP__);
};
#include "ext%(k)d.h"
namespace ns%(k)d {
  enum Color { red, green, blue };
  class Inner {
  PUBLISHED:
    Inner();
    int v() const;
    class Nested {
    PUBLISHED:
      Nested();
      enum K { k1, k2 };
      K k() const;
    };
  };
}
typedef Tpl%(k)d<int> TplInt%(k)d;
typedef Tpl%(k)d<double> TplDouble%(k)d;
class RB1_%(k)d : public X1_%(k)d {
PUBLISHED:
  RB1_%(k)d();
  virtual int v1();
  int get_a() const;
  void set_a(int a);
  MAKE_PROPERTY(a, get_a, set_a);
};
class RB2_%(k)d {
PUBLISHED:
  RB2_%(k)d();
  virtual ~RB2_%(k)d();
  virtual int v2();
};
class Multi%(k)d : public RB1_%(k)d, public RB2_%(k)d {
PUBLISHED:
  Multi%(k)d();
  Multi%(k)d(const Multi%(k)d &copy);
  explicit Multi%(k)d(int a);
  Multi%(k)d(X2_%(k)d *x);
  Multi%(k)d(const X3_%(k)d &x);
  int over(X1_%(k)d *a);
  int over(X2_%(k)d *a);
  int over(X3_%(k)d *a);
  int over(const RB2_%(k)d &a);
  int over(ns%(k)d::Inner *a);
  int over(TplInt%(k)d *t);
  int over(TplDouble%(k)d *t);
  int dflt(int a, double b = 2.0, const std::string &c = "x\\\"y");
  int dflt(long a);
  bool operator == (const Multi%(k)d &o) const;
  bool operator == (const X2_%(k)d &o) const;
  bool operator < (const Multi%(k)d &o) const;
  int operator [] (int i) const;
  int __getitem__(long i) const;
  size_t get_num_items() const;
  X1_%(k)d *get_item(size_t i) const;
  MAKE_SEQ(get_items, get_num_items, get_item);
  static Multi%(k)d *make(X1_%(k)d *x);
  static Multi%(k)d *make(X2_%(k)d *x);
  ns%(k)d::Color col(ns%(k)d::Color c);
  ns%(k)d::Inner::Nested::K kk(ns%(k)d::Inner::Nested::K k);
  int _pub;
};
BEGIN_PUBLISH
int gf%(k)d(X1_%(k)d *a);
int gf%(k)d(X2_%(k)d *a);
int gf%(k)d(Multi%(k)d *a);
extern int global_var%(k)d;
END_PUBLISH
"""

# a header found through -I (not in the source directory): its types become external imports
EXT = """#ifndef EXT%(k)d_H
#define EXT%(k)d_H
class X1_%(k)d {
PUBLISHED:
  X1_%(k)d();
  virtual ~X1_%(k)d();
  int x1();
};
class X2_%(k)d {
PUBLISHED:
  X2_%(k)d();
  int x2();
};
class X3_%(k)d : public X1_%(k)d {
PUBLISHED:
  X3_%(k)d();
};
template<class T> class Tpl%(k)d {
PUBLISHED:
  Tpl%(k)d();
  T get() const;
  void set(T v);
};
#endif
"""


def fname(kind, i):
    return {"m": "f%d", "s": "s%d", "g": "g%d", "k": "K%d", "o": "O%d"}[kind] % i


def render_lib(k, sets):
    """sets: list of (index, rec).  Five renderings rotate: method, static method, global function,
    constructor, operator () (a slot wrapper); returns header text and {function name as it appears in a signature: index}."""
    L = "LIB%d" % k
    out = [PROLOGUE % dict(g=L + "_H", L=L, v=k + 1, k=k)]
    names = {}
    meth, glob, ctor = [], [], []
    for i, rec in sets:
        kind = "msgko"[i % 5]
        n = fname(kind, i)
        for ov in rec["names"]:
            params = ", ".join("%s p%d" % (DECL[t], j) for j, t in enumerate(ov))
            if kind == "m":
                meth.append("  int %s(%s);" % (n, params))
            elif kind == "s":
                meth.append("  static int %s(%s);" % (n, params))
            elif kind == "g":
                glob.append("int %s(%s);" % (n, params))
            elif kind == "k":
                ctor.append((n, "  %s(%s);" % (n, params)))
            else:
                ctor.append((n, "  int operator () (%s);" % params))
        names[{"m": "A%d::%s" % (k, n), "s": "A%d::%s" % (k, n), "g": n, "k": "%s::%s" % (n, n),
               "o": "%s::operator ()" % n}[kind]] = i
    out.append("class A%d {\nPUBLISHED:\n  A%d();\n%s\n};" % (k, k, "\n".join(meth)))
    cur = None
    for n, decl in ctor:
        if n != cur:
            if cur:
                out.append("};")
            out.append("class %s {\nPUBLISHED:" % n)
            if n[0] == "O":
                out.append("  %s();" % n)
            cur = n
        out.append(decl)
    if cur:
        out.append("};")
    out.append("BEGIN_PUBLISH\n%s\nEND_PUBLISH" % "\n".join(glob))
    out.append("#endif")
    return "\n".join(out) + "\n", names


def sha(path):
    try:
        return hashlib.sha256(open(path, "rb").read()).hexdigest()
    except OSError:
        return None


IDENT_CODE = re.compile(rb"^\s*(-?\d+),\s*/\* file_identifier \*/\s*$", re.M)


def strip_ident(kind, data):
    """(identifier or None, contents without it) of an output file."""
    if data is None:
        return None, None
    if kind == "od":
        nl = data.find(b"\n")
        return data[:nl].strip(), data[nl:]
    if kind == "oc":
        m = IDENT_CODE.search(data)
        if m:
            return m.group(1), data[:m.start(1)] + b"#" + data[m.end(1):]
    return None, data


ADDR = re.compile(rb"0x[0-9a-fA-F]{6,}")
JUNK = b"/* left over from an earlier, longer output */\n" * 1400


def prepare(d, names, pre):
    """Put the files an earlier run may have left in place of the outputs `names` of directory d."""
    if pre == "same":
        return
    for f in names:
        p = os.path.join(d, f)
        old = b""
        if os.path.lexists(p):
            try:
                old = open(p, "rb").read()
            except OSError:
                pass
            os.chmod(p, 0o644) if not os.path.islink(p) else None
            os.unlink(p)
        t = os.path.join(d, "tgt-" + f)
        if os.path.lexists(t):
            os.unlink(t)
        if pre in ("longer", "readonly"):
            open(p, "wb").write(old + JUNK)
            if pre == "readonly" and os.geteuid() == 0:      # (only root can still write it)
                os.chmod(p, 0o444)
        elif pre == "shorter":
            open(p, "wb").write(b"/* short */")
        elif pre == "symlink":
            open(t, "wb").write(old + JUNK)
            os.symlink("tgt-" + f, p)


def c_atoi(s):
    m = re.match(r"\s*([+-]?\d+)", s)
    v = int(m.group(1)) if m else 0
    v = max(-2 ** 63, min(2 ** 63 - 1, v)) & 0xffffffff
    return v - 2 ** 32 if v >= 2 ** 31 else v


EXTRA_EPOCHS = ["0", "1", "99999999999", "abc", "-5", " 12x"]


def link_of(d):
    return d + "-ln"


def tool_run(tool, args, d, h, shuf, trace=None, epoch=EPOCH):
    """Run a tool in directory d (real path; link_of(d) is a symbolic link to it) under hidden input h."""
    env = {"SOURCE_DATE_EPOCH": epoch} if epoch is not None else {}
    unset = ["LC_ALL", "LC_NUMERIC", "LANG", "TZ", "POSIXLY_CORRECT", "TMPDIR", "PANDA_ROOT", "CWD"] + h.get("unset", [])
    if epoch is None:
        unset.append("SOURCE_DATE_EPOCH")
    env.update(h.get("env", {}))
    cwd = link_of(d) if h.get("via") == "link" else d
    pwd = {"real": d, "link": link_of(d), "garbage": "/nonexistent/dir",
           "dotdot": os.path.join(link_of(d), "..", os.path.basename(link_of(d)))}.get(h.get("pwd"))
    if pwd:
        env["PWD"] = pwd
    else:
        unset.append("PWD")
    if h.get("seed") or "SHIFT_TIME" in env:
        env["LD_PRELOAD"] = shuf           # shufmalloc.so and shifttime.so (each inert without its variable)
    if h.get("seed"):
        env["SHUF_SEED"] = h["seed"]
    unset = [v for v in unset if v not in env]
    exe = build.tool(tool)
    pre = []
    for v in unset:
        pre += ["-u", v]
    if h.get("setarch"):
        pre += ["/usr/bin/setarch", os.uname().machine, "-R"]
    if h["name"] == "plain":
        # the plain run inherits the environment of the check and is recorded by the run monitor
        return run.run_tool(tool, args, cwd=cwd, trace=trace, env=env, timeout=300)
    # (variables can only be REMOVED by going through env(1); run_tool adds to the inherited environment)
    return run.run_tool("/usr/bin/env", pre + [exe] + args, cwd=cwd, trace=trace, env=env, timeout=300)


def lib_job(a):
    """All runs of one generated library (sequential: the command line and the paths are part of
    the output, so every run uses the same directory and file names)."""
    k, d, tier, shuf = a
    hid = hidden(tier)
    res = dict(k=k, runs=[], mods=[], traces=[], n=0, fail=[])
    base = ["-DCPPPARSER", "-S" + os.path.join(REPO, "parser-inc"), "-Iinc", "-srcdir", d, "-module", "vm",
            "-library", "lib%d" % k]
    for be in BACKENDS:
        tag = be.strip("-").replace("-", "")
        files = dict(oc="%s.cxx" % tag, od="%s.in" % tag, oh="%s.txt" % tag)
        args = base + [be, "-oc", files["oc"], "-od", files["od"], "-oh", files["oh"], "lib%d.h" % k]
        n = n_runs(be, tier)
        first = None

        def extra_epoch(h, pre):
            # an unusual but set SOURCE_DATE_EPOCH: run before and after the runs below (>= 1 s apart)
            prepare(d, files.values(), pre)
            ep = EXTRA_EPOCHS[k % len(EXTRA_EPOCHS)]
            r = tool_run("interrogate", args, d, h, shuf, epoch=ep)
            res["n"] += 1
            data = {}
            for x, f in files.items():
                try:
                    data[x] = open(os.path.join(d, f), "rb").read()
                except OSError:
                    data[x] = None
            return dict(be=be, epoch=ep, h=h["name"], rc=r.rc, sha={x: hashlib.sha256(v or b"").hexdigest() for x, v in data.items()},
                        ident={x: strip_ident(x, v)[0] for x, v in data.items()})
        xa = extra_epoch(hid[0], "none")
        for ri in range(n):
            h = hid[ri % len(hid)]
            if ri == n - 1:
                time.sleep(1.05)          # the last run is at least a second after the first
            prepare(d, files.values(), "none" if ri == 0 else h.get("pre", "none"))
            tr = os.path.join(d, "%s-%d.trace" % (tag, ri)) if be == "-python-native" else None
            r = tool_run("interrogate", args, d, h, shuf, trace=tr)
            res["n"] += 1
            got = {x: sha(os.path.join(d, f)) for x, f in files.items()}
            rec = dict(be=be, h=h["name"], rc=r.rc, sha=got, args=args)
            if r.rc != 0 or None in got.values():
                res["fail"].append(dict(rec, stderr=r.stderr[-600:]))
                continue
            if tr:
                res["traces"].append((h["name"], tr))
            if first is None:
                first = rec
                for x, f in files.items():
                    shutil.copy(os.path.join(d, f), os.path.join(d, "first-" + f))
            elif got != first["sha"]:
                for x, f in files.items():
                    if got[x] != first["sha"][x]:
                        keep = "%s-%s" % (h["name"], f)
                        shutil.copy(os.path.join(d, f), os.path.join(d, keep))
                        rec.setdefault("differs", {})[x] = ("first-" + f, keep)
            res["runs"].append(rec)
        res.setdefault("extra", []).append((xa, extra_epoch(hid[1], "longer")))
        prepare(d, files.values(), "none")
        # the same outputs named by absolute paths (another argument list: compared among themselves)
        if be == "-python-native":
            aargs = base + [be, "-oc", os.path.join(d, "abs-" + files["oc"]), "-od", os.path.join(d, "abs-" + files["od"]),
                            "-oh", os.path.join(d, "abs-" + files["oh"]), "lib%d.h" % k]
            ab = []
            for h in (hid[0], hid[1], hid[4]):
                r = tool_run("interrogate", aargs, d, h, shuf)
                res["n"] += 1
                ab.append((h["name"], r.rc, {x: sha(os.path.join(d, "abs-" + f)) for x, f in files.items()}))
            res["absruns"] = ab
            if k == 0:
                # options AFTER the source file: the same command line with and without POSIXLY_CORRECT
                oargs = base + [be, "lib%d.h" % k, "-oc", "oo-" + files["oc"], "-od", "oo-" + files["od"], "-oh", "oo-" + files["oh"]]
                oo = []
                for h in (hid[0], dict(hid[0], name="posixly", env=dict(hid[0]["env"], POSIXLY_CORRECT="1"))):
                    prepare(d, ["oo-" + f for f in files.values()], "none")
                    r = tool_run("interrogate", oargs, d, h, shuf)
                    res["n"] += 1
                    oo.append((h["name"], r.rc, {x: sha(os.path.join(d, "oo-" + f)) for x, f in files.items()}, r.stderr[-200:]))
                res["optorder"] = oo
        # address-looking tokens in the outputs of the first run
        toks = set()
        for x, f in files.items():
            try:
                toks |= {t.decode() for t in ADDR.findall(open(os.path.join(d, "first-" + f), "rb").read())}
            except OSError:
                pass
        res.setdefault("addr", {})[be] = sorted(toks)
        # without SOURCE_DATE_EPOCH: two runs a second apart
        ne = []
        for ri, h in enumerate((hid[1], hid[3])):
            if ri:
                time.sleep(1.05)
            # (an EMPTY SOURCE_DATE_EPOCH counts as unset)
            r = tool_run("interrogate", args, d, h, shuf, epoch=("" if ri else None))
            res["n"] += 1
            data = {}
            for x, f in files.items():
                try:
                    data[x] = open(os.path.join(d, f), "rb").read()
                except OSError:
                    data[x] = None
            ne.append(dict(be=be, h=h["name"], rc=r.rc, parts={x: strip_ident(x, v) for x, v in data.items()}))
        res.setdefault("noepoch", []).append(ne)
        # leave the epoch outputs of the first run in place for interrogate_module
        for x, f in files.items():
            if os.path.exists(os.path.join(d, "first-" + f)):
                shutil.copy(os.path.join(d, "first-" + f), os.path.join(d, f))
        if be != "-c" and first is not None:
            margs = ["-oc", "%s_module.cxx" % tag, "-module", "vm", "-library", "vm", be, files["od"]]
            shas = []
            for ri in range(3):
                h = hid[(ri * 2 + 1) % 6]
                prepare(d, ["%s_module.cxx" % tag], ("none", "longer", "symlink")[ri])
                r = tool_run("interrogate_module", margs, d, h, shuf)
                res["n"] += 1
                shas.append((h["name"], r.rc, sha(os.path.join(d, "%s_module.cxx" % tag))))
            res["mods"].append(dict(be=be, shas=shas, args=margs))
    return res


def differing_functions(d, a, b, names):
    """names of generated functions in whose wrapper the two code files differ (for the report)."""
    try:
        la = open(os.path.join(d, a), errors="replace").read().split("\n")
        lb = open(os.path.join(d, b), errors="replace").read().split("\n")
    except OSError:
        return []
    hit, cur = [], None
    for i in range(min(len(la), len(lb))):
        m = re.search(r"\b(?:A\d+::)?([fsgKO]\d+)\b", la[i])
        if m and ("Python function wrapper" in la[max(0, i - 1)] or la[i].startswith((" * ", "static", "PyObject"))):
            cur = m.group(1)
        if "Extern declarations for imported classes" in la[i] or la[i].startswith("static Dtool_TypeDef imports"):
            cur = None            # (tables after the wrappers belong to no function)
        if la[i] != lb[i] and cur and cur not in hit:
            hit.append(cur)
            if len(hit) >= 5:
                break
    return hit


def first_difference(d, a, b, ctxlines=6):
    try:
        la = open(os.path.join(d, a), errors="replace").read().split("\n")
        lb = open(os.path.join(d, b), errors="replace").read().split("\n")
    except OSError:
        return None
    for i in range(min(len(la), len(lb))):
        if la[i] != lb[i]:
            return dict(line=i + 1, plain=la[max(0, i - 2):i + ctxlines], other=lb[max(0, i - 2):i + ctxlines])
    return dict(line=min(len(la), len(lb)) + 1, plain=[], other=[])


def run_check(ctx):
    build.ensure("hooked")
    shuf = harness.ensure("shufmalloc.so", ["shufmalloc.c"], shared=True) + " " + \
        harness.ensure("shifttime.so", ["shifttime.c"], shared=True)
    tier = ctx.tier

    # ---- TLC --------------------------------------------------------------------------------
    for cfg, what in (("Repro_unfixed", "without the tie-break"), ("Repro_pwd", "with a get_cwd() that trusts $PWD"),
                      ("Repro_epoch0", "with an epoch of 0 treated as unset"),
                      ("Repro_notrunc", "with outputs overwritten in place"),
                      ("Repro_datemacro", "with __DATE__/__TIME__ taken from the clock"),
                      ("Repro_pointer", "with a branch that prints a pointer")):
        r0 = tlc.run("ReproMC", cfg, workers=4, timeout=600)
        ctx.add_tlc(r0)
        if r0.verdict != "invariant" or r0.violated != "OutputPure":
            raise MachineryError("Repro %s must violate OutputPure (the model would be unable to see the "
                                 "defect): verdict %s\n%s" % (what, r0.verdict, r0.out[-1500:]))
    sets, seen = [], set()
    for cfg in CFGS[tier]:
        dump = os.path.join(ctx.tmp, cfg + ".ndjson")
        res = tlc.run("ReproMC", cfg, workers=8, env={"VERIF_DUMP": dump}, timeout=3000)
        ctx.add_tlc(res)
        if res.verdict == "invariant":
            raise MachineryError("Repro: %s violated in the model with the intended tie-break\n%s" % (
                res.violated, res.out[-2500:]))
        tlc.must_ok(res)
        for rec in tlc.read_dump(dump):
            key = json.dumps(rec["ov"])
            if key not in seen:
                seen.add(key)
                sets.append(rec)
    if not sets:
        raise MachineryError("Repro dumped no overload sets")
    sets.sort(key=lambda r: (len(r["ov"][0]), len(r["ov"]), r["ov"]))
    n_ties = sum(1 for r in sets if r["ties"])
    ctx.notes["tlc_overload_sets"] = len(sets)
    ctx.notes["tlc_sets_with_comparator_ties"] = n_ties
    if len(sets) > MAXSETS[tier]:
        # fixed stratified cut (never the seed): all strata of (arity, size, sorted keys), round-robin
        strata = {}
        for r in sets:
            strata.setdefault((len(r["ov"][0]), len(r["ov"]), json.dumps(sorted(r["keys"]))), []).append(r)
        pick, i = [], 0
        while len(pick) < MAXSETS[tier]:
            for s in sorted(strata):
                if i < len(strata[s]) and len(pick) < MAXSETS[tier]:
                    pick.append(strata[s][i])
            i += 1
        sets = pick
    ctx.cov["exhaustive"] = len(sets) == len(seen)
    ctx.cov["rule"] = ("TLC enumerates every overload set (1-2 parameters over the parameter-type categories, up to "
                       "4 overloads) and every choice of hidden inputs for two runs; every dumped set is rendered "
                       "(as method / static method / function / constructor) and run under varied allocator seeds, "
                       "locales, TZ, environment sizes, ASLR settings and times; a set is non-trivial if "
                       "RemapCompareLess has a tie on it AND the H-sort trace shows it reached std::sort in at "
                       "least two different incoming (heap address) orders; distinct = distinct overload set")

    # ---- render + run -------------------------------------------------------------------------
    nlib = min(NLIB[tier], len(sets))
    libs, index = [], {}
    for k in range(nlib):
        mine = [(i, rec) for i, rec in enumerate(sets) if i % nlib == k]
        d = os.path.join(os.path.realpath(ctx.tmp), "lib%d" % k)
        os.makedirs(d)
        os.symlink("lib%d" % k, link_of(d))          # the same directory under a second name
        text, names = render_lib(k, mine)
        open(os.path.join(d, "lib%d.h" % k), "w").write(text)
        os.makedirs(os.path.join(d, "inc"))      # found through -I: not "local", so its types are external imports
        open(os.path.join(d, "inc", "ext%d.h" % k), "w").write(EXT % dict(k=k))
        libs.append((k, d, tier, shuf))
        index[k] = names
    results = run.pmap(lib_job, libs, workers=min(NCPU, 12))
    n_runs_total = sum(r["n"] for r in results)
    ctx.cov["evaluations"] += n_runs_total

    # ---- compare ------------------------------------------------------------------------------
    # hexadecimal constants the tool's own code templates contain (PY_VERSION_HEX tests, flags, ...)
    allowed_hex = set()
    for sub in ("interrogate", "interrogatedb"):
        sd = os.path.join(REPO, "src", sub)
        for f in os.listdir(sd):
            if f.endswith((".cxx", ".h", ".I")):
                allowed_hex |= {t.decode().lower() for t in ADDR.findall(open(os.path.join(sd, f), "rb").read())}
    for k, d, _, _ in libs:
        for f in ("lib%d.h" % k, os.path.join("inc", "ext%d.h" % k)):
            allowed_hex |= {t.decode().lower() for t in ADDR.findall(open(os.path.join(d, f), "rb").read())}
    n_cmp = 0
    for res in results:
        k = res["k"]
        d = libs[k][1]
        for f in res["fail"]:
            raise MachineryError("interrogate failed on generated library %d (%s, %s): rc=%s %s" % (
                k, f["be"], f["h"], f["rc"], f["stderr"]))
        bad = {}
        for rec in res["runs"]:
            n_cmp += 1
            if rec.get("differs"):
                bad.setdefault(rec["be"], []).append(rec)
        for be, recs in sorted(bad.items()):
            # one violation per (library, back-end); the payload carries a small reproducer, not the files
            rec = recs[0]
            fn, excerpt = [], {}
            for x, (a, b) in sorted(rec["differs"].items()):
                if x == "oc":
                    fn = differing_functions(d, a, b, index[k])
                excerpt[x] = first_difference(d, a, b)
            ex = []
            for n in fn:
                i = int(n[1:])
                ex.append(dict(function=n, overloads=sets[i]["names"], comparator_ties=sets[i]["ties"],
                               reproducer_header=render_lib(k, [(i, sets[i])])[0]))
            ctx.violation(
                "interrogate %s on generated library %d: %s differ between the plain run and run(s) %s "
                "(same arguments, same SOURCE_DATE_EPOCH); e.g. %s" % (
                    be, k, "/".join("-" + x for x in sorted(rec["differs"])), [r["h"] for r in recs],
                    "; ".join("%s(%s)" % (e["function"], " | ".join(",".join(o) for o in e["overloads"]))
                              for e in ex[:3]) or "first difference at line %s: %r vs %r" % tuple(
                                  [(excerpt.get(x0) or {}).get("line") for x0 in sorted(excerpt)[:1]] +
                                  [((excerpt.get(x0) or {}).get(w) or [""] * 3)[2:3] for x0 in sorted(excerpt)[:1]
                                   for w in ("plain", "other")])),
                dict(args=rec["args"], runs=[r["h"] for r in recs],
                     hidden=[h for h in hidden(tier) if h["name"] in [r["h"] for r in recs]],
                     first_difference=excerpt, functions=ex[:3]))
        for ne in res.get("noepoch", []):
            a, b = ne
            n_cmp += 1
            if a["rc"] != 0 or b["rc"] != 0:
                raise MachineryError("interrogate failed without SOURCE_DATE_EPOCH on library %d" % k)
            for x in ("oc", "od", "oh"):
                if a["parts"][x][1] != b["parts"][x][1] and a["be"] not in bad:
                    ctx.violation("interrogate %s on generated library %d without SOURCE_DATE_EPOCH: two runs a "
                                  "second apart differ in -%s in more than the file identifier" % (a["be"], k, x),
                                  dict(lib=k, backend=a["be"], file=x))
            for rr in (a, b):
                ic, idb = rr["parts"]["oc"][0], rr["parts"]["od"][0]
                if ic is not None and ic != idb:
                    ctx.violation("interrogate %s on generated library %d: file identifier %r in the code but %r in "
                                  "the database of the same run" % (rr["be"], k, ic, idb), dict(lib=k, backend=rr["be"]))
                if rr["be"] == "-python-native" and ic is None:
                    raise MachineryError("no file identifier found in python-native code of library %d" % k)
        for xa, xb in res.get("extra", []):
            n_cmp += 1
            if xa["rc"] != 0 or xb["rc"] != 0:
                raise MachineryError("interrogate failed with SOURCE_DATE_EPOCH=%r on library %d" % (xa["epoch"], k))
            if xa["sha"] != xb["sha"]:
                ctx.violation("interrogate %s on generated library %d with SOURCE_DATE_EPOCH=%r: %s differ between two "
                              "runs more than a second apart (the second over existing, longer files)" % (
                                  xa["be"], k, xa["epoch"], "/".join("-" + x for x in sorted(xa["sha"]) if xa["sha"][x] != xb["sha"][x])),
                              dict(lib=k, runs=[xa, xb]))
            want = str(c_atoi(xa["epoch"])).encode()
            for rr in (xa, xb):
                got = [rr["ident"]["od"]] + ([rr["ident"]["oc"]] if rr["ident"]["oc"] is not None else [])
                if any(g != want for g in got):
                    ctx.violation("interrogate %s on generated library %d with SOURCE_DATE_EPOCH=%r: file identifier %r, "
                                  "expected %r" % (rr["be"], k, rr["epoch"], got, want), dict(lib=k, run=rr))
                    break
        if res.get("optorder"):
            n_cmp += 1
            (na, rca, sa, ea), (nb, rcb, sb, eb) = res["optorder"]
            if rca != 0:
                raise MachineryError("interrogate failed with options after the source file: %s" % ea)
            if rcb != rca or sa != sb:
                ctx.violation("interrogate -python-native lib0.h -oc ... (options after the source file): exit status %s and "
                              "outputs without POSIXLY_CORRECT, exit status %s with POSIXLY_CORRECT=1 (%s)" % (
                                  rca, rcb, " ".join(eb.split())[:120]),
                              dict(lib=k, runs=res["optorder"]), classes=["C14-posixly-correct-option-order"])
        for be, toks in sorted(res.get("addr", {}).items()):
            n_cmp += 1
            strange = [t for t in toks if t.lower() not in allowed_hex]
            if strange:
                ctx.violation("interrogate %s on generated library %d: the outputs contain address-looking tokens that are "
                              "neither in the input nor in the tool's own templates: %s" % (be, k, strange[:5]),
                              dict(lib=k, backend=be, tokens=strange[:20]))
        if res.get("absruns"):
            n_cmp += 1
            if any(rc != 0 or None in sh.values() for _, rc, sh in res["absruns"]):
                raise MachineryError("interrogate failed with absolute output names on library %d: %r" % (k, res["absruns"]))
            if len({json.dumps(sh, sort_keys=True) for _, _, sh in res["absruns"]}) != 1:
                ctx.violation("interrogate -python-native on generated library %d with absolute -oc/-od/-oh names: "
                              "outputs differ between runs %s" % (k, [n for n, _, _ in res["absruns"]]),
                              dict(lib=k, runs=res["absruns"]))
        for m in res["mods"]:
            n_cmp += 1
            if any(rc != 0 or s is None for _, rc, s in m["shas"]):
                raise MachineryError("interrogate_module failed on library %d: %r" % (k, m))
            if len({s for _, _, s in m["shas"]}) != 1:
                ctx.violation("interrogate_module %s on the database of generated library %d: output differs "
                              "between runs %s" % (m["be"], k, [h for h, _, _ in m["shas"]]),
                              dict(lib=k, args=m["args"], shas=m["shas"]))
    # one module of all libraries, several times
    alld = os.path.join(os.path.realpath(ctx.tmp), "all")
    os.makedirs(alld)
    os.symlink("all", link_of(alld))
    ins = []
    for k, d, _, _ in libs:
        p = os.path.join(d, "pythonnative.in")
        if os.path.exists(p):
            shutil.copy(p, os.path.join(alld, "lib%d.in" % k))
            ins.append("lib%d.in" % k)
    hid = hidden(tier)
    shas = []
    for ri in range(4):
        margs = ["-oc", "all_module.cxx", "-module", "vm", "-library", "vm", "-python-native"] + ins
        prepare(alld, ["all_module.cxx"], ("none", "longer", "symlink", "shorter")[ri])
        r = tool_run("interrogate_module", margs, alld, hid[ri], shuf)
        shas.append((hid[ri]["name"], r.rc, sha(os.path.join(alld, "all_module.cxx"))))
        n_runs_total += 1
    n_cmp += 1
    if any(rc != 0 or s is None for _, rc, s in shas):
        raise MachineryError("interrogate_module failed on all libraries: %r" % shas)
    if len({s for _, _, s in shas}) != 1:
        ctx.violation("interrogate_module -python-native on %d databases: output differs between runs" % len(ins),
                      dict(shas=shas))
    ctx.cov["evaluations"] = n_runs_total
    ctx.notes["tool_runs"] = n_runs_total
    ctx.notes["output_comparisons"] = n_cmp
    ctx.notes["libraries"] = nlib
    ctx.notes["locales_available"] = "only C, C.utf8, POSIX are installed here: no comma-decimal locale could be tested"

    # ---- trace validation + spec sanity against the hook ----------------------------------------
    perms = {}      # set index -> set of incoming orders
    n_events = 0
    cats = []

    def project(a):
        res = a
        k = res["k"]
        cat = os.path.join(ctx.tmp, "sort-lib%d.ndjson" % k)
        n = 0
        info = []
        with open(cat, "w") as o:
            for hname, tr in res["traces"]:
                o.write('{"e":"Reset"}\n')
                for line in open(tr):
                    if line.startswith('{"e":"Sort"'):
                        o.write(line)
                        n += 1
                        info.append(json.loads(line))
        return k, cat, n, info
    for k, cat, n, info in run.pmap(project, results):
        n_events += n
        cats.append((k, cat, n))
        for ev in info:
            sigs = [x["s"] for x in ev["in"]]
            fn = sigs[0][:sigs[0].rindex("(")]
            i = index[k].get(fn)
            if i is None:
                continue
            rec = sets[i]
            mine = [x for x in ev["in"] if x["s"][:x["s"].rindex("(")] == fn]
            # spec sanity: signature spelling / order and get_type_sort keys are what Repro.tla says
            by_sig = sorted(mine, key=lambda x: x["s"])
            if len(by_sig) == len(rec["names"]):
                for x, nm, key in zip(by_sig, rec["names"], rec["keys"]):
                    want = "%s(%s)" % (fn, ", ".join(nm))
                    if x["s"] != want or x["k"][-len(nm):] != key[-len(nm):]:
                        raise MachineryError("Repro.tla category table disagrees with the H-sort hook: spec %s %s, "
                                             "hook %s %s" % (want, key, x["s"], x["k"]))
            perms.setdefault(i, set()).add(tuple(sigs))
    if n_events == 0:
        raise MachineryError("the H-sort hook recorded no Sort event (hook patch c14-hooks.diff not applied?)")

    def validate(a):
        k, cat, n = a
        if n == 0:
            return k, cat, "accepted", None
        st, r = tlc.validate_trace("ReproTrace", cat)
        if st != "accepted":
            st, r = tlc.validate_trace("ReproTrace", cat)     # report only what repeats
        return k, cat, st, r
    for k, cat, st, r in run.pmap(validate, cats, workers=8):
        if r is not None:
            ctx.cov["states"] += r.generated
            ctx.cov["transitions"] += r.generated
        if st != "accepted":
            lines = open(cat).read().split("\n")
            at = (r.stuck_at or 1)
            ev = json.loads(lines[at - 1]) if at - 1 < len(lines) and lines[at - 1] else {}
            ctx.violation("H-sort trace of library %d %s by ReproTrace at event %d: the set {%s} was emitted as %s, "
                          "an earlier run emitted the same set in another order" % (
                              k, st, at, "; ".join(sorted(x["s"] for x in ev.get("in", []))),
                              [x["s"] for x in ev.get("out", [])]),
                          dict(event=ev, earlier_events_of_the_same_set=[
                              json.loads(x) for x in lines[:at - 1]
                              if x.startswith('{"e":"Sort"') and ev and
                              sorted(y["s"] for y in json.loads(x)["in"]) == sorted(y["s"] for y in ev["in"])][:2],
                              tlc_tail=r.out[-1500:]))
    shuffled = [i for i, p in perms.items() if len(p) > 1]
    nontrivial = [i for i in shuffled if sets[i]["ties"]]
    ctx.notes["sort_events_validated"] = n_events
    ctx.notes["sets_reaching_sort"] = len(perms)
    ctx.notes["sets_seen_in_2+_heap_orders"] = len(shuffled)
    if perms and len(shuffled) * 2 < len(perms):
        raise MachineryError("the allocator shuffle changed the incoming order of only %d of %d sorted sets: "
                             "hidden input not exercised" % (len(shuffled), len(perms)))
    ctx.cov["distinct_nontrivial"] = len(nontrivial)
    ctx.cov["traces_validated_against_impl"] += n_cmp + n_events
    for rec in [r for r in sets if r["ties"]][:: max(1, n_ties // 4)][:4] + [r for r in sets if not r["ties"]][:2]:
        ctx.sample(dict(overloads=rec["names"], keys=rec["keys"], comparator_ties=rec["ties"],
                        emitted_order_with_tiebreak=rec["order"]))
