"""C06 — valid C++ is accepted and every printed type is the type that was written.

spec TypeTerm (declarator grammar: terms built inside-out one constructor per step; Render =
declarator text, Struct = the same type in type-trait combinators).  For every enumerated term
and each of three declaration forms (extern variable, typedef, function parameter):
  (0) spec sanity: g++ confirms Render denotes Struct (static_assert is_same) — else exit 2;
  (1) parse_file must accept the declaration (zero errors);
  (2) the text parse_file prints back for it, compiled by g++ in a side namespace, must have
      the same type as the original (decltype / is_same);
  (3) the prototype interrogate records in the database for the function form likewise.
Plus the corpus part: every shipped stub header that g++ accepts parses with zero errors;
the name-lookup part (spec NameLookup), the class-template instantiation part (spec TemplInst,
see _c06_templ.py) and the non-type template parameter part (spec TemplNonType, _c06_templnt.py)."""
import os, re, subprocess
from ..common import MachineryError, REPO
from .. import build, tlc, run, idb
from ._c06_templ import templ_inst
from ._c06_templnt import templ_nontype

DECLS = "struct S {};\nstruct V {};\nnamespace ns { struct K {}; struct V {}; }\ntemplate<class A1, class A2> struct Pair {};\ntemplate<class A1> struct Box {};\n"
PRELUDE = r'''#include <type_traits>
struct S {};
struct V {};
namespace ns { struct K {}; struct V {}; }
template<class A1, class A2> struct Pair {};
template<class A1> struct Box {};
template<class Rt, class... Ar> using CF = Rt(Ar...) const;
template<class T> using C = const T;
template<class T> using P = T *;
template<class T> using L = T &;
template<class T> using R = T &&;
template<class T> using M = T S::*;
template<class T, int N> using A = T[N];
template<class Rt, class... Ar> using F = Rt(Ar...);
'''
FORMS = ("v", "td", "fp", "us", "ta")
# us: alias-declaration  using us_n = <type-id>;   ta: template argument  extern Box<type-id> ta_n;


def decl(form, n, rec):
    name = "%s_%d" % (form, n)
    if form == "v":
        return "extern " + rec["v"].replace("@", name) + ";"
    if form == "td":
        return "typedef " + rec["v"].replace("@", name) + ";"
    if form == "us":
        return "using %s = %s;" % (name, abstract(rec))
    if form == "ta":
        return "extern Box< %s > %s;" % (abstract(rec), name)
    return "void %s(%s);" % (name, rec["v"].replace("@", "p").rstrip())


def abstract(rec):
    """the type-id (abstract declarator) of the term"""
    return " ".join(rec["v"].replace("@", "").split()).replace("( ", "(").replace(" )", ")")


def sanity_assert(form, n, rec):
    name = "%s_%d" % (form, n)
    if form == "v":
        return "static_assert(std::is_same<decltype(%s), %s>::value, \"%s\");" % (name, rec["s"], name)
    if form in ("td", "us"):
        return "static_assert(std::is_same<%s, %s>::value, \"%s\");" % (name, rec["s"], name)
    if form == "ta":
        return "static_assert(std::is_same<decltype(%s), Box< %s > >::value, \"%s\");" % (name, rec["s"], name)
    return "static_assert(std::is_same<decltype(%s), void(%s)>::value, \"%s\");" % (name, rec["s"], name)


def same_assert(form, n, ns):
    name = "%s_%d" % (form, n)
    if form in ("td", "us"):
        return "static_assert(std::is_same< ::%s, %s::%s>::value, \"%s\");" % (name, ns, name, name)
    return "static_assert(std::is_same<decltype(::%s), decltype(%s::%s)>::value, \"%s\");" % (name, ns, name, name)


def gen(k):
    return "fn" if (k.startswith("fn") or k.startswith("cfn")) else "arr" if k.startswith("arr") else k


def feats(form, sh):
    """coarse input features for triage statistics"""
    g = [gen(k) for k in sh[:-1]]
    pairs = sorted(set("%s>%s" % (a, b) for a, b in zip(g, g[1:]) if a in ("ptr", "ref", "rref", "mptr", "const") and b in ("arr", "fn", "mptr", "ptr")))
    return "%s outer=%s %s" % (form, g[0], pairs)


def class_base_paren(text):
    """input predicate: the class name S is immediately followed by a parenthesised declarator that
    starts with & / && , or starts with * and is followed by an array bound"""
    for m in re.finditer(r"(?:\bS|>) \(", text):
        i = m.end()
        if text.startswith("&", i):
            return True
        if text.startswith("*", i):
            depth, j = 1, i
            while j < len(text) and depth:
                depth += {"(": 1, ")": -1}.get(text[j], 0)
                j += 1
            if text.startswith("[", j):
                return True
    return False


def classes_of(form, sh, text=""):
    """finding classes from the INPUT (term shape, outermost constructor first; form; declaration text)"""
    out = []
    for i, k in enumerate(sh[:-1]):
        nxt = sh[i + 1]
        if k == "mptr" and not (nxt.startswith("fn") or nxt.startswith("cfn")):
            out.append("C06-data-member-pointer")
    if form == "fp" and (sh[0].startswith("fn") or sh[0].startswith("cfn")):
        out.append("C06-function-typed-parameter")
    if form in ("v", "td", "us", "ta") and class_base_paren(text):
        out.append("C06-paren-declarator-class-base")
    if form in ("us", "ta") and "(" in text:
        out.append("C06-typeid-paren-abstract-declarator")
    if sh[-1] in ("int long", "char unsigned"):
        out.append("C06-simple-specifier-order")
    return out


ENT = re.compile(r"\b(v|td|fp|us|ta)_(\d+)\b")
ERRLINE = re.compile(r"^[^:\s]+:(\d+):\d+: error", re.M)


def gxx_bad_lines(work, fn):
    r = subprocess.run(["g++", "-std=c++17", "-fsyntax-only", "-fmax-errors=0", "-w", fn], cwd=work,
                       stdout=subprocess.PIPE, stderr=subprocess.PIPE, text=True)
    if r.returncode == 0:
        return set(), ""
    return set(int(x) for x in ERRLINE.findall(r.stderr)), r.stderr


def run_check(ctx):
    build.ensure("hooked")
    tier = ctx.tier
    work = ctx.tmp
    dump = os.path.join(work, "terms.ndjson")
    res = tlc.run("TypeTermMC", "TypeTerm_" + tier, env={"VERIF_DUMP": dump}, timeout=1800)
    ctx.add_tlc(res)
    tlc.must_ok(res)
    terms = tlc.read_dump(dump)
    terms.sort(key=lambda r: (r["s"], r["e"]))
    cap = 6000 if tier == "quick" else 15000
    if len(terms) > cap:
        step = -(-len(terms) // cap)
        terms = terms[::step]
        ctx.notes["sampled"] = "every %d-th term of the sorted dump" % step
    open(os.path.join(work, "prelude.h"), "w").write(PRELUDE)
    ents = [(form, n) for n in range(len(terms)) for form in FORMS]
    D = {(f, n): decl(f, n, terms[n]) for f, n in ents}

    # (0) spec sanity against g++ --------------------------------------------------
    lines = ['#include "prelude.h"']
    for e in ents:
        lines.append(D[e])
    base = len(lines)
    for f, n in ents:
        lines.append(sanity_assert(f, n, terms[n]))
    open(os.path.join(work, "sanity.cxx"), "w").write("\n".join(lines) + "\n")
    bad, err = gxx_bad_lines(work, "sanity.cxx")
    if bad:
        ln = sorted(bad)[0]
        raise MachineryError("spec != g++: line %d: %s\n%s" % (ln, lines[ln - 1], err[:1500]))

    # (1) acceptance by parse_file, with batch isolation -------------------------------
    counter = [0]
    printed = {}

    def parse_group(g):
        counter[0] += 1
        fn = "p%05d.h" % counter[0]
        open(os.path.join(work, fn), "w").write(DECLS + "\n".join(D[e] for e in g) + "\n")
        r = run.run_tool("parse_file", [fn], cwd=work, timeout=120)
        ok = r.rc == 0 and not r.timed_out
        if ok:
            for line in r.stdout.splitlines():
                m = ENT.search(line)
                if m:
                    printed[(m.group(1), int(m.group(2)))] = line.strip()
        elif len(g) == 1:
            printed[g[0]] = ("ERROR", r.rc, r.signal, r.stderr.strip().split("\n")[0][:200])
        return ok

    chunks = [ents[i:i + 600] for i in range(0, len(ents), 600)]
    results = run.pmap(lambda c: run.isolate(c, parse_group), chunks)
    rejected = [e for _, b in results for e in b]
    accepted = [e for g, _ in results for grp in g for e in grp]
    for e in rejected:
        f, n = e
        info = printed.get(e)
        ctx.violation("valid declaration rejected by parse_file: %s   (%s)" % (D[e], info[3] if info else "?"),
                      dict(declaration=D[e], struct=terms[n]["s"], parse_file=info,
                           stat_key="reject " + feats(f, terms[n]["sh"])),
                      classes=classes_of(f, terms[n]["sh"], D[e]))

    # (2) printed text denotes the same type -----------------------------------------
    def compare(view, texts):
        """texts: entity -> printed declaration text.  Returns entities whose printed text differs."""
        todo = [e for e in accepted if e in texts]
        lines = ['#include "prelude.h"'] + [D[e] for e in todo] + ["namespace printed {", "using ::S; using ::V; using ::Pair; using ::Box;"]
        owner = {}
        for e in todo:
            lines.append(texts[e])
            owner[len(lines)] = e
        lines.append("}")
        for e in todo:
            lines.append(same_assert(e[0], e[1], "printed"))
            owner[len(lines)] = e
        fn = "cmp_%s.cxx" % view
        open(os.path.join(work, fn), "w").write("\n".join(lines) + "\n")
        badl, err = gxx_bad_lines(work, fn)
        bad_ents = set(owner[l] for l in badl if l in owner)
        if badl and not bad_ents:
            raise MachineryError("comparison TU (%s) fails outside any entity:\n%s" % (view, err[:1500]))
        # the remaining entities must compile cleanly together
        if bad_ents:
            keep = [e for e in todo if e not in bad_ents]
            lines2 = ['#include "prelude.h"'] + [D[e] for e in keep] + ["namespace printed {", "using ::S; using ::V; using ::Pair; using ::Box;"] + \
                     [texts[e] for e in keep] + ["}"] + [same_assert(e[0], e[1], "printed") for e in keep]
            open(os.path.join(work, "cmp2_%s.cxx" % view), "w").write("\n".join(lines2) + "\n")
            b2, err2 = gxx_bad_lines(work, "cmp2_%s.cxx" % view)
            if b2:
                raise MachineryError("comparison TU (%s) not clean after removing failing entities:\n%s" % (view, err2[:1500]))
        return todo, bad_ents

    texts = {e: printed[e] for e in accepted if isinstance(printed.get(e), str)}
    missing = [e for e in accepted if e not in texts]
    for e in missing:
        ctx.violation("parse_file accepted but did not print back %s" % D[e], dict(declaration=D[e], stat_key="missing"))
    todo, bad_ents = compare("parse_file", texts)
    for e in sorted(bad_ents):
        f, n = e
        ctx.violation("printed type differs from the type written: `%s` printed back as `%s`" % (D[e], texts[e]),
                      dict(declaration=D[e], printed=texts[e], struct=terms[n]["s"], view="parse_file",
                           stat_key="print " + feats(f, terms[n]["sh"])),
                      classes=classes_of(f, terms[n]["sh"], D[e]))
    n_cmp = len(todo)

    # (3) database prototypes of the function form --------------------------------------
    fps = [e for e in accepted if e[0] == "fp" and e not in bad_ents]
    protos = {}

    def interrogate_group(arg):
        gi, g = arg
        fn = "q%04d.h" % gi
        open(os.path.join(work, fn), "w").write(DECLS + "__begin_publish\n" + "\n".join(D[e] for e in g) + "\n__end_publish\n")
        r = run.run_tool("interrogate", ["-od", "q%04d.in" % gi, "-oc", "q%04d.cxx" % gi, "-module", "m", "-library",
                                         "l", "-c", "-fnames", fn], cwd=work, timeout=300)
        if r.rc != 0:
            return g, None, r.stderr[-500:]
        return g, idb.dump([os.path.join(work, "q%04d.in" % gi)]), ""
    groups = [fps[i:i + 800] for i in range(0, len(fps), 800)]
    for g, db, err in run.pmap(interrogate_group, list(enumerate(groups))):
        if db is None or "functions" not in db:
            ctx.violation("interrogate failed on declarations parse_file accepts: %s" % err[-200:], dict(n=len(g), stat_key="interrogate-fail"))
            continue
        for fn in db["functions"].values():
            m = ENT.search(fn["name"])
            if m:
                protos[(m.group(1), int(m.group(2)))] = fn["prototype"].strip()
    ptexts = {e: protos[e] for e in fps if e in protos}
    todo3, bad3 = compare("database", ptexts) if ptexts else ([], set())
    for e in sorted(bad3):
        f, n = e
        ctx.violation("database prototype differs from the declaration: `%s` recorded as `%s`" % (D[e], ptexts[e]),
                      dict(declaration=D[e], prototype=ptexts[e], view="database", stat_key="proto " + feats(f, terms[n]["sh"])),
                      classes=classes_of(f, terms[n]["sh"], D[e]))

    # corpus: shipped stub headers that g++ accepts must parse with zero errors -----------
    n_corpus = corpus(ctx, work)

    # name lookup: the entity a printed type name denotes ---------------------------------
    n_lookup = name_lookup(ctx, work)

    # class-template instantiation: the type a member of an instantiation denotes ---------
    n_templ = templ_inst(ctx, work)

    # non-type template parameters: array bounds, expression arguments, named constants, default chains
    n_templ += templ_nontype(ctx, work)

    # how exact are the finding predicates?  members of each class vs. members that actually failed
    failed = set(rejected) | bad_ents | bad3
    prec = {}
    for f, n in ents:
        for c in classes_of(f, terms[n]["sh"], D[(f, n)]):
            m = prec.setdefault(c, [0, 0])
            m[1] += 1
            m[0] += (f, n) in failed
            if (f, n) not in failed and os.environ.get("VERIF_STATS") and m[1] - m[0] <= 12:
                print("PASSING-MEMBER", c, D[(f, n)])
    ctx.notes.setdefault("finding_class_failed_of_members", {}).update(prec)
    ctx.cov["evaluations"] = len(ents)
    ctx.cov["traces_validated_against_impl"] = n_cmp + len(todo3) + len(rejected) + n_corpus + n_lookup + n_templ
    ctx.notes["lookup_programs"] = n_lookup
    ctx.cov["distinct_nontrivial"] = len(set(t["s"] for t in terms if len(t["sh"]) > 2))
    ctx.cov["exhaustive"] = "sampled" not in ctx.notes
    ctx.cov["rule"] = ("TLC enumerates every well-formed type term up to MaxDepth constructors over 4 base types and both cv "
                       "placements; each is declared as extern variable, typedef and parameter; non-trivial = at least two "
                       "constructors; distinct = distinct structural type")
    ctx.notes.update(terms=len(terms), accepted=len(accepted), rejected=len(rejected), compared_parse_file=n_cmp,
                     compared_database=len(todo3), corpus_headers=n_corpus)
    for n in range(0, len(terms), max(1, len(terms) // 5)):
        ctx.sample(dict(declaration=D[("v", n)], struct=terms[n]["s"], printed=texts.get(("v", n))))


def corpus(ctx, work):
    pinc = os.path.join(REPO, "parser-inc")
    hdrs = []
    for root, _, fs in os.walk(pinc):
        for f in fs:
            hdrs.append(os.path.join(root, f))
    hdrs.sort()

    def one(h):
        g = subprocess.run(["g++", "-std=c++17", "-fsyntax-only", "-w", "-x", "c++", "-nostdinc", "-nostdinc++",
                            "-I", pinc, h], stdout=subprocess.PIPE, stderr=subprocess.PIPE, text=True)
        if g.returncode != 0:
            return None       # not valid C++ on its own (stubs often are not): outside the domain
        r = run.run_tool("parse_file", ["-S", pinc, h], cwd=work, timeout=120)
        return h, r
    n = 0
    for res in run.pmap(one, hdrs):
        if res is None:
            continue
        n += 1
        h, r = res
        if r.rc != 0 or r.timed_out:
            ctx.violation("stub header accepted by g++ is rejected by parse_file: %s" % os.path.relpath(h, REPO),
                          dict(header=h, stderr=r.stderr[-800:], stat_key="corpus"))
    return n + syntax_probes(ctx, work)


# small valid translation units in shapes met while working on other properties ("every translation unit in the supported
# subset ... parses with zero errors"); g++ must accept each (else exit 2); (id, text, finding class or None = must parse)
SYNTAX_PROBES = [
    ("trailing-return-virt-specifier", "struct A { virtual void f(); };\nstruct B : A { auto f() -> void override; };\n",
     "C06-trailing-return-virt-specifier"),
    ("trailing-return-plain", "struct A { virtual void f(); virtual int g() const; };\n"
                              "struct B : A { auto f() -> void; auto g() const -> int; };\nauto h(int x) -> int;\n", None),
    ("mem-initializer-nested-braces", "struct G { G() : g{{1, 2}, {3, 4}} {} const int g[2][2]; };\n", "C06-mem-initializer-nested-braces"),
    ("mem-initializer-braces", "struct G { G() : a{1, 2}, b{3} {} const int a[2]; int b; };\n", None),
    ("directive-after-comment", "/* c */ #define Q 1\n/* a\n b */ #define R 2\nint q = Q + R;\n", None),
    ("cpp-comment-splice", "// c \\\nthis line is a comment;\nint shown;\n", None),
    ("multi-character-literal", "enum E { e = 'ab', f = 'a' };\n", None),
    ("const-array-members", "struct S { S(); const int tab[3]; const char name[8]; int ok[2]; };\n", None),
    ("typedef-of-simple-types", "typedef int PInt; typedef const int CInt;\nstruct T { T(); PInt a; CInt b; int f(PInt x, CInt y) const; };\n", None),
]


def syntax_probes(ctx, work):
    d = os.path.join(work, "syntax")
    os.makedirs(d, exist_ok=True)
    n = 0
    for pid, text, fid in SYNTAX_PROBES:
        fn = os.path.join(d, pid.replace("-", "_") + ".h")
        open(fn, "w").write(text)
        g = subprocess.run(["g++", "-std=c++17", "-fsyntax-only", "-w", "-x", "c++", fn], stdout=subprocess.PIPE, stderr=subprocess.PIPE, text=True)
        if g.returncode != 0:
            raise MachineryError("syntax probe %s is not valid C++:\n%s" % (pid, g.stderr[-600:]))
        r = run.run_tool("parse_file", [fn], cwd=d, timeout=60)
        n += 1
        if r.rc != 0 or r.timed_out:
            ctx.violation("syntax probe %s, accepted by g++, is rejected by parse_file: %s" % (pid, (r.stderr.strip().split("\n") or [""])[0][:200]),
                          dict(probe=pid, text=text, stderr=r.stderr[-800:], stat_key="syntax"), classes=[fid] if fid else [])
    return n


# ------------------------------------------------------------------------------------------
# NameLookup: programs over the namespace tree  :: > A > B,  :: > N
QUAL = {1: "", 2: "::A", 3: "::A::B", 4: "::N", 5: "::C", 6: "::A::D"}
OPEN = {1: ("", ""), 2: ("namespace A { ", " }"), 3: ("namespace A { namespace B { ", " } }"), 4: ("namespace N { ", " }"),
        5: ("struct C { ", " };"), 6: ("namespace A { struct D { ", " }; }")}
HELPER = """template<class X> struct P1;
template<class X> struct P1<void(X *)> { static const int id = X::id; };
template<class K, class X> struct P1<void (K::*)(X *)> { static const int id = X::id; };
"""


def render_lookup(n, rec):
    """Namespaces can be reopened, classes cannot: a class (scope 5, 6) is written once — where its nested T
    is declared, or at the end when the referencing member function lives in it (then with its nested T)."""
    root = "::c%d" % n
    out = ["namespace c%d {" % n, "namespace A { namespace B {} } namespace N {}"]
    rs = rec["rs"]
    sp = rec["sp"]
    if sp == "::T":
        sp = root + "::T"
    held = {}                     # class scope -> text of its nested declaration, when the ref lives in that class
    for it in rec["items"]:
        o, c = OPEN[it["s"]]
        if it["k"] == "decl":
            body = "struct T { static const int id = %d; };" % it["e"]
            if it["s"] in (5, 6) and it["s"] == rs:
                held[it["s"]] = body
                continue
        elif it["k"] == "udecl":
            body = "using %s%s::T;" % (root, QUAL[it["q"]])
        elif it["k"] == "udir":
            body = "using namespace %s%s;" % (root, QUAL[it["q"]])
        else:
            body = "namespace AL = %s%s;" % (root, QUAL[it["q"]])
        out.append(o + body + c)
    o, c = OPEN[rs]
    member = "void use(%s *p);" % sp
    out.append(o + (held.get(rs, "") + " " if rs in held else "") + member + c)
    out.append("}")
    return out


def lookup_assert(n, rec):
    amp = "&" if rec["rs"] in (5, 6) else ""
    return 'static_assert(P1<decltype(%sc%d%s::use)>::id == %d, "c%d");' % (amp, n, QUAL[rec["rs"]], rec["r"], n)


def name_lookup(ctx, work):
    dump = os.path.join(work, "lookup.ndjson")
    res = tlc.run("NameLookupMC", "NameLookup_" + ctx.tier, env={"VERIF_DUMP": dump}, timeout=1800, workers=8)
    ctx.add_tlc(res)
    tlc.must_ok(res)
    progs = tlc.read_dump(dump)
    progs.sort(key=lambda r: repr(sorted(r.items())))
    cap = 16000 if ctx.tier == "quick" else 40000
    if len(progs) > cap:
        step = -(-len(progs) // cap)
        progs = progs[::step]
        ctx.notes["lookup_sampled"] = "every %d-th program of the sorted dump" % step
    B = 1000
    batches = [list(enumerate(progs))[i:i + B] for i in range(0, len(progs), B)]

    def one(arg):
        bi, batch = arg
        src = []
        for n, rec in batch:
            src += render_lookup(n, rec)
        hdr = "nl%03d.h" % bi
        open(os.path.join(work, hdr), "w").write("\n".join(src) + "\n")
        asserts = [lookup_assert(n, rec) for n, rec in batch]
        # spec sanity: g++ on the original text
        open(os.path.join(work, "nl%03d_orig.cxx" % bi), "w").write('#include "%s"\n%s%s\n' % (hdr, HELPER, "\n".join(asserts)))
        bad, err = gxx_bad_lines(work, "nl%03d_orig.cxx" % bi)
        if bad:
            return ("sanity", err[:1500], None)
        # acceptance, with batch isolation: a rejected program must not hide the others
        outs, rejected = [], []
        cnt = [0]

        def accept(group):
            cnt[0] += 1
            fn = "nl%03d_g%04d.h" % (bi, cnt[0])
            src2 = []
            for n, rec in group:
                src2 += render_lookup(n, rec)
            open(os.path.join(work, fn), "w").write("\n".join(src2) + "\n")
            rr = run.run_tool("parse_file", [fn], cwd=work, timeout=600)
            ok = rr.rc == 0 and not rr.timed_out
            if ok:
                outs.append(rr.stdout)
            elif len(group) == 1:
                rejected.append((group[0][0], "rc=%s signal=%s timeout=%s %s" % (rr.rc, rr.signal, rr.timed_out, rr.stderr.strip()[-300:])))
            return ok
        run.isolate(batch, accept, max_singletons=50)

        class _R:
            pass
        r = _R()
        r.stdout = "\n".join(outs)
        rej_ids = set(n for n, _ in rejected)
        batch = [(n, rec) for n, rec in batch if n not in rej_ids]
        # parse_file's dump of reopened namespaces is not itself compilable; what is compared is the
        # (fully scoped) type name printed in each `use` declaration, evaluated by g++ at global scope
        cur, names = None, {}
        for line in r.stdout.split("\n"):
            m = re.match(r"namespace c(\d+) \{", line)
            if m:
                cur = int(m.group(1))
            m = re.search(r"void use\((.*) \*p\);", line)
            if m and cur is not None:
                names.setdefault(cur, set()).add(m.group(1).strip())
        lines = ['#include "%s"' % hdr]
        owner = {}
        bad_cases = {}
        for n, rec in batch:
            got = names.get(n, set())
            if len(got) != 1:
                bad_cases[n] = sorted(got)
                continue
            lines.append('static_assert(%s::id == %d, "c%d");' % (list(got)[0], rec["r"], n))
            owner[len(lines)] = n
        open(os.path.join(work, "nl%03d_printed.cxx" % bi), "w").write("\n".join(lines) + "\n")
        badl, err = gxx_bad_lines(work, "nl%03d_printed.cxx" % bi)
        for l in badl:
            if l in owner:
                bad_cases[owner[l]] = sorted(names[owner[l]])
            else:
                return ("sanity", "printed-name TU fails outside any case:\n" + err[:1500], None)
        return ("ok", bad_cases, batch, rejected, dict(arg[1]))

    total = 0
    for res in run.pmap(one, list(enumerate(batches))):
        kind = res[0]
        if kind == "sanity":
            raise MachineryError("NameLookup spec != g++: %s" % res[1])
        if kind == "reject":
            ctx.violation("parse_file rejects a batch of valid namespace programs: %s" % res[1][-300:], dict(stat_key="lookup-reject"))
            continue
        batch = res[2]
        total += len(batch) + len(res[3])
        byn = res[4]
        for n, info in res[3]:
            rec = byn[n]
            ctx.violation("valid namespace program rejected by parse_file (%s): %s" % (info, " ".join(render_lookup(n, rec)[2:])),
                          dict(program=render_lookup(n, rec), info=info,
                               stat_key="lookup-reject %s %s" % (rec["sp"], sorted(set(i["k"] for i in rec["items"])))),
                          classes=(["C06-using-declaration-ignored"] if rec["ud"] else []) +
                                  (["C06-using-directive-placement"] if rec["up"] else []))
        for n, printed in sorted(res[1].items()):
            rec = byn[n]
            ctx.violation("printed name denotes another entity: %s  is printed as %s (spec = g++: entity %d)" % (
                " ".join(render_lookup(n, rec)[2:]), printed, rec["r"]),
                dict(program=render_lookup(n, rec), printed=printed, expected=rec["r"],
                     stat_key="lookup %s from %s %s" % (rec["sp"], rec["rs"], sorted(set(i["k"] for i in rec["items"])))),
                classes=(["C06-using-declaration-ignored"] if rec["ud"] else []) +
                        (["C06-using-directive-placement"] if rec["up"] else []))
        ctx.notes.setdefault("finding_class_failed_of_members", {})
        for cid, key in (("C06-using-declaration-ignored", "ud"), ("C06-using-directive-placement", "up")):
            m = ctx.notes["finding_class_failed_of_members"].setdefault(cid, [0, 0])
            m[1] += sum(1 for n, rec in batch if rec[key])
            m[0] += sum(1 for n in res[1] if byn[n][key])
    return total
