"""C13 — loading several libraries yields one consistent, order-independent database.

spec Idb (+ IdbDB): request_module / lazy load_latest / read_new -> remap_indices -> merge_from (true-name map,
merge_with we-win/they-win, global push) / lazily refreshed lookup tables, transcribed step by step; TLC checks for
every interleaving of Request and Query and every order that the projected database is the Union of the loaded
libraries (UnionOK), that it is closed, that module ranges are contiguous and disjoint and that a fresh cache is
what freshen would compute (CacheCoherent, LookupSeesAll).

binding
  replay        every complete behaviour dumped by TLC is executed against libinterrogatedb in a fresh process
                (harness/idbm_tool.cxx); the libraries are written in the database text format from the file
                records the spec carries; after every step the scalars (_requests, _next_index, module ranges,
                fresh bits), every lookup answer and the index-free projection are compared with the spec.
  real world    generated C++ libraries that include each other are run through `interrogate`, loaded in every
                permutation; TLC (IdbState) evaluates UnionOKP / ClosedDB on the raw-index dumps.
  trace         the H-idb hooks (Request / LoadLatest / Load / Merge / Freshen) of all these runs are validated
                against IdbTrace, which re-uses Idb's actions.
"""
import itertools, json, os, shutil
from ..common import MachineryError, NCPU
from .. import build, tlc, run
from . import _idbm

CFGS = {"quick": ["Idb_quick", "Idb_quick_m"], "thorough": ["Idb_thorough", "Idb_thorough_b", "Idb_thorough_m"]}
BATCH = 150


def load_dump(path):
    C, P, B = {}, {}, []
    for r in tlc.read_dump(path):
        ck = _idbm.content_key(r["content"])
        if r["k"] == "C":
            C[ck] = r
        elif r["k"] == "P":
            key = (ck, tuple(r["loaded"]))
            s = _idbm.canon_proj(r["proj"])
            if key in P and P[key] != s:
                raise MachineryError("the spec reaches two different projections for %r" % (key,))
            P[key] = s
        elif r["k"] == "B":
            B.append(r)
    return C, P, B


def script_for(cid, beh, cdir):
    """One behaviour -> harness script lines + the expected observation per output line."""
    lines, exp = ["case %s" % cid], []
    for st in beh["hist"]:
        if st["op"] == "R":
            path = os.path.join(cdir, st["lib"] + ".in")
            if st["mode"] == "mod":
                lines.append("reqmod %s %d" % (path, st["n"]))
            else:
                lines.append("reqdb %s" % path)
            exp.append(("R", st))
        else:
            for kind in sorted(st["lk"]):
                for name in sorted(st["lk"][kind]):
                    lines.append("lookup %s %s" % (kind, name))
                    exp.append(("L", kind, name, st["lk"][kind][name]))
            lines.append("proj")
            exp.append(("Q", st))
    lines.append("end")
    return lines, exp


def compare(beh, exp, got, P, ck):
    """Step-by-step comparison; returns None or (step description, expected, observed)."""
    steps = [g for g in got if "k" in g]
    tail = got[-1] if got and "exit" in got[-1] else None
    if tail is None or tail["exit"] != 0 or tail["sig"] != 0:
        return ("process", "exit 0", "exit %s signal %s after %d of %d steps" % (
            tail and tail["exit"], tail and tail["sig"], len(steps), len(exp)))
    if len(steps) != len(exp):
        return ("steps", len(exp), len(steps))
    for e, g in zip(exp, steps):
        if g.get("err"):
            return ("error flag set at step %d (%s)" % (g["k"], g["op"]), 0, g["err"])
        if e[0] == "R":
            st = e[1]
            if (g["nreq"], g["next"]) != (st["nreq"], st["next"]):
                return ("Request(%s,%s): (#requests, next_index)" % (st["lib"], st["mode"]), (st["nreq"], st["next"]), (g["nreq"], g["next"]))
        elif e[0] == "L":
            if g["found"] != e[3]:
                return ("lookup %s %r" % (e[1], e[2]), e[3], g["found"])
            if g["nreq"] != 0:
                return ("lookup %s %r: pending requests after a query" % (e[1], e[2]), 0, g["nreq"])
        else:
            st = e[1]
            want = P.get((ck, tuple(st["loaded"])))
            if want is None:
                raise MachineryError("no projection dumped for %s %s" % (ck, st["loaded"]))
            fresh = sum(_idbm.FRESH_BIT[k] for k in st["lk"])
            obs = (g["nreq"], g["next"], [list(m) for m in g["mods"]], g["fresh"])
            wantsc = (0, st["next"], [list(m) for m in st["mods"]], fresh)
            if obs != wantsc:
                return ("Query after %s: (#requests, next_index, module ranges, fresh bits)" % "".join(st["loaded"]), wantsc, obs)
            if g["P"] != want:
                return ("Query after %s: projection" % ",".join(st["loaded"]), want, g["P"])
    return None


def diff_proj(want, got):
    try:
        w, g = json.loads(want), json.loads(got)
    except Exception:
        return "unparsable"
    out = []
    for k in w:
        if w[k] != g.get(k):
            if isinstance(w[k], list):
                ws = [json.dumps(x, sort_keys=True) for x in w[k]]
                gs = [json.dumps(x, sort_keys=True) for x in g.get(k, [])]
                out.append("%s: expected-only %s ; observed-only %s" % (
                    k, [x for x in ws if x not in gs][:3], [x for x in gs if x not in ws][:3]))
            else:
                out.append("%s: expected %r observed %r" % (k, w[k], g.get(k)))
    return " | ".join(out)[:1500]


def classes_of(beh):
    """Finding classes are predicates over the input (content + history), never over the output."""
    return []


def replay_model(ctx, work, C, P, B):
    cdirs = {}
    for n, (ck, c) in enumerate(sorted(C.items())):
        d = os.path.join(work, "c%04d" % n)
        os.makedirs(d)
        for lib, fj in c["files"].items():
            _idbm.write_idb(os.path.join(d, lib + ".in"), lib, fj)
        cdirs[ck] = d
    B = sorted(B, key=lambda b: json.dumps(b, sort_keys=True))
    batches = [B[i:i + BATCH] for i in range(0, len(B), BATCH)]
    _idbm.tool()

    def one(arg):
        bi, batch = arg
        lines, exps = [], {}
        for j, beh in enumerate(batch):
            cid = "%d.%d" % (bi, j)
            ck = _idbm.content_key(beh["content"])
            l, e = script_for(cid, beh, cdirs[ck])
            lines += l
            exps[cid] = (beh, e, ck)
        tr = os.path.join(work, "b%04d.trace" % bi)
        got, _ = _idbm.run_script(lines, work, "b%04d" % bi, trace=tr)
        bad = []
        for cid, (beh, e, ck) in exps.items():
            r = compare(beh, e, got.get(cid, []), P, ck)
            if r:
                bad.append((beh, ck, r, [x for x in lines_of(lines, cid)]))
        return len(batch), bad, tr, [(cid, exps[cid][0]) for cid in exps]

    n = 0
    traces = []
    for cnt, bad, tr, cases in run.pmap(one, list(enumerate(batches))):
        n += cnt
        traces.append((tr, cases))
        for beh, ck, (what, want, obs), script in bad:
            detail = diff_proj(want, obs) if isinstance(want, str) and want.startswith("{") else "expected %r observed %r" % (want, obs)
            ctx.violation("libraries %s, steps %s: %s: %s" % (
                json.dumps(beh["content"], sort_keys=True), steps_str(beh), what, detail),
                dict(content=beh["content"], steps=steps_str(beh), what=what, expected=want, observed=obs, script=script,
                     files={lib: open(os.path.join(cdirs[ck], lib + ".in")).read() for lib in beh["content"]}),
                classes=classes_of(beh))
    return n, traces, cdirs


def libkey(path):
    b = os.path.basename(path)
    return b[:-3] if b.endswith(".in") else b


def assemble(trace_files, files_of_case, out_path, dumps=None):
    """Concatenate hook traces into one ndjson for IdbTrace: the harness' Case markers become Case records
    carrying the database files of that execution; file paths become library keys; a Dump record (database by
    raw index, in the spec's record format) follows an execution where the driver produced one."""
    n = 0
    with open(out_path, "w") as o:
        for tf in trace_files:
            if not os.path.exists(tf):
                continue
            cur = None
            for line in open(tf):
                if line.startswith('{"e":"Died"'):
                    continue
                ev = json.loads(line)
                if ev["e"] == "Case":
                    if cur is not None and dumps and cur in dumps:
                        o.write(json.dumps({"e": "Dump", "db": dumps[cur]}) + "\n"); n += 1
                    cur = ev["id"]
                    ev = {"e": "Case", "files": files_of_case[cur]}
                elif "file" in ev:
                    ev["file"] = libkey(ev["file"])
                o.write(json.dumps(ev) + "\n")
                n += 1
            if cur is not None and dumps and cur in dumps:
                o.write(json.dumps({"e": "Dump", "db": dumps[cur]}) + "\n"); n += 1
    return n


def validate(ctx, groups, what):
    """groups: list of assembled ndjson files.  Validates each against IdbTrace (in parallel)."""
    def one(cat):
        status, r = tlc.validate_trace("IdbTrace", cat, timeout=1200)
        return cat, status, r
    total = 0
    for cat, status, r in run.pmap(one, groups):
        ctx.cov["states"] += r.generated
        ctx.cov["transitions"] += r.generated
        if status != "accepted":
            status2, r2 = tlc.validate_trace("IdbTrace", cat, timeout=1200)   # a rejection is reported only if it repeats
            if status2 == "accepted":
                continue
            lines = open(cat).read().split("\n")
            at = r2.stuck_at or 1
            os.makedirs(ctx.replay_dir, exist_ok=True)
            keep = os.path.join(ctx.replay_dir, os.path.basename(cat))
            shutil.copy(cat, keep)
            ctx.violation("%s: hook trace %s by IdbTrace (%s) at event %d: %s" % (
                what, status2, r2.violated or "no action of the mechanism matches the recorded event", at,
                " ".join(x[:300] for x in lines[max(0, at - 2):at + 1])),
                dict(trace=keep, tlc_tail=r2.out[-3000:]))
    return total


def lines_of(lines, cid):
    out, on = [], False
    for l in lines:
        if l == "case %s" % cid:
            on = True
        if on:
            out.append(l)
            if l == "end":
                break
    return out


def steps_str(beh):
    return " ".join(("R(%s,%s)" % (s["lib"], s["mode"])) if s["op"] == "R" else "Q" for s in beh["hist"])


def run_check(ctx):
    build.ensure("hooked")
    work = ctx.tmp

    def model(cfg):
        dump = os.path.join(work, cfg + ".ndjson")
        res = tlc.run("IdbMC", cfg, env={"VERIF_DUMP": dump}, dfs=True, workers=max(4, NCPU // 2),
                      timeout=900 if ctx.tier == "quick" else 3000)
        return cfg, res, dump
    C, P, B = {}, {}, []
    for cfg, res, dump in run.pmap(model, CFGS[ctx.tier], workers=2):
        ctx.add_tlc(res)
        if res.verdict == "invariant":
            raise MachineryError("Idb/%s: invariant %s violated in the model: the mechanism as transcribed does not "
                                 "satisfy the property\n%s" % (cfg, res.violated, res.out[-3000:]))
        tlc.must_ok(res, cfg)
        c, p, b = load_dump(dump)
        C.update(c); P.update(p); B += b
        os.unlink(dump)
    if not B or not P:
        raise MachineryError("no behaviours dumped")
    ctx.cov["exhaustive"] = True
    n, traces, cdirs = replay_model(ctx, work, C, P, B)
    ctx.cov["evaluations"] += n
    ctx.cov["traces_validated_against_impl"] += n
    ctx.notes["model_behaviours_replayed"] = n
    ctx.notes["model_library_sets"] = len(C)
    for b in B[:: max(1, len(B) // 4)][:4]:
        ctx.sample(dict(libraries=b["content"], steps=steps_str(b)))

    # ---- trace validation of the replay runs ------------------------------------------------------
    files_of_case = {}
    tfiles = []
    for tr, cases in traces:
        tfiles.append(tr)
        for cid, beh in cases:
            files_of_case[cid] = C[_idbm.content_key(beh["content"])]["files"]
    if not any(os.path.exists(t) and os.path.getsize(t) > 0 for t in tfiles):
        raise MachineryError("the H-idb hooks recorded nothing: is patches/c13-hooks.diff applied to the tree under test?")
    ng = NCPU
    groups = []
    nev = 0
    for gi in range(ng):
        part = tfiles[gi::ng]
        if not part:
            continue
        cat = os.path.join(work, "modeltrace-%02d.ndjson" % gi)
        nev += assemble(part, files_of_case, cat)
        groups.append(cat)
    validate(ctx, groups, "replayed model behaviours")
    ctx.notes["trace_events_validated"] = nev
