"""C13 — loading several libraries yields one consistent, order-independent database.

spec Idb (+ IdbDB): request_module / lazy load_latest / read_new -> remap_indices -> merge_from (true-name map,
merge_with we-win/they-win, global push) / lazily refreshed lookup tables, transcribed step by step; TLC checks for
every interleaving of Request and Query and every order that the projected database is the Union of the loaded
libraries (UnionOK), that it is closed, that module ranges are contiguous and disjoint and that a fresh cache is
what freshen would compute (CacheCoherent, LookupSeesAll).

binding
  replay        every complete behaviour dumped by TLC is executed against libinterrogatedb in a fresh process
                (harness/idbm_tool.cxx); the libraries are written in the database text format from the file
                records the spec carries; after every step the scalars (_requests, _next_index, module ranges,
                fresh bits), every lookup answer and the index-free projection are compared with the spec.
  real world    generated C++ libraries that include each other are run through `interrogate`, loaded in every
                permutation; TLC (IdbState) evaluates UnionOKP / ClosedDB on the raw-index dumps.
  trace         the H-idb hooks (Request / LoadLatest / Load / Merge / Freshen) of all these runs are validated
                against IdbTrace, which re-uses Idb's actions.
"""
import itertools, json, os, shutil
from ..common import MachineryError, NCPU
from .. import build, tlc, run
from . import _idbm

CFGS = {"quick": ["Idb_quick", "Idb_quick_m", "Idb_quick_f"],
        "thorough": ["Idb_thorough", "Idb_thorough_b", "Idb_thorough_m", "Idb_thorough_f"]}
# Idb_quick   : 3 libraries x 2 type names, every content, database-mode requests, every order and query pattern
# Idb_quick_m : both request modes freely mixed (e.g. module, database, module all pending before one query)
# Idb_quick_f : as _m, with empty, missing and out-of-date files anywhere in the history
BATCH = 150


def load_dump(path):
    C, P, B = {}, {}, []
    for r in tlc.read_dump(path):
        ck = _idbm.content_key(r["content"])
        if r["k"] == "C":
            C[ck] = r
        elif r["k"] == "P":
            key = (ck, tuple(r["loaded"]))
            s = _idbm.canon_proj(r["proj"])
            if key in P and P[key] != s:
                raise MachineryError("the spec reaches two different projections for %r" % (key,))
            P[key] = s
        elif r["k"] == "B":
            B.append(r)
    return C, P, B


def script_for(cid, beh, cdir):
    """One behaviour -> harness script lines + the expected observation per output line."""
    lines, exp = ["case %s" % cid], []
    for st in beh["hist"]:
        if st["op"] == "R":
            path = os.path.join(cdir, st["lib"] + (".missing.in" if st["bad"] == "missing" else ".in"))
            if st["mode"] == "mod":
                lines.append("reqmod %s %d" % (path, st["n"]))
            else:
                lines.append("reqdb %s" % path)
            exp.append(("R", st))
        else:
            for kind in sorted(st["lk"]):
                for name in sorted(st["lk"][kind]):
                    lines.append("lookup %s %s" % (kind, name))
                    exp.append(("L", kind, name, st["lk"][kind][name], st["err"]))
            lines.append("proj")
            exp.append(("Q", st))
    lines.append("end")
    return lines, exp


def compare(beh, exp, got, P, ck):
    """Step-by-step comparison; returns None or (step description, expected, observed)."""
    steps = [g for g in got if "k" in g]
    tail = got[-1] if got and "exit" in got[-1] else None
    if tail is None or tail["exit"] != 0 or tail["sig"] != 0:
        return ("process", "exit 0", "exit %s signal %s after %d of %d steps" % (
            tail and tail["exit"], tail and tail["sig"], len(steps), len(exp)))
    if len(steps) != len(exp):
        return ("steps", len(exp), len(steps))
    for e, g in zip(exp, steps):
        if e[0] == "R":
            st = e[1]
            if g["err"] != (1 if st["err"] else 0):
                return ("Request(%s,%s): error flag" % (st["lib"], st["mode"]), st["err"], g["err"])
            if (g["nreq"], g["next"]) != (st["nreq"], st["next"]):
                return ("Request(%s,%s): (#requests, next_index)" % (st["lib"], st["mode"]), (st["nreq"], st["next"]), (g["nreq"], g["next"]))
        elif e[0] == "L":
            if g["err"] != (1 if e[4] else 0):
                return ("lookup %s %r: error flag" % (e[1], e[2]), e[4], g["err"])
            if g["found"] != e[3]:
                return ("lookup %s %r" % (e[1], e[2]), e[3], g["found"])
            if g["nreq"] != 0:
                return ("lookup %s %r: pending requests after a query" % (e[1], e[2]), 0, g["nreq"])
        else:
            st = e[1]
            want = P.get((ck, tuple(st["loaded"])))
            if want is None:
                raise MachineryError("no projection dumped for %s %s" % (ck, st["loaded"]))
            fresh = sum(_idbm.FRESH_BIT[k] for k in st["lk"])
            obs = (g["nreq"], g["next"], [list(m) for m in g["mods"]], g["fresh"], g["err"])
            wantsc = (0, st["next"], [list(m) for m in st["mods"]], fresh, 1 if st["err"] else 0)
            if obs != wantsc:
                return ("Query after %s: (#requests, next_index, module ranges, fresh bits, error flag)" % "".join(st["loaded"]), wantsc, obs)
            if g["P"] != want:
                return ("Query after %s: projection" % ",".join(st["loaded"]), want, g["P"])
    return None


def diff_proj(want, got):
    try:
        w, g = json.loads(want), json.loads(got)
    except Exception:
        return "unparsable"
    out = []
    for k in w:
        if w[k] != g.get(k):
            if isinstance(w[k], list):
                ws = [json.dumps(x, sort_keys=True) for x in w[k]]
                gs = [json.dumps(x, sort_keys=True) for x in g.get(k, [])]
                out.append("%s: expected-only %s ; observed-only %s" % (
                    k, [x for x in ws if x not in gs][:3], [x for x in gs if x not in ws][:3]))
            else:
                out.append("%s: expected %r observed %r" % (k, w[k], g.get(k)))
    return " | ".join(out)[:1500]


def classes_of(beh):
    """Finding classes are predicates over the input (content + history), never over the output."""
    return []


def replay_model(ctx, work, C, P, B):
    cdirs = {}
    for n, (ck, c) in enumerate(sorted(C.items())):
        d = os.path.join(work, "c%04d" % n)
        os.makedirs(d)
        for lib, fj in c["files"].items():
            if c["content"][lib][-1] != "missing":
                _idbm.write_idb(os.path.join(d, lib + ".in"), lib, fj)
        cdirs[ck] = d
    B = sorted(B, key=lambda b: json.dumps(b, sort_keys=True))
    batches = [B[i:i + BATCH] for i in range(0, len(B), BATCH)]
    _idbm.tool()

    def one(arg):
        bi, batch = arg
        lines, exps = [], {}
        for j, beh in enumerate(batch):
            cid = "%d.%d" % (bi, j)
            ck = _idbm.content_key(beh["content"])
            l, e = script_for(cid, beh, cdirs[ck])
            lines += l
            exps[cid] = (beh, e, ck)
        tr = os.path.join(work, "b%04d.trace" % bi)
        got, _ = _idbm.run_script(lines, work, "b%04d" % bi, trace=tr)
        bad = []
        for cid, (beh, e, ck) in exps.items():
            r = compare(beh, e, got.get(cid, []), P, ck)
            if r:
                bad.append((beh, ck, r, [x for x in lines_of(lines, cid)]))
        return len(batch), bad, tr, [(cid, exps[cid][0]) for cid in exps]

    n = 0
    traces = []
    for cnt, bad, tr, cases in run.pmap(one, list(enumerate(batches))):
        n += cnt
        traces.append((tr, cases))
        for beh, ck, (what, want, obs), script in bad:
            detail = diff_proj(want, obs) if isinstance(want, str) and want.startswith("{") else "expected %r observed %r" % (want, obs)
            ctx.violation("libraries %s, steps %s: %s: %s" % (
                json.dumps(beh["content"], sort_keys=True), steps_str(beh), what, detail),
                dict(content=beh["content"], steps=steps_str(beh), what=what, expected=want, observed=obs, script=script,
                     files={lib: open(os.path.join(cdirs[ck], lib + ".in")).read() for lib in beh["content"]
                            if os.path.exists(os.path.join(cdirs[ck], lib + ".in"))}),
                classes=classes_of(beh))
    return n, traces, cdirs


def libkey(path):
    b = os.path.basename(path)
    b = b[:-3] if b.endswith(".in") else b
    return b[:-8] if b.endswith(".missing") else b


def assemble(trace_files, files_of_case, out_path, dumps=None, bad_of_case=None):
    """Concatenate hook traces into one ndjson for IdbTrace: the harness' Case markers become Case records
    carrying the database files of that execution; file paths become library keys; a Dump record (database by
    raw index, in the spec's record format) follows an execution where the driver produced one."""
    n = 0
    with open(out_path, "w") as o:
        for tf in trace_files:
            if not os.path.exists(tf):
                continue
            cur = None
            for line in open(tf):
                if line.startswith('{"e":"Died"'):
                    continue
                ev = json.loads(line)
                if ev["e"] == "Case":
                    if cur is not None and dumps and cur in dumps:
                        o.write(json.dumps({"e": "Dump", "db": dumps[cur][0], "err": dumps[cur][1]}) + "\n"); n += 1
                    cur = ev["id"]
                    ev = {"e": "Case", "files": files_of_case[cur]}
                    if bad_of_case:
                        ev["bad"] = bad_of_case[cur]
                elif "file" in ev:
                    ev["file"] = libkey(ev["file"])
                o.write(json.dumps(ev) + "\n")
                n += 1
            if cur is not None and dumps and cur in dumps:
                o.write(json.dumps({"e": "Dump", "db": dumps[cur][0], "err": dumps[cur][1]}) + "\n"); n += 1
    return n


def validate(ctx, groups, what):
    """groups: list of assembled ndjson files.  Validates each against IdbTrace (in parallel)."""
    def one(cat):
        status, r = tlc.validate_trace("IdbTrace", cat, timeout=1200)
        return cat, status, r
    total = 0
    for cat, status, r in run.pmap(one, groups):
        ctx.cov["states"] += r.generated
        ctx.cov["transitions"] += r.generated
        if status != "accepted":
            status2, r2 = tlc.validate_trace("IdbTrace", cat, timeout=1200)   # a rejection is reported only if it repeats
            if status2 == "accepted":
                continue
            lines = open(cat).read().split("\n")
            at = r2.stuck_at or 1
            os.makedirs(ctx.replay_dir, exist_ok=True)
            keep = os.path.join(ctx.replay_dir, os.path.basename(cat))
            shutil.copy(cat, keep)
            ctx.violation("%s: hook trace %s by IdbTrace (%s) at event %d: %s" % (
                what, status2, r2.violated or "no action of the mechanism matches the recorded event", at,
                " ".join(x[:300] for x in lines[max(0, at - 2):at + 1])),
                dict(trace=keep, tlc_tail=r2.out[-3000:]))
    return total


# ---------------------------------------------------------------------------------------------
# real libraries produced by interrogate from headers that include each other
def build_sets(ctx, work, names):
    """Returns {set name: [(lib, path of lib.in)]}; every library is produced by the built interrogate."""
    S = _idbm.library_sets()
    jobs = []
    for sn in names:
        sd = os.path.join(work, "set-" + sn)
        libs = S[sn]
        for ent in libs:
            lib, hn, text = ent[0], ent[1], ent[2]
            own = ent[3] if len(ent) > 3 else {}
            d = os.path.join(sd, lib)
            os.makedirs(d)
            open(os.path.join(d, "vdefs.h"), "w").write(_idbm.VDEFS)
            open(os.path.join(d, hn + ".h"), "w").write(text)
            for k, v in own.items():
                open(os.path.join(d, k + ".h"), "w").write(v)
        for ent in libs:
            lib, hn = ent[0], ent[1]
            own = ent[3] if len(ent) > 3 else {}
            inc = [os.path.join(sd, e[0]) for e in libs if e[0] != lib]
            jobs.append((sn, lib, os.path.join(sd, lib), hn, inc, sorted(own)))

    def one(j):
        sn, lib, d, hn, inc, own = j
        r, args = _idbm.interrogate(d, hn, lib, lib, backend="-python-native", opts=("-fnames",), incdirs=inc, extra_headers=own)
        return j, r, args
    out = {}
    for (sn, lib, d, hn, inc, own), r, args in run.pmap(one, jobs):
        if r.rc != 0 or not r.outputs.get(lib + ".in"):
            raise MachineryError("interrogate rejected generated library %s/%s: rc=%s %s" % (sn, lib, r.rc, r.stderr[-800:]))
        out.setdefault(sn, []).append((lib, os.path.join(d, lib + ".in")))
    return {sn: [(e[0], dict(out[sn])[e[0]]) for e in S[sn]] for sn in names}


def normalise(proj, multi):
    """Projection modulo the attribution the rule leaves open: for a type name that several libraries
    offer as winning candidate, the owning library (and the library part of its member keys) is blanked."""
    def strip(k):
        return k.split("|", 1)[1] if "|" in k else k
    P = json.loads(proj)
    for t in P["T"]:
        if t["tn"] in multi:
            t["lib"] = "*"
            for f in ("ctors", "methods", "elems", "mseqs", "casts"):
                t[f] = [strip(x) for x in t[f]]
            t["dtor"] = strip(t["dtor"])
            t["derivs"] = [[d[0], strip(d[1]), strip(d[2])] for d in t["derivs"]]
    for k in ("T",):
        P[k] = sorted(P[k], key=lambda x: json.dumps(x, sort_keys=True))
    return json.dumps(P, sort_keys=True)


def realworld(ctx, work):
    names = ["chain", "nsenum", "pair", "conflict"] + (["diamond"] if ctx.tier == "thorough" else [])
    sets = build_sets(ctx, work, names)
    # 1. every library alone
    lines = []
    for sn, libs in sets.items():
        for lib, path in libs:
            lines += ["case %s/%s" % (sn, lib), "reqdb " + path, "raw", "proj", "end"]
    got, _ = _idbm.run_script(lines, work, "singles")
    single, sproj = {}, {}
    for sn, libs in sets.items():
        for lib, path in libs:
            st = got.get("%s/%s" % (sn, lib), [])
            raws = [x for x in st if x.get("op") == "raw"]
            if not raws or st[-1].get("exit") != 0 or raws[0]["err"]:
                ctx.violation("loading the database of generated library %s/%s alone failed" % (sn, lib), dict(steps=st[-3:]))
                return 0
            single[(sn, lib)] = _idbm.raw_to_model(raws[0])
            sproj[(sn, lib)] = json.loads([x for x in st if x.get("op") == "proj"][0]["P"])
    # 2. every permutation, two query patterns
    lines, cases = [], {}
    for sn, libs in sets.items():
        tn_all = {}
        for lib, _ in libs:
            for t in sproj[(sn, lib)]["T"]:
                tn_all.setdefault(t["tn"], []).append(t)
        probe = sorted(tn_all)[:: max(1, len(tn_all) // 6)][:6]
        for pi, perm in enumerate(itertools.permutations(libs)):
            for pat in ((0, 1) if ctx.tier == "thorough" else (pi % 2,)):
                cid = "%s/p%d.%d" % (sn, pi, pat)
                l = ["case " + cid]
                for k, (lib, path) in enumerate(perm):
                    l.append("reqdb " + path)
                    if pat == 1 or k == len(perm) - 1:
                        l += ["lookup ttn %s" % x for x in probe] + ["lookup tn %s" % probe[0], "proj"]
                l += ["raw", "end"]
                lines += l
                cases[cid] = (sn, [lib for lib, _ in perm], l)
    trace = os.path.join(work, "real.trace")
    got, _ = _idbm.run_script(lines, work, "perms", trace=trace)
    files_of_case, dumps, finals = {}, {}, {}
    n = 0
    for cid, (sn, order, script) in cases.items():
        st = got.get(cid, [])
        raws = [x for x in st if x.get("op") == "raw"]
        if not st or st[-1].get("exit") != 0 or not raws or raws[0]["err"]:
            ctx.violation("set %s loaded in order %s: the process failed or the error flag is set" % (sn, order),
                          dict(script=script, tail=[{k: v for k, v in x.items() if k != "P"} for x in st[-3:]]))
            continue
        n += 1
        files_of_case[cid] = {lib: _idbm.model_files(single[(sn, lib)]) for lib in order}
        dumps[cid] = (_idbm.raw_to_model(raws[0]), raws[0]["err"])
        finals.setdefault(sn, []).append((order, [x for x in st if x.get("op") == "proj"][-1]["P"], script))
    # 3. order independence, modulo the attribution the rule leaves open (an input predicate: the name is
    #    offered by several libraries in the winning class)
    for sn, fl in finals.items():
        cands = {}
        for lib, _ in sets[sn]:
            for t in sproj[(sn, lib)]["T"]:
                cands.setdefault(t["tn"], []).append(t)
        multi = set()
        for tn, c in cands.items():
            fd = [t for t in c if t["fd"]]
            g = [t for t in fd if t["gl"]]
            win = c if not fd else (g if g else fd)
            if len(win) > 1:
                multi.add(tn)
            if len(g) > 1 and sn != "conflict":
                raise MachineryError("generated set %s unintentionally defines %s fully and globally in %d libraries"
                                     % (sn, tn, len(g)))
            if len(g) > 1:
                ctx.notes.setdefault("full_vs_full_classes", {}).setdefault(sn, []).append(tn)
        ref = normalise(fl[0][1], multi)
        for order, proj, script in fl[1:]:
            if normalise(proj, multi) != ref:
                ctx.violation("generated libraries %s: load order %s and load order %s give different databases: %s" % (
                    sn, fl[0][0], order, diff_proj(ref, normalise(proj, multi))),
                    dict(set=sn, order_a=fl[0][0], order_b=order, script=script))
        ctx.notes.setdefault("real_sets", {})[sn] = dict(libraries=len(sets[sn]), orders=len(fl), types_with_open_attribution=len(multi))
    # 4. the hook trace of these runs, with the files and the final raw dump, against IdbTrace
    if not os.path.exists(trace) or os.path.getsize(trace) == 0:
        raise MachineryError("the H-idb hooks recorded nothing: is patches/c13-hooks.diff applied to the tree under test?")
    ids = sorted(files_of_case)
    groups = []
    nev = 0
    ng = min(4 if ctx.tier == "quick" else NCPU, len(ids))
    # split the one trace file by Case marker so that the groups validate in parallel
    chunks, cur = {}, None
    for line in open(trace):
        if line.startswith('{"e":"Case"'):
            cur = json.loads(line)["id"]
            chunks[cur] = []
        if cur is not None:
            chunks[cur].append(line)
    for gi in range(ng):
        part = ids[gi::ng]
        tf = os.path.join(work, "real-%02d.trace" % gi)
        with open(tf, "w") as f:
            for cid in part:
                f.write("".join(chunks.get(cid, [])))
        cat = os.path.join(work, "realtrace-%02d.ndjson" % gi)
        nev += assemble([tf], files_of_case, cat, dumps=dumps)
        groups.append(cat)
    validate(ctx, groups, "generated libraries")
    ctx.notes["real_trace_events_validated"] = nev
    return n


def lines_of(lines, cid):
    out, on = [], False
    for l in lines:
        if l == "case %s" % cid:
            on = True
        if on:
            out.append(l)
            if l == "end":
                break
    return out


def steps_str(beh):
    return " ".join(("R(%s,%s%s)" % (s["lib"], s["mode"], "" if s["bad"] == "ok" else "," + s["bad"])) if s["op"] == "R" else "Q"
                    for s in beh["hist"])


def apalache_alloc(ctx, work):
    """IdbAlloc: the range allocator's inductive invariant over unbounded integers (Apalache, under timeout).
    Base case (Init => IndInv) and step (IndInv /\\ Next => IndInv')."""
    import subprocess, shutil as sh
    from ..common import SPECS
    if not sh.which("apalache-mc"):
        ctx.notes["apalache"] = "apalache-mc not available"
        return
    out = {}
    for name, args in (("base", ["--init=Init", "--inv=IndInv", "--length=0"]),
                       ("step", ["--init=IndInit", "--inv=IndInv", "--length=1"])):
        try:
            r = subprocess.run(["timeout", "150", "apalache-mc", "check"] + args +
                               ["--out-dir=" + os.path.join(work, "apalache"), "IdbAlloc.tla"],
                               cwd=SPECS, stdout=subprocess.PIPE, stderr=subprocess.STDOUT, text=True)
        except OSError as e:
            ctx.notes["apalache"] = "could not run: %s" % e
            return
        if "The outcome is: NoError" in r.stdout:
            out[name] = "NoError"
        elif "The outcome is: Error" in r.stdout:
            raise MachineryError("IdbAlloc: Apalache refutes the inductive invariant (%s case)\n%s" % (name, r.stdout[-1500:]))
        else:
            out[name] = "no verdict (rc %s)" % r.returncode      # timeout / tool problem: not claimed
    ctx.notes["apalache_IdbAlloc_inductive_invariant"] = out
    sh.rmtree(os.path.join(work, "apalache"), ignore_errors=True)


def run_check(ctx):
    import time
    build.ensure("hooked")
    work = ctx.tmp
    t0 = time.time()
    phase = ctx.notes.setdefault("phase_seconds", {})

    def model(cfg):
        dump = os.path.join(work, cfg + ".ndjson")
        res = tlc.run("IdbMC", cfg, env={"VERIF_DUMP": dump}, dfs=True, workers=max(4, NCPU // 2),
                      timeout=900 if ctx.tier == "quick" else 3000)
        return cfg, res, dump
    C, P, B = {}, {}, []
    jobs = [lambda c=c: model(c) for c in CFGS[ctx.tier]] + [lambda: apalache_alloc(ctx, work)]
    for out in run.pmap(lambda f: f(), jobs, workers=len(jobs)):
        if out is None:
            continue
        cfg, res, dump = out
        ctx.add_tlc(res)
        if res.verdict == "invariant":
            raise MachineryError("Idb/%s: invariant %s violated in the model: the mechanism as transcribed does not "
                                 "satisfy the property\n%s" % (cfg, res.violated, res.out[-3000:]))
        tlc.must_ok(res, cfg)
        c, p, b = load_dump(dump)
        C.update(c); P.update(p); B += b
        if os.path.exists(dump):
            os.unlink(dump)
    if not B or not P:
        raise MachineryError("no behaviours dumped")
    phase["tlc"] = round(time.time() - t0, 1); t0 = time.time()
    ctx.assumptions += [
        "domain: a SET of database files - every file is requested at most once; requesting the same .in twice is outside "
        "the claim (the library keeps no record of loaded files: types collapse by true name, functions/wrappers/elements of "
        "the second copy are added again)",
        "when two files both define a class fully AND globally the later-loaded definition wins (merge_with): library name "
        "and member lists of that class depend on the load order; the property only orders fully-defined over forward and "
        "global over non-global, so the reference accepts any candidate (attribution ignored) - one record per true name, "
        "global = union, resolved cross references and the kept functions of the losing definition ARE checked; the only "
        "generated libraries with such a class are the model contents with two 'defg' statuses and the set 'conflict'",
        "a missing or out-of-date file must set the error flag and leave the database and the other modules' ranges untouched",
    ]
    ctx.cov["exhaustive"] = True
    ctx.cov["rule"] = ("one case = one complete behaviour (a set of library database files, a sequence of Request(lib, mode) "
                       "and Query steps in which every library is requested, ending in a Query) executed in a fresh process, "
                       "or one load order of a set of libraries produced by interrogate; distinct = distinct (library "
                       "contents, step sequence); non-trivial = at least two libraries mention the same type name, so that "
                       "merge_from identifies types")
    n, traces, cdirs = replay_model(ctx, work, C, P, B)
    def shared(b):
        ct = b["content"]
        return any(sum(1 for l in ct if ct[l][k] != "absent") >= 2 for k in range(len(next(iter(ct.values()))) - 1))
    ctx.cov["distinct_nontrivial"] = len({(json.dumps(b["content"], sort_keys=True), steps_str(b)) for b in B if shared(b)})
    ctx.cov["evaluations"] += n
    ctx.cov["traces_validated_against_impl"] += n
    ctx.notes["model_behaviours_replayed"] = n
    ctx.notes["model_library_sets"] = len(C)
    def cls(b):
        rs = [s for s in b["hist"] if s["op"] == "R"]
        out = set()
        if len({s["mode"] for s in rs}) > 1:
            out.add("mixed request modes")
        qs = [i for i, s in enumerate(b["hist"]) if s["op"] == "Q"]
        if len(rs) >= 3 and qs and qs[0] >= 3:
            out.add("three requests pending at the first query")
            if [s["mode"] for s in rs[:3]] == ["mod", "db", "mod"]:
                out.add("module, database, module pending")
        for i, s in enumerate(rs):
            if 0 < i < len(rs) - 1:
                if s["bad"] != "ok":
                    out.add("failing file between two others (%s)" % s["bad"])
                elif s["n"] == 0 and s["mode"] == "mod":
                    out.add("empty module-mode file between two others")
        return out
    hc = {}
    for b in B:
        for k in cls(b):
            hc[k] = hc.get(k, 0) + 1
    ctx.notes["history_classes"] = hc
    need = ["mixed request modes", "module, database, module pending", "failing file between two others (missing)",
            "failing file between two others (stale)", "empty module-mode file between two others"]
    if [k for k in need if not hc.get(k)]:
        raise MachineryError("history classes not generated: %s" % [k for k in need if not hc.get(k)])
    for b in B[:: max(1, len(B) // 4)][:4]:
        ctx.sample(dict(libraries=b["content"], steps=steps_str(b)))

    phase["replay"] = round(time.time() - t0, 1); t0 = time.time()
    # ---- trace validation of the replay runs ------------------------------------------------------
    files_of_case, bad_of_case = {}, {}
    tfiles = []
    for tr, cases in traces:
        tfiles.append(tr)
        for cid, beh in cases:
            files_of_case[cid] = C[_idbm.content_key(beh["content"])]["files"]
            bad_of_case[cid] = {lib: v[-1] for lib, v in beh["content"].items()}
    if not any(os.path.exists(t) and os.path.getsize(t) > 0 for t in tfiles):
        raise MachineryError("the H-idb hooks recorded nothing: is patches/c13-hooks.diff applied to the tree under test?")
    # a fixed stratified part of the batches (the replay comparison above is complete)
    tfiles = tfiles[::5] if ctx.tier == "quick" else tfiles[::max(4, len(tfiles) // 64)]
    ng = NCPU // 2 if ctx.tier == "quick" else NCPU
    groups = []
    nev = 0
    for gi in range(ng):
        part = tfiles[gi::ng]
        if not part:
            continue
        cat = os.path.join(work, "modeltrace-%02d.ndjson" % gi)
        nev += assemble(part, files_of_case, cat, bad_of_case=bad_of_case)
        groups.append(cat)
    validate(ctx, groups, "replayed model behaviours")
    ctx.notes["trace_events_validated"] = nev

    phase["trace_validation"] = round(time.time() - t0, 1); t0 = time.time()
    # ---- real libraries -------------------------------------------------------------------------
    nr = realworld(ctx, work)
    phase["real_libraries"] = round(time.time() - t0, 1)
    ctx.cov["evaluations"] += nr
    ctx.cov["traces_validated_against_impl"] += nr
    ctx.notes["real_library_loads"] = nr
    ctx.cov["distinct_nontrivial"] += nr
