"""C12 — database files round-trip exactly; older 3.x files stay readable; damaged files are flagged whole.

spec IdbFile (+ IdbFileFormat): the text format as a byte stream, WriteDbAs for the minor formats 3.0-3.3, the
reader of load_latest/read/read_new as a step machine with the stream's fail bit, one temporary database, then
remap + merge.  TLC: Read(Write(db,3)) = db, Write(Read(Write(db,3))) = Write(db,3), Read(Write(db,v)) =
Defaults(db,v), every content-removing prefix / wrong major / newer minor / stale module def => error flag and
an untouched global database, identifier mismatch => error flag, never half merged (in every state).
Bind: the bytes TLC wrote ARE the files; each is loaded by libinterrogatedb in a fresh process (after the
spec's base database, or into an empty process), every function of the query interface is dumped for every
index and compared with the spec's global database, InterrogateDatabase::write is compared byte for byte with
the spec's writer.  Real databases written by `interrogate -od` go through the spec's reader (TLC) and through
the library the same way; their prefixes must be flagged whole as well.  HISTORIES (spec IdbFileHist): two or
three files of different minor formats, each with elements (the version-gated record kind), are loaded into ONE
process, one by one and all at once, and queried / re-serialised the same way; MIXED histories put a truncated /
newer-major / newer-minor / out-of-sync file before, between and after good ones: interrogate_error_flag() is read
after every file (once raised it stays raised; the interface offers nothing to reset it) and the good files are
still merged completely."""
import os, json, threading, time
from ..common import MachineryError, REPO, HARNESS, NCPU
from .. import build, tlc, run
from . import _idbq as Q

CFG = {"quick": "IdbFile_quick", "thorough": "IdbFile_thorough"}
MAXPOS = 3          # vectors of the generated databases have at most 2 entries
BASE_DEF = {"first": 1, "next": 4, "lib": [98], "mod": []}


def has_alt_names(tables):
    return any(r["alts"] for k in Q.KINDS for r in tables[k])


def case_for(cid, r, ftext, base_path):
    """ftext: the file's bytes as latin-1 text (the driver turns it into a memory file), or a path for real files"""
    setup = []
    if r["pre"] == "base":
        setup += [["db", base_path], ["touch"]]
    kind = r["kind"]
    if kind == "ext":
        setup.append(["db", ftext])
    elif kind in ("ok", "major2", "major4", "minor4"):
        setup.append(["dbmem", ftext])
    else:
        num = r["next"] - r["first"]
        setup.append(["mod", {"id": r["defid"], "dbmem": ftext, "first": 1 if num else 0, "next": 1 + num if num else 0}])
    h = r["hdrs"]
    queries = [["c", "interrogate_number_of_types"], ["c", "interrogate_error_flag"], ["dump", r["gnext"] + 1, r["maxpos"]]]
    if r["err"] and (r["cut"] == -1 or r["content"]) and kind != "idmismatch":
        queries.append(["c", "interrogate_number_of_functions"])      # nothing to re-serialise
    elif kind in ("idmatch", "modok"):
        queries.append(["rewrite_def", 0])
    else:
        queries.append(["rewrite", h["id"], Q.b2s(h["lib"]), Q.b2s(h["hash"]), Q.b2s(h["mod"])])
    return {"id": cid, "setup": setup, "queries": queries}


_EXP = {}


def expected_dump(table, r, tables, merged):
    """the dump the spec's database demands (memoised: all prefixes of a family share two of them)"""
    key = (r["pre"], merged, r["gnext"], r["maxpos"], json.dumps(tables, sort_keys=True),
           json.dumps(r["hdrs"]) if merged else "")
    if key not in _EXP:
        _EXP[key] = expected_db(table, r, tables, merged).expected_dump(r["gnext"] + 1, r["maxpos"])
    return _EXP[key]


def expected_db(table, r, tables, merged):
    defs = [BASE_DEF] if r["pre"] == "base" else []
    first = 4 if r["pre"] == "base" else 1
    n = sum(len(tables[k]) for k in Q.KINDS) - (3 if r["pre"] == "base" else 0)
    if merged and n:
        defs = defs + [{"first": first, "next": first + n, "lib": r["hdrs"]["lib"], "mod": r["hdrs"]["mod"]}]
    return Q.Db(table, tables, defs, r["gnext"])


def run_check(ctx):
    build.ensure("hooked")
    funcs = Q.interface_functions()
    tier = ctx.tier
    t0 = time.time()
    phases = ctx.notes.setdefault("phase_s", {})
    dump = os.path.join(ctx.tmp, "dump.ndjson")
    tdump = os.path.join(ctx.tmp, "table.ndjson")
    box = {}

    def t_main():
        box["main"] = tlc.run("IdbFileMC", CFG[tier], env={"VERIF_DUMP": dump}, workers=max(2, NCPU - 4),
                              timeout=900 if tier == "quick" else 2400)

    def t_table():
        box["table"] = tlc.run("IdbQueryMC", "IdbQuery_table", env={"VERIF_DUMP": tdump}, workers=1, timeout=300)
    hdump = os.path.join(ctx.tmp, "hist.ndjson")

    def t_hist():
        box["hist"] = tlc.run("IdbFileHistMC", "IdbFile_hist", env={"VERIF_DUMP": hdump}, workers=2, timeout=900)
    ths = [threading.Thread(target=t_main), threading.Thread(target=t_table), threading.Thread(target=t_hist)]
    for t in ths:
        t.start()
    # meanwhile: real databases
    real = Q.make_real(ctx)
    for t in ths:
        t.join()
    phases["tlc"] = round(time.time() - t0, 1)
    res = box["main"]
    ctx.add_tlc(res)
    if res.verdict == "invariant":
        raise MachineryError("IdbFile: invariant %s violated in the model\n%s" % (res.violated, res.out[-2500:]))
    tlc.must_ok(res)
    tlc.must_ok(box["table"], "interface table")
    trec = [x for x in tlc.read_dump(tdump) if "qf" in x]
    if len(trec) != 1:
        raise MachineryError("no interface table dumped")
    table = Q.Table(trec[0])
    table.check_header(funcs)

    try:
        recs = tlc.read_dump(dump)
    except ValueError as e:
        raise MachineryError("TLC dump unreadable: %s" % e)
    base = [x for x in recs if "base" in x]
    recs = [x for x in recs if "base" not in x]
    if len(base) != 1 or not recs:
        raise MachineryError("IdbFile dump incomplete (%d base, %d files)" % (len(base), len(recs)))
    base = base[0]
    base_path = os.path.join(ctx.tmp, "base.in")
    open(base_path, "wb").write(Q.tobytes(base["base"]))
    ctx.assumptions += [
        "strings contain no NUL byte (the C query interface cannot show one)",
        "the types of a file share no true name with an already loaded type (merging of shared types is C13)",
        "identifier mismatch: the error flag is demanded; the file may be merged completely (what the code does) or not at all",
        "a prefix that lacks only trailing white space may be flagged-and-ignored or loaded completely",
        "index numbers are compared after remap_indices (the spec models it); byte identity of load + write is demanded of "
        "canonical files (written with -oc, or by the spec in layout 'canon') and of the spec's writer output in general",
        "trusted: TLC, the ctypes driver, harness/idb_write.cxx (12 lines), the projection Db.query in vf/checks/_idbq.py "
        "driven by the table QF of IdbQuery.tla",
    ]
    ctx.cov["exhaustive"] = True
    ctx.cov["rule"] = ("TLC enumerates every database of <= MaxRecs records over 6 record kinds x 4 field patterns x the "
                       "adversarial strings, each written in the minor formats its content distinguishes, with every header "
                       "damage / module-def variant and (for the CutStrs family) every proper prefix; every dumped file is "
                       "loaded by libinterrogatedb in a fresh process. distinct = distinct (file bytes, request kind, preloaded "
                       "base); non-trivial = the file holds at least one record, or is damaged or cut")

    # ---- replay of the generated files ---------------------------------------------------
    whole = {}
    cases, index = [], {}
    distinct = set()
    for cid, r in enumerate(recs):
        # a file that must be rejected whole: the one-argument functions (names, flags, counts) of every index
        # show whether anything of it became visible; the positional accessors are not needed for that
        r["maxpos"] = 0 if (r["cut"] != -1 and r["content"]) else MAXPOS
        fb = Q.tobytes(r["file"])
        if r["cut"] == -1 and r["kind"] == "ok":
            whole[(r["pre"], fb)] = r
        cases.append(case_for(cid, r, fb.decode("latin-1"), base_path))
        index[str(cid)] = r
        if r["nrec"] or r["kind"] != "ok" or r["cut"] != -1:
            distinct.add((Q.sha(fb), r["kind"], r["pre"]))
    phases["render"] = round(time.time() - t0, 1)
    n_eval = 0
    for lo in range(0, len(cases), 40000):          # in portions, so that the answers never pile up in memory
        part = cases[lo:lo + 40000]
        results = Q.run_driver(ctx, part, timeout=10, tag="gen")
        for case in part:
            cid = str(case["id"])
            n_eval += 1
            judge(ctx, table, index[cid], results[cid], whole, base)
        del results
    phases["replay"] = round(time.time() - t0, 1)
    ctx.cov["evaluations"] += n_eval
    ctx.cov["traces_validated_against_impl"] += n_eval
    ctx.cov["distinct_nontrivial"] = len(distinct)      # (histories are added by replay_histories)
    ctx.notes["generated_files"] = len(recs)
    ctx.notes["prefix_files"] = sum(1 for r in recs if r["cut"] != -1)
    ctx.notes["damaged_header_files"] = sum(1 for r in recs if r["kind"] not in ("ok", "idmatch", "modok"))
    for r in recs[:: max(1, len(recs) // 4)][:4]:
        ctx.sample(dict(file=Q.tobytes(r["file"]).decode("latin-1")[:400], file_bytes=len(Q.tobytes(r["file"])), request=r["kind"], preloaded=r["pre"], minor=r["minor"],
                        cut=r["cut"], error_flag=r["err"], records_visible=sum(len(r["glob"][k]) for k in Q.KINDS)))

    phases["judge"] = round(time.time() - t0, 1)
    # ---- histories: files of different minor formats in one process ---------------------------
    replay_histories(ctx, table, box["hist"], hdump, base_path)
    phases["histories"] = round(time.time() - t0, 1)
    # ---- real databases --------------------------------------------------------------------
    replay_real(ctx, table, real)
    phases["real"] = round(time.time() - t0, 1)


# -------------------------------------------------------------------------------------------------
def judge(ctx, table, r, out, whole, base):
    """compare one loaded file with what the spec demands"""
    what = "%s file of %d bytes (%s, format %d.%d, %d records, preloaded: %s%s)" % (
        "generated" if r["kind"] != "ext" else "real", len(Q.tobytes(r.get("bytes") or r["file"])),
        r["kind"], r["major"], r["minor"], r["nrec"], r["pre"],
        ", cut at byte %d" % r["cut"] if r["cut"] != -1 else "")
    payload = dict(file=Q.tobytes(r.get("bytes") or r["file"]).decode("latin-1"), request=r["kind"], preloaded=r["pre"],
                   cut=r["cut"], spec_error_flag=r["err"], stderr=out["stderr"])
    classes = []
    rr = out["r"]
    deaths = [x for x in rr if Q.died(x)]
    if deaths or len(rr) < 4:
        ctx.violation("loading a %s: %s" % (what, Q.describe_death(deaths[0]) if deaths else "driver gave no answer"),
                      payload, classes=["C12-truncated-file-hang"] if r["cut"] != -1 and r["content"] else [])
        return
    _, flag, dump, rw = rr
    # the outcomes the property allows
    full_tables = None
    allowed = [(r["err"], r["glob"], True)]
    if r["cut"] != -1 and not r["content"]:
        # only trailing white space is missing: flagged-and-nothing or loaded-whole, both are fine
        twin = whole.get((r["pre"], Q.tobytes(r["full"])))
        if twin is None:
            raise MachineryError("no whole-file twin for a white-space cut")
        base_tables = base["glob"] if r["pre"] == "base" else {k: [] for k in Q.KINDS}
        allowed = [(True, base_tables, False), (False, twin["glob"], True)]
    elif r["kind"] == "idmismatch":
        base_tables = base["glob"] if r["pre"] == "base" else {k: [] for k in Q.KINDS}
        allowed = [(True, r["glob"], True), (True, base_tables, False)]
    verdicts = []
    for err, tables, merged in allowed:
        if bool(flag) != err:
            verdicts.append("error flag is %s, the spec demands %s" % (flag, err))
            continue
        d = Q.diff_dump(expected_dump(table, r, tables, merged), dump)
        if d:
            verdicts.append("query interface differs from the spec's database: " + "; ".join(
                "%s(%s%s) = %r, expected %r" % (fn, i, "" if n is None else ", %s" % n, g, e) for fn, i, n, e, g in d[:4]))
            continue
        verdicts = None
        full_tables = tables
        break
    if verdicts is not None:
        ctx.violation("%s: %s" % (what, verdicts[0]), dict(payload, all_alternatives=verdicts), classes=classes)
        return
    # re-serialisation, when the file was loaded
    if not flag and r["rw"]:
        exp = Q.tobytes(r["rw"])
        got = rw["text"].encode("latin-1") if isinstance(rw, dict) and "text" in rw else None
        if got != exp:
            cl = ["C12-alt-names-lost"] if has_alt_names(full_tables) else []
            ctx.violation("%s: InterrogateDatabase::write after loading gives different bytes" % what,
                          dict(payload, expected=exp.decode("latin-1"), observed=None if got is None else got.decode("latin-1")),
                          classes=cl)


# -------------------------------------------------------------------------------------------------
def replay_histories(ctx, table, res, hdump, base_path):
    """every history of IdbFileHist in ONE library process, the files loaded one by one and all at once"""
    ctx.add_tlc(res)
    if res.verdict == "invariant":
        raise MachineryError("IdbFileHist: invariant %s violated in the model\n%s" % (res.violated, res.out[-2500:]))
    tlc.must_ok(res, "histories")
    try:
        hs = [x for x in tlc.read_dump(hdump) if x.get("hist")]
    except ValueError as e:
        raise MachineryError("TLC dump unreadable: %s" % e)
    if not hs:
        raise MachineryError("no history dumped")
    cases, index = [], {}
    for n, h in enumerate(hs):
        texts = [Q.tobytes(f).decode("latin-1") for f in h["files"]]
        reqs = [["mod", {"id": did, "dbmem": t}] if did else ["dbmem", t] for t, did in zip(texts, h["defids"])]
        hd = h["hdrs"]
        maxidx = h["gnext"] + 1
        tail = [["c", "interrogate_number_of_types"], ["c", "interrogate_error_flag"], ["dump", maxidx, MAXPOS],
                ["rewrite", hd["id"], Q.b2s(hd["lib"]), Q.b2s(hd["hash"]), Q.b2s(hd["mod"])]]
        pre = [["db", base_path], ["touch"]] if h["pre"] == "base" else []
        # one by one: the error flag is observed after EVERY file
        queries = []
        for rq in reqs:
            queries += [rq, ["c", "interrogate_number_of_types"], ["c", "interrogate_error_flag"]]
        cases.append({"id": "h%ds" % n, "setup": pre, "queries": queries + tail})
        index["h%ds" % n] = (h, True)
        # all requested together, loaded by one query
        cases.append({"id": "h%da" % n, "setup": pre + reqs, "queries": tail})
        index["h%da" % n] = (h, False)
    results = Q.run_driver(ctx, cases, timeout=10, tag="hist")
    exp_cache = {}
    for cid, (h, staged) in index.items():
        what = "history of %d files %s (%s, preloaded: %s)" % (
            len(h["files"]), ", ".join("3.%d%s" % (m, "" if k == "ok" else " " + k) for m, k in zip(h["minors"], h["kinds"])),
            "each loaded before the next is requested" if staged else "requested together", h["pre"])
        payload = dict(files=[Q.tobytes(f).decode("latin-1") for f in h["files"]], minors=h["minors"], kinds=h["kinds"],
                       preloaded=h["pre"], staged=staged, stderr=results[cid]["stderr"])
        rr = results[cid]["r"]
        deaths = [x for x in rr if Q.died(x)]
        if deaths or len(rr) < 4:
            ctx.violation("loading a %s: %s" % (what, Q.describe_death(deaths[0]) if deaths else "no answer"), payload)
            continue
        if staged:
            seen = [bool(rr[3 * i + 2]) for i in range(len(h["files"]))]
            if seen != h["flags"]:
                ctx.violation("%s: interrogate_error_flag() after each file is %s, the spec demands %s (once raised it stays raised)"
                              % (what, seen, h["flags"]), payload)
                continue
        _, flag, dump, rw = rr[-4:]
        if bool(flag) != h["err"]:
            ctx.violation("%s: the error flag is %s at the end, the spec demands %s" % (what, bool(flag), h["err"]), payload)
            continue
        key = id(h)
        if key not in exp_cache:
            defs = ([BASE_DEF] if h["pre"] == "base" else []) + h["defs"]
            exp_cache[key] = Q.Db(table, h["glob"], defs, h["gnext"]).expected_dump(h["gnext"] + 1, MAXPOS)
        d = Q.diff_dump(exp_cache[key], dump)
        if d:
            ctx.violation("%s: query interface differs from the spec's database: %s" % (what, "; ".join(
                "%s(%s%s) = %r, expected %r" % (fn, i, "" if n is None else ", %s" % n, g, e) for fn, i, n, e, g in d[:4])), payload)
            continue
        got = rw["text"].encode("latin-1") if isinstance(rw, dict) and "text" in rw else None
        if got != Q.tobytes(h["rw"]):
            ctx.violation("%s: InterrogateDatabase::write afterwards gives different bytes" % what,
                          dict(payload, expected=Q.tobytes(h["rw"]).decode("latin-1"), observed=None if got is None else got.decode("latin-1")))
    ctx.cov["evaluations"] += len(index)
    ctx.cov["traces_validated_against_impl"] += len(index)
    ctx.cov["distinct_nontrivial"] += len(index)
    ctx.notes["histories"] = len(hs)
    ctx.notes["history_replays"] = len(index)
    h = hs[len(hs) // 2]
    ctx.sample(dict(history=[Q.tobytes(f).decode("latin-1") for f in h["files"]], formats=h["minors"], preloaded=h["pre"],
                    elements_visible=len(h["glob"]["e"])))


def replay_real(ctx, table, real):
    inp = os.path.join(ctx.tmp, "ext.json")
    dump = os.path.join(ctx.tmp, "ext.ndjson")
    json.dump([{"name": x["name"], "bytes": list(x["bytes"])} for x in real], open(inp, "w"))
    res = tlc.run("IdbFileMC", "IdbFile_ext", env={"VERIF_INPUT": inp, "VERIF_DUMP": dump}, workers=1, timeout=600)
    ctx.add_tlc(res)
    if res.verdict == "invariant":
        # a file written by interrogate that the spec's reader does not accept: the spec's idea of the format is wrong
        raise MachineryError("IdbFile_ext: %s violated on a database written by interrogate\n%s" % (res.violated, res.out[-2500:]))
    tlc.must_ok(res, "real databases")
    by_name = {r["layout"]: r for r in tlc.read_dump(dump) if "base" not in r}
    if set(by_name) != {x["name"] for x in real}:
        raise MachineryError("IdbFile_ext dumped %s, expected %s" % (sorted(by_name), sorted(x["name"] for x in real)))
    cases, index = [], {}
    for x in real:
        r = by_name[x["name"]]
        r["bytes"] = list(x["bytes"])
        r["maxpos"] = 2 + max([len(v) for k in Q.KINDS for rec in r["glob"][k] for v in rec.values() if isinstance(v, list)] + [0])
        cid = "real-" + x["name"]
        cases.append(case_for(cid, r, x["path"], None))
        index[cid] = (x, r)
        # prefixes of the real file: all of the small ones, a stride through the big ones
        n = len(x["bytes"])
        stride = 1 if n <= 2500 else max(1, n // (150 if ctx.tier == "quick" else 1500))
        for cut in list(range(0, n, stride)) + [n - 1, n - 2]:
            if 0 <= cut < n:
                pc = "cut-%s-%d" % (x["name"], cut)
                cases.append({"id": pc, "setup": [["dbmem", x["bytes"][:cut].decode("latin-1")]],
                              "queries": [["c", "interrogate_number_of_types"], ["c", "interrogate_error_flag"],
                                          ["dump", r["gnext"] + 1, 2], ["c", "interrogate_number_of_functions"]]})
                index[pc] = (x, cut)
    results = Q.run_driver(ctx, cases, timeout=10, tag="real")
    nothing = Q.Db(table, {k: [] for k in Q.KINDS}, [], 1)
    n_cut = 0
    nothing_dump = {}
    for cid, (x, r) in index.items():
        out = results[cid]
        if cid.startswith("real-"):
            judge(ctx, table, r, out, {}, None)
            if x["canon"] and not any(Q.died(v) for v in out["r"]) and len(out["r"]) == 4:
                got = out["r"][3]["text"].encode("latin-1")
                if got != x["bytes"]:
                    ctx.violation("database %s.in written by interrogate -oc -od is not reproduced byte for byte by "
                                  "load + InterrogateDatabase::write" % x["name"],
                                  dict(file=x["bytes"].decode("latin-1"), observed=got.decode("latin-1")))
            continue
        cut = r
        n_cut += 1
        content = any(c not in b" \t\n\r\v\f" for c in x["bytes"][cut:])
        payload = dict(file=x["bytes"][:cut].decode("latin-1"), cut=cut, of=x["name"], stderr=out["stderr"])
        rr = out["r"]
        deaths = [v for v in rr if Q.died(v)]
        if deaths or len(rr) < 4:
            ctx.violation("loading %s.in cut at byte %d: %s" % (x["name"], cut, Q.describe_death(deaths[0]) if deaths else "no answer"),
                          payload, classes=["C12-truncated-file-hang"] if content else [])
            continue
        flag, dump_ = rr[1], rr[2]
        gnext = by_name[x["name"]]["gnext"]
        if gnext not in nothing_dump:
            nothing_dump[gnext] = nothing.expected_dump(gnext + 1, 2)
        empty = not Q.diff_dump(nothing_dump[gnext], dump_)
        if content and not (flag and empty):
            ctx.violation("%s.in cut at byte %d (content removed): error flag %s, %s" % (
                x["name"], cut, flag, "nothing visible" if empty else "records of the truncated file are visible"), payload)
        elif not content and not ((flag and empty) or not flag):
            ctx.violation("%s.in cut at byte %d: flagged but partly loaded" % (x["name"], cut), payload)
    ctx.cov["evaluations"] += len(index)
    ctx.cov["traces_validated_against_impl"] += len(index)
    ctx.notes["real_databases"] = [x["name"] for x in real]
    ctx.notes["real_prefix_files"] = n_cut
    x = real[0]
    ctx.sample(dict(real_database=x["name"], bytes=len(x["bytes"]), head=x["bytes"][:160].decode("latin-1")))
