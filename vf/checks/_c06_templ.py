"""C06, class-template instantiation: spec TemplInst (TLC enumerates programs = default argument + member
typedefs of three stratified class templates + one closed query such as Q<char &>::m1::m2; Norm = the C++
instantiation rule).  For every program and query:
  (0) spec sanity: g++ confirms  is_same<query, Norm(query)>  — else exit 2;
  (1) parse_file must accept the templates (zero errors);
  (2) the type parse_file resolves the query to (its -p query interface), compiled by g++ at global scope,
      must be the same type as the query;
  (3) the prototype interrogate records in the database for  `query r();`  likewise.
"""
import os, re, subprocess, random, json
from ..common import MachineryError
from .. import build, tlc, run, idb

# parameter names per template; the spec is indifferent to them (alpha-equivalence), the renderer varies them:
# scheme 0 all distinct, 1 and 2 reuse names between templates (as real code does: template<class T> everywhere)
SCHEMES = [{"P": ("A", "B"), "Q": ("X",), "R": ("Y",), "V": ("Z",)},
           {"P": ("T", "U"), "Q": ("T",), "R": ("T",), "V": ("T",)},
           {"P": ("T", "U"), "Q": ("U",), "R": ("T",), "V": ("U",)}]


def scheme_of(n):
    return n % 3


def PNn(n):
    return SCHEMES[scheme_of(n)]
ERRLINE = re.compile(r"^[^:\s]+:(\d+):\d+: error", re.M)


def gxx_bad_lines(work, fn):
    r = subprocess.run(["g++", "-std=c++17", "-fsyntax-only", "-fmax-errors=0", "-w", fn], cwd=work,
                       stdout=subprocess.PIPE, stderr=subprocess.PIPE, text=True)
    if r.returncode == 0:
        return set(), ""
    return set(int(x) for x in ERRLINE.findall(r.stderr)), r.stderr


BASE_NAMES = {"K1": "ns1::K", "K2": "ns2::K"}       # two classes with the same simple name
# non-template classes with a member typedef t and aliases of them (once per header)
PRELUDE = ["namespace ns1 { struct K { typedef int t; }; } namespace ns2 { struct K { typedef char t; }; }",
           "typedef ns1::K KA; using KB = KA; typedef const ns2::K CK;"]
CLASS_MEMBER = {"K1": ["b", "int"], "K2": ["b", "char"]}
NAME_ALIAS = {"KA": ["b", "K1"], "KB": ["b", "KA"], "CK": ["c", ["b", "K2"]]}


def rt(t, n, pn=None, body=False, top=True, selfname=None):
    """C++ text of a term; n = case number (template names are P<n>, Q<n>, R<n>)."""
    k = t[0]
    if k == "b":
        return BASE_NAMES.get(t[1], t[1])
    if k == "self":
        return selfname
    if k == "p":
        return pn[t[1] - 1]
    if k == "ptr":
        return rt(t[1], n, pn, body, selfname=selfname) + " *"
    if k == "ref":
        return rt(t[1], n, pn, body, selfname=selfname) + " &"
    if k == "c":
        return rt(t[1], n, pn, body, selfname=selfname) + " const"
    if k == "t":
        return "%s%d< %s >" % (t[1], n, ", ".join(rt(a, n, pn, body, selfname=selfname) for a in t[2]))
    if k == "m":
        inner = rt(t[1], n, pn, body, top=False, selfname=selfname)
        s = inner + "::" + t[2]
        if body and top:
            s = "typename " + s
        return s
    if k == "own":
        return t[1]
    raise MachineryError("unknown term %r" % (t,))


def names_later(t, T):
    """does body term t of template T name a template declared after T (or T's own default need one)?"""
    order = "PQR"
    k = t[0]
    if k in ("ptr", "ref", "c", "m"):
        return names_later(t[1], T)
    if k == "t":
        return order.index(t[1]) > order.index(T) or any(names_later(a, T) for a in t[2])
    return False


def names_tmpl(t, T):
    k = t[0]
    if k in ("ptr", "ref", "c", "m"):
        return names_tmpl(t[1], T)
    if k == "t":
        return t[1] == T or any(names_tmpl(a, T) for a in t[2])
    return False


def simple_slot(defs, T, sl):
    """the slot's target names no template-id and not the class itself (a member FUNCTION whose signature names another
    instantiation makes interrogate instantiate and export that one too — without bound when it grows: finding
    C06-templ-self-growing-signature); such slots get no member functions in the methods view"""
    def ok(t):
        k = t[0]
        if k in ("t", "self"):
            return False
        if k in ("ptr", "ref", "c", "m"):
            return ok(t[1])
        if k == "own":
            return ok(defs[T][t[1]])
        return True
    return ok(defs[T][sl])


def render_prog(n, prog, force_fwd=False, methods=False):
    """methods=True adds, for every member typedef slot, two published member functions whose return and parameter
    types are the slot's target (the view a user of the bindings has of an instantiation)"""
    dflt, defs, alias = prog
    PN = PNn(n)
    need_fwd = force_fwd
    if dflt[0] != "none" and (names_later(dflt, "P") or names_tmpl(dflt, "P")):
        need_fwd = True
    for T in "PQR":
        for s in ("m1", "m2"):
            b = defs[T][s]
            if b[0] != "none" and names_later(b, T):
                need_fwd = True
    d = "" if dflt[0] == "none" else " = " + rt(dflt, n, PN["P"], True)
    a, b2 = PN["P"]
    heads = {"P": "template<class " + a + ", class " + b2 + "%s> struct P%d", "Q": "template<class " + PN["Q"][0] + "> struct Q%d",
             "R": "template<class " + PN["R"][0] + "> struct R%d"}
    out = []
    if need_fwd:
        out.append((heads["Q"] % n) + ";")
        out.append((heads["R"] % n) + ";")
        if dflt[0] != "none" and names_tmpl(dflt, "P"):
            out.append("template<class, class> struct P%d;" % n)       # the default argument names P itself
        out.append((heads["P"] % (d, n)) + ";")
    for T in "PQR":
        h = heads[T] % ((("" if need_fwd else d), n) if T == "P" else n)
        body = " ".join("typedef %s %s;" % (rt(defs[T][s], n, PN[T], True, selfname="%s%d" % (T, n)), s)
                        for s in ("m1", "m2") if defs[T][s][0] != "none")
        if methods:
            ms = []
            for sl in ("m1", "m2"):
                if defs[T][sl][0] != "none" and simple_slot(defs, T, sl):
                    ty = rt(defs[T][sl], n, PN[T], True, selfname="%s%d" % (T, n))
                    ms.append("%s f%d_%s%s(%s x, int k = 0) const; static %s g%d_%s%s();" % (ty, n, T, sl, ty, ty, n, T, sl))
            if ms:
                body += " __published: " + " ".join(ms)
        out.append("%s { %s };" % (h, body))
    if alias[0] != "none":
        out.append("template<class %s> using V%d = %s;" % (PN["V"][0], n, rt(alias, n, PN["V"], True)))
    return out


def shared_name_uses(n, prog):
    """Uses, in the body of template T, of another template U<...> with an argument that mentions a parameter of T whose
    NAME also is the name of one of U's parameters (both without default argument).  The parser keeps one object per
    (name, default) for template parameters, so T's parameter IS U's: when U<...> is instantiated inside T the argument
    looks like U's own parameter, and when T is instantiated later the replacement is withheld from U's scope ("these
    are substituted at instantiation").  Input predicate of C06-templ-shared-parameter-name."""
    dflt, defs, alias = prog
    PN = PNn(n)
    hits = []

    def has_default(T, i):
        return T == "P" and i == 1 and dflt[0] != "none"

    def params(t):
        k = t[0]
        if k == "p":
            return {t[1] - 1}
        if k in ("ptr", "ref", "c", "m"):
            return params(t[1])
        if k == "t":
            out = set()
            for a in t[2]:
                out |= params(a)
            return out
        return set()

    def walk(t, T, slot):
        k = t[0]
        if k in ("ptr", "ref", "c", "m"):
            walk(t[1], T, slot)
        elif k == "t":
            U = t[1]
            if U != T:
                # every argument is the bare parameter of T that has the name of U's formal at that position
                ident = len(t[2]) == len(PN[U]) and all(a[0] == "p" and PN[T][a[1] - 1] == PN[U][i] and not has_default(U, i)
                                                        and not has_default(T, a[1] - 1) for i, a in enumerate(t[2]))
                for a in t[2]:
                    for j in params(a):
                        for i in range(len(PN[U])):
                            if PN[T][j] == PN[U][i] and not has_default(U, i) and not has_default(T, j):
                                hits.append((T, U, "all" if ident else i, slot))
            for a in t[2]:
                walk(a, T, slot)
    for T in "PQR":
        for s in ("m1", "m2"):
            if defs[T][s][0] != "none":
                walk(defs[T][s], T, s)
    if alias[0] != "none":
        walk(alias, "V", "alias")
    return hits


def feats(prog, q):
    """feature tags of a (program, query): which rules its evaluation needs (for triage and finding classes)."""
    dflt, defs, alias = prog
    f = set()

    def walk(t, inbody):
        k = t[0]
        if k in ("ptr", "ref", "c"):
            walk(t[1], inbody)
        elif k == "t":
            if t[1] == "P" and len(t[2]) == 1:
                f.add("default-arg-in-body" if inbody else "default-arg-in-query")
            for a in t[2]:
                walk(a, inbody)
        elif k == "m":
            f.add("projection-in-body" if inbody else "projection")
            walk(t[1], inbody)
        elif k == "own":
            f.add("own-member")
    for T in "PQR":
        for s in ("m1", "m2"):
            if defs[T][s][0] != "none":
                walk(defs[T][s], True)
    if dflt[0] != "none":
        f.add("has-default")
    if alias[0] != "none":
        walk(alias, True)

    def names_v(t):
        return (t[0] == "t" and (t[1] == "V" or any(names_v(a) for a in t[2]))) or (t[0] in ("ptr", "ref", "c", "m") and names_v(t[1]))
    if names_v(q):
        f.add("alias-template")
    walk(q, False)
    depth = 0
    t = q
    while t[0] in ("m", "ptr", "ref", "c"):
        depth += t[0] == "m"
        t = t[1]
    f.add("depth%d" % depth)
    return sorted(f)



# ---- fixed probes: template features outside the TemplInst alphabet (reproducers reported by adversaries and their
# nearest controls).  (id, header, [(query, expected C++ type)], finding class or None).  A probe whose header is
# valid C++ must parse; each query must resolve to the expected type (g++ confirms the expectation first).
PROBES = [
    ("ellipsis", "template<class A> struct PrA { typedef int (*f1)(A, ...); typedef int (*f2)(A); };",
     [("PrA<int>::f1", "int (*)(int, ...)"), ("PrA<char>::f2", "int (*)(char)")], None),
    ("injected-default", "template<class A, class B = A *> struct PrB { typedef B second; typedef PrB self; };",
     [("PrB<int>::self::second", "int *"), ("PrB<int, char>::self", "PrB<int, char>")], None),
    ("dep-base-other-name", "template<class T> struct PrC { typedef T *bt; }; template<class U> struct PrD : PrC<U> { };",
     [("PrD<short>::bt", "short *")], None),
    ("alias-template", "template<class A, class B> struct PrE { typedef B second; }; template<class T> using PrV = PrE<T, T **>;",
     [("PrV<char>::second", "char **"), ("PrV<int>", "PrE<int, int **>")], None),
    ("same-simple-name-arguments", "namespace pa { struct K { typedef int t; }; } namespace pb { struct K { typedef char t; }; } "
     "template<class A> struct PrF { typedef typename A::t at; typedef A *ap; };",
     [("PrF<pa::K>::at", "int"), ("PrF<pb::K>::at", "char")], None),     # (-p shows pb::K as K: not asked here)
    # explicit / partial specialisations are not selected, and a typedef of an explicit specialisation is rejected
    ("explicit-specialisation-typedef", "template<class A> struct PrG { typedef A first; }; template<> struct PrG<bool> { typedef char first; }; "
     "typedef PrG<bool> PrGb;", [("PrG<int>::first", "int")], "C06-templ-specialisation"),
    ("explicit-specialisation-member", "template<class A> struct PrH { typedef A first; }; template<> struct PrH<long> { typedef char &first; };",
     [("PrH<long>::first", "char &")], "C06-templ-specialisation"),
    ("partial-specialisation-member", "template<class T, class U> struct PrI { typedef T first; }; template<class T> struct PrI<T, T> { typedef long first; };",
     [("PrI<char, char>::first", "long")], "C06-templ-specialisation"),
    ("specialisation-control", "template<class T, class U> struct PrJ { typedef T first; }; template<class T> struct PrJ<T, T> { typedef long first; };",
     [("PrJ<char, int>::first", "char")], None),
    # a template named through a dependent base that has the same template as injected class name
    ("name-through-dependent-base", "template<class A> struct PrK { typedef PrK self; }; template<class T> struct PrL : PrK<T> { typedef PrK<T> b; };",
     [("PrL<int>::b", "PrK<int>")], "C06-templ-name-through-dependent-base"),
    ("name-through-dependent-base-control", "template<class A> struct PrM { typedef A self; }; template<class T> struct PrN : PrM<T *> { typedef PrM<T> b; };",
     [("PrN<int>::b", "PrM<int>")], None),
]


def run_probes(ctx, work):
    """returns the number of probe queries judged"""
    n_done = 0
    exact = ctx.notes.setdefault("finding_class_failed_of_members", {})
    for pid, header, queries, cls in PROBES:
        fn = "probe_%s.h" % pid.replace("-", "_")
        open(os.path.join(work, fn), "w").write(header + "\n")
        # the expectation itself is checked by g++
        lines = ["#include <type_traits>", '#include "%s"' % fn] + [
            "static_assert(std::is_same<%s, %s>::value, \"\");" % (q, e) for q, e in queries]
        open(os.path.join(work, fn[:-2] + "_orig.cxx"), "w").write("\n".join(lines) + "\n")
        bad, err = gxx_bad_lines(work, fn[:-2] + "_orig.cxx")
        if bad:
            raise MachineryError("template probe %s: expectation != g++: %s" % (pid, err[:800]))
        rr = run.run_tool("parse_file", ["-p", fn], cwd=work, timeout=60, stdin="".join(q + "\n" for q, e in queries).encode())
        failed = None
        answers = []
        if rr.rc != 0 or rr.timed_out or "rror" in rr.stderr:
            failed = "parse_file rc=%s signal=%s timeout=%s: %s" % (rr.rc, rr.signal, rr.timed_out, rr.stderr.strip()[-200:])
        else:
            chunks = rr.stdout.split("Enter an expression or type name:\n")[1:]
            for (q, e), ch in zip(queries, chunks):
                m = re.search(r"^Type: (.*)$", ch, re.M)
                answers.append(m.group(1).strip() if m else None)
            lines = ["#include <type_traits>", '#include "%s"' % fn]
            for (q, e), a in zip(queries, answers):
                lines.append("static_assert(std::is_same<%s, %s>::value, \"\");" % (q, a if a else "void"))
            open(os.path.join(work, fn[:-2] + "_printed.cxx"), "w").write("\n".join(lines) + "\n")
            badl, err = gxx_bad_lines(work, fn[:-2] + "_printed.cxx")
            wrong = [(queries[l - 3][0], answers[l - 3]) for l in sorted(badl) if 3 <= l < 3 + len(queries)]
            if badl and not wrong:
                raise MachineryError("template probe %s: comparison TU fails outside any query: %s" % (pid, err[:600]))
            if wrong:
                failed = "; ".join("%s is printed as `%s`" % w for w in wrong)
        n_done += len(queries)
        if cls:
            m = exact.setdefault(cls, [0, 0])
            m[1] += 1
            m[0] += failed is not None
        if failed:
            ctx.violation("template probe %s: %s   [%s]" % (pid, failed, header), dict(probe=pid, header=header, queries=queries,
                          observed=failed, stat_key="templ-probe " + pid), classes=[cls] if cls else [])
    return n_done


# ---- what the database says about an EXPORTED instantiation (member functions with default arguments that mention a
# template parameter, variadic members, virtual bases, inherited virtualness, final): one fixed library
DB_PROBE = """struct Item { Item(int); };
struct NB { virtual ~NB(); virtual int f(int x) const; };
template<class T, class U> struct E {
__published:
  void a(T v = T(0)); void b(U u = U(7)); void c(T *p = static_cast<T *>(0)); void d(int n = (int)sizeof(T));
  int log(T first, ...);
  void e(short w = short(0), unsigned long n = (unsigned long)(2));
};
template<class T> struct Vt : virtual NB { __published: T get(); };
template<class T> struct Dt : NB { __published: T f(T x) const; };
template<class T> struct Fin final { __published: T get(); };
typedef E<char, Item> Ec; typedef Vt<int> Vi; typedef Dt<int> Di; typedef Fin<int> Fi;
"""
DB_PROBE_PROTOS = {"a": "void E< char, Item >::a(char v = char(0));", "b": "void E< char, Item >::b(Item u = Item(7));",
                   "c": "void E< char, Item >::c(char *p = static_cast<char *>(0));",
                   "d": "void E< char, Item >::d(int n = (int)(sizeof(char)));", "log": "int E< char, Item >::log(char first, ...);",
                   # (a functional cast to a multi-word built-in type has to be written as a C-style cast)
                   "e": "void E< char, Item >::e(short int w = (short int)(0), unsigned long int n = (unsigned long int)(2));"}


def run_db_probe(ctx, work):
    fn = "probe_db.h"
    open(os.path.join(work, fn), "w").write(DB_PROBE)
    r = subprocess.run(["g++", "-std=c++17", "-fsyntax-only", "-D__published=public", "-x", "c++", fn], cwd=work,
                       stdout=subprocess.PIPE, stderr=subprocess.PIPE, text=True)
    if r.returncode != 0:
        raise MachineryError("g++ rejects the database probe header: " + r.stderr[:800])
    rr = run.run_tool("interrogate", ["-od", "probe_db.in", "-oc", "probe_db.cxx", "-module", "m", "-library", "l", "-c", "-fnames", fn],
                      cwd=work, timeout=120)
    wrong = []
    if rr.rc != 0:
        wrong.append("interrogate fails: rc=%s signal=%s %s" % (rr.rc, rr.signal, rr.stderr.strip()[-200:]))
    else:
        db = idb.dump([os.path.join(work, "probe_db.in")])
        norm = lambda t: re.sub(r"\s+", "", t)
        protos = {}
        for f in db["functions"].values():
            if "<" in f["scoped_name"]:
                protos.setdefault(f["name"], []).append(f)
                if re.search(r"\b[TU]\b", f["prototype"]):
                    wrong.append("prototype of a member of an instantiation mentions a template parameter: " + f["prototype"])
        for name, exp in sorted(DB_PROBE_PROTOS.items()):
            got = [f["prototype"].strip() for f in protos.get(name, []) if f["scoped_name"].startswith("E<")]
            if [norm(g) for g in got] != [norm(exp)]:
                wrong.append("E<char, Item>::%s is described as %s, the declaration instantiates to `%s`" % (name, got, exp))
        fs = [f for f in protos.get("f", []) if f["scoped_name"].startswith("Dt<")]
        if len(fs) != 1 or not fs[0]["is_virtual"]:
            wrong.append("Dt<int>::f overrides NB::f(int) const but is not described as virtual: %s" % [f["prototype"] for f in fs])
        types = dict((t.get("name"), t) for t in db["types"].values())
        vt = types.get("Vt< int >")
        if not vt or len(vt["derivations"]) != 1 or vt["derivations"][0]["has_downcast"] or not vt["derivations"][0]["downcast_is_impossible"]:
            wrong.append("Vt<int> has a VIRTUAL base NB (no downcast possible); the database says %s" % (vt and vt["derivations"]))
        fi = types.get("Fin< int >")
        if not fi or not fi["is_final"]:
            wrong.append("Fin<int> is final; the database says is_final = %s" % (fi and fi["is_final"]))
    for w in wrong:
        ctx.violation("exported template instantiation described untruthfully: " + w, dict(header=DB_PROBE, observed=w,
                      stat_key="templ-db-probe"))
    return 10


def templ_inst(ctx, work):
    cap_p, cap_q = (1500, 12) if ctx.tier == "quick" else (25000, 30)
    rng = random.Random(6)
    cfgs = [("TemplInst_quick", None)] if ctx.tier == "quick" else [("TemplInst_thorough", None), ("TemplInst_sim", 30000)]
    progs = {}
    for cfg, sim in cfgs:
        dump = os.path.join(work, "templ_%s.ndjson" % cfg)
        res = tlc.run("TemplInstMC", cfg, env={"VERIF_DUMP": dump}, timeout=3000, workers=12 if not sim else 8,
                      simulate=sim, depth=10 if sim else None, coverage=not sim)
        ctx.add_tlc(res)
        tlc.must_ok(res)
        # the dump is large: keep, per program, its text form and a bounded reservoir of queries
        for r in tlc.iter_dump(dump):
            key = json.dumps([r["dflt"], sorted(r["defs"].items()), r["alias"]])
            p = progs.get(key)
            if p is None:
                p = progs[key] = [0, {}]
            p[0] += 1
            qk = json.dumps(r["q"])
            if len(p[1]) < 4 * cap_q:
                p[1][qk] = json.dumps(r["r"])
            elif qk not in p[1] and rng.random() < 4.0 * cap_q / p[0]:
                p[1].pop(rng.choice(sorted(p[1])))
                p[1][qk] = json.dumps(r["r"])
    n_programs_total = len(progs)
    keys = sorted(progs)
    if len(keys) > cap_p:
        keys = rng.sample(keys, cap_p)
        ctx.notes["templ_sampled_programs"] = "%d of %d" % (cap_p, n_programs_total)
    sel = {}
    for k in keys:
        d, df, al = json.loads(k)
        sel[k] = ((d, dict(df), al), [(json.loads(q), json.loads(r)) for q, r in sorted(progs[k][1].items())])
    progs = sel
    plist = [progs[k] for k in sorted(progs)]
    for p in plist:
        p[1].sort(key=repr)
    cases = []                       # (n, prog, [(q, r)])
    for n, (prog, qs) in enumerate(plist):
        if len(qs) > cap_q:
            qs = rng.sample(qs, cap_q)
        cases.append((n, prog, qs))
    B = 150
    batches = [cases[i:i + B] for i in range(0, len(cases), B)]

    def one(arg):
        bi, batch = arg
        hdr = "ti%03d.h" % bi
        src = list(PRELUDE)
        for n, prog, qs in batch:
            src += render_prog(n, prog, force_fwd=(n % 3 == 0))
        open(os.path.join(work, hdr), "w").write("\n".join(src) + "\n")
        # (0) spec sanity
        lines = ["#include <type_traits>", '#include "%s"' % hdr]
        for n, prog, qs in batch:
            for q, r in qs:
                lines.append("static_assert(std::is_same<%s, %s>::value, \"\");" % (rt(q, n), rt(r, n)))
        open(os.path.join(work, "ti%03d_orig.cxx" % bi), "w").write("\n".join(lines) + "\n")
        bad, err = gxx_bad_lines(work, "ti%03d_orig.cxx" % bi)
        if bad:
            ln = sorted(bad)[0]
            return ("sanity", "line %d: %s\n%s" % (ln, lines[ln - 1] if ln <= len(lines) else "?", err[:1500]))
        # (1)+(2) parse_file -p, with batch isolation
        answers, rejected = {}, []
        cnt = [0]

        def ask(group):
            cnt[0] += 1
            fn = "ti%03d_g%04d.h" % (bi, cnt[0])
            src2 = list(PRELUDE)
            for n, prog, qs in group:
                src2 += render_prog(n, prog, force_fwd=(n % 3 == 0))
            open(os.path.join(work, fn), "w").write("\n".join(src2) + "\n")
            qlist = [(n, qi) for n, prog, qs in group for qi in range(len(qs))]
            stdin = "".join(rt(qs[qi][0], n) + "\n" for n, prog, qs in group for qi in range(len(qs)))
            rr = run.run_tool("parse_file", ["-p", fn], cwd=work, timeout=600, stdin=stdin.encode())
            ok = rr.rc == 0 and not rr.timed_out and "rror" not in rr.stderr
            if ok:
                chunks = rr.stdout.split("Enter an expression or type name:\n")[1:]
                if len(chunks) < len(qlist):
                    ok = False
                else:
                    for (n, qi), ch in zip(qlist, chunks):
                        m = re.search(r"^Type: (.*)$", ch, re.M)
                        answers[(n, qi)] = m.group(1).strip() if m else ("?", ch.strip().split("\n")[0][:200])
            if not ok and len(group) == 1:
                rejected.append((group[0][0], "rc=%s signal=%s timeout=%s %s" % (rr.rc, rr.signal, rr.timed_out, rr.stderr.strip()[-300:])))
            return ok
        run.isolate(batch, ask, max_singletons=40)
        rej = set(n for n, _ in rejected)
        lines = ["#include <type_traits>", '#include "%s"' % hdr]
        owner, bad_cases = {}, {}
        compared = 0
        for n, prog, qs in batch:
            if n in rej:
                continue
            for qi, (q, r) in enumerate(qs):
                a = answers.get((n, qi))
                if not isinstance(a, str):
                    bad_cases[(n, qi)] = a
                    continue
                if "ns1::" in rt(r, n) or "ns2::" in rt(r, n):
                    # the -p interface names a type from the scope it is declared in (ns2::K is shown as K):
                    # such results are judged through the database view only
                    continue
                lines.append("static_assert(std::is_same<%s, %s>::value, \"\");" % (rt(q, n), a))
                owner[len(lines)] = (n, qi)
                compared += 1
        open(os.path.join(work, "ti%03d_printed.cxx" % bi), "w").write("\n".join(lines) + "\n")
        badl, err = gxx_bad_lines(work, "ti%03d_printed.cxx" % bi)
        for l in badl:
            if l in owner:
                bad_cases[owner[l]] = answers[owner[l]]
            else:
                return ("sanity", "printed-type TU fails outside any case:\n" + err[:1500])
        # (3) database prototypes (one query per program)
        pub = []
        for n, prog, qs in batch:
            if n in rej:
                continue
            # up to three queries per program, those whose result names a namespace member first
            order = sorted(range(len(qs)), key=lambda qi: (0 if "ns" in rt(qs[qi][1], n) else 1, qi))
            for qi in order[:3]:
                pub.append((n, qi))
        byn = dict((c[0], c) for c in batch)
        protos = {}
        dbfail = []                    # [((n, qi), stderr)]: single functions interrogate does not get through
        cnt3 = [0]

        def publish(items):
            cnt3[0] += 1
            fn = "tq%03d_%03d.h" % (bi, cnt3[0])
            open(os.path.join(work, fn), "w").write('#include "%s"\n__begin_publish\n%s\n__end_publish\n' % (
                hdr, "\n".join("%s r%d_%d();" % (rt(byn[n][2][qi][0], n), n, qi) for n, qi in items)))
            rr = run.run_tool("interrogate", ["-od", fn[:-2] + ".in", "-oc", fn[:-2] + ".cxx", "-module", "m", "-library", "l",
                                              "-c", "-fnames", fn], cwd=work, timeout=600)
            if rr.rc != 0 or rr.timed_out:
                if len(items) == 1:
                    dbfail.append((items[0], "rc=%s signal=%s timeout=%s %s" % (rr.rc, rr.signal, rr.timed_out, rr.stderr.strip()[-300:])))
                return False
            db = idb.dump([os.path.join(work, fn[:-2] + ".in")])
            for f in db.get("functions", {}).values():
                m = re.match(r"r(\d+)_(\d+)$", f["name"])
                if m:
                    protos[(int(m.group(1)), int(m.group(2)))] = f["prototype"].strip()
            return True
        if pub and not rej:
            run.isolate(pub, publish, max_singletons=30)
        failed3 = set(k for k, _ in dbfail)
        lines = ["#include <type_traits>", '#include "%s"' % hdr]
        owner3, bad3, missing3 = {}, {}, []
        for n, qi in pub:
            p = protos.get((n, qi))
            if p is None:
                if (n, qi) not in failed3 and not rej:
                    missing3.append((n, qi))
                continue
            m = re.match(r"(.*?)\s*\b(?:r%d_%d)\(" % (n, qi), p)
            ty = m.group(1) if m else "?"
            lines.append("static_assert(std::is_same<%s, %s>::value, \"\");" % (rt(byn[n][2][qi][0], n), ty))
            owner3[len(lines)] = (n, qi)
        open(os.path.join(work, "ti%03d_db.cxx" % bi), "w").write("\n".join(lines) + "\n")
        badl, err = gxx_bad_lines(work, "ti%03d_db.cxx" % bi)
        for l in badl:
            if l in owner3:
                bad3[owner3[l]] = protos[owner3[l]]
            else:
                return ("sanity", "database TU fails outside any case:\n" + err[:1500])
        # (4) member functions of exported instantiations: for one root per template and program (a depth-1 query
        # T<args>::slot of the dump gives the expected type), `typedef T<args> Inst;` exports the instantiation and the
        # database must describe  slot-type f(slot-type x, int k = 0) const  and  static slot-type g()  with that type
        mcases = {}                     # (n, T, slot) -> (root term, expected term)
        for n, prog, qs in batch:
            if n in rej or n % 2 != 1:
                continue
            seen_T = {}
            for q, r in qs:
                if q[0] == "m" and q[1][0] == "t" and q[1][1] in "PQR" and q[2] in ("m1", "m2") and simple_slot(prog[1], q[1][1], q[2]):
                    T = q[1][1]
                    if seen_T.setdefault(T, json.dumps(q[1])) == json.dumps(q[1]):
                        mcases[(n, T, q[2])] = (q[1], r)
        bad4, n4 = {}, 0
        if mcases:
            src4 = list(PRELUDE)
            for n, prog, qs in batch:
                if any(k[0] == n for k in mcases):
                    src4 += render_prog(n, prog, force_fwd=(n % 3 == 0), methods=True)
                    for T in "PQR":
                        roots = set(json.dumps(v[0]) for k, v in mcases.items() if k[0] == n and k[1] == T)
                        for j, rj in enumerate(sorted(roots)):
                            src4.append("typedef %s Inst%d_%s%d;" % (rt(json.loads(rj), n), n, T, j))
            fn4 = "tm%03d.h" % bi
            open(os.path.join(work, fn4), "w").write("\n".join(src4) + "\n")
            rr = run.run_tool("interrogate", ["-od", fn4[:-2] + ".in", "-oc", fn4[:-2] + ".cxx", "-module", "m", "-library", "l",
                                              "-c", "-fnames", fn4], cwd=work, timeout=600)
            if rr.rc != 0 or rr.timed_out:
                bad4[("batch", bi)] = "interrogate rc=%s signal=%s timeout=%s %s" % (rr.rc, rr.signal, rr.timed_out, rr.stderr.strip()[-300:])
            else:
                db = idb.dump([os.path.join(work, fn4[:-2] + ".in")])
                found = {}
                for f in db.get("functions", {}).values():
                    m = re.match(r"([fg])(\d+)_([PQR])(m[12])$", f["name"])
                    if m:
                        found.setdefault((m.group(1), int(m.group(2)), m.group(3), m.group(4)), []).append(f)
                lines = ["#include <type_traits>", "#define __published public", '#include "%s"' % fn4]
                owner4 = {}
                for (n, T, sl), (root, r) in sorted(mcases.items()):
                    exp = rt(r, n)
                    for kind in "fg":
                        fs = found.get((kind, n, T, sl), [])
                        if len(fs) != 1:
                            bad4[(n, T, sl, kind)] = "%d functions named %s%d_%s%s in the database" % (len(fs), kind, n, T, sl)
                            continue
                        proto = fs[0]["prototype"].strip()
                        sc = fs[0]["scoped_name"]
                        i0 = proto.find(sc + "(")
                        if i0 < 0:
                            bad4[(n, T, sl, kind)] = "prototype `%s` does not contain `%s(`" % (proto, sc)
                            continue
                        ret = proto[:i0].strip()
                        if ret.startswith("static "):
                            ret = ret[7:].strip()
                        cls_txt = sc[:sc.rfind("::")]
                        lines.append("static_assert(std::is_same<%s, %s>::value && std::is_same<%s, %s>::value, \"\");" % (
                            ret, exp, cls_txt, rt(root, n)))
                        owner4[len(lines)] = ((n, T, sl, kind), "return type / class: " + proto)
                        if kind == "f":
                            args = proto[i0 + len(sc) + 1:]
                            depth, cut = 0, None
                            for ci, ch in enumerate(args):
                                if ch in "(<[":
                                    depth += 1
                                elif ch in ")>]":
                                    if depth == 0:
                                        break
                                    depth -= 1
                                elif ch == "," and depth == 0 and cut is None:
                                    cut = ci
                            p1 = re.sub(r"\bx\s*$", "", args[:cut if cut is not None else ci]).strip()
                            lines.append("static_assert(std::is_same<%s, %s>::value, \"\");" % (p1, exp))
                            owner4[len(lines)] = ((n, T, sl, kind), "parameter type: " + proto)
                            if not proto.rstrip(";").rstrip().endswith("const") or "int k = 0" not in proto:
                                bad4[(n, T, sl, "f-shape")] = "prototype lost `const` or the default argument: " + proto
                        n4 += 1
                open(os.path.join(work, "tm%03d_cmp.cxx" % bi), "w").write("\n".join(lines) + "\n")
                badl, err = gxx_bad_lines(work, "tm%03d_cmp.cxx" % bi)
                for l in badl:
                    if l in owner4:
                        bad4[owner4[l][0]] = owner4[l][1]
                    else:
                        return ("sanity", "member-function TU fails outside any case:\n" + err[:1500])
        return ("ok", batch, rejected, bad_cases, compared, bad3, missing3, dbfail, len(owner3), bad4, n4, mcases)

    total = 0
    stats = {}
    for res in run.pmap(one, list(enumerate(batches))):
        if res[0] == "sanity":
            raise MachineryError("TemplInst spec != g++: %s" % res[1])
        _, batch, rejected, bad_cases, compared, bad3, missing3, dbfail, n3, bad4, n4, mcases = res
        byn = dict((c[0], c) for c in batch)
        total += compared + len(rejected) + n3 + n4
        stats["member_functions"] = stats.get("member_functions", 0) + n4
        for key, what in sorted(bad4.items(), key=repr):
            if key[0] == "batch":
                ctx.violation("interrogate fails on exported template instantiations: %s" % what, dict(stat_key="templ-methods-batch"))
                continue
            n, T, sl = key[0], key[1], key[2]
            prog = byn[n][1]
            root, r = mcases[(n, T, sl)]
            ctx.violation("member function of an exported instantiation is described with another type: %s   typedef %s Inst;  slot %s (spec = g++: %s): %s" % (
                " ".join(render_prog(n, prog, n % 3 == 0, methods=True)), rt(root, n), sl, rt(r, n), what),
                dict(program=render_prog(n, prog, n % 3 == 0, methods=True), root=rt(root, n), slot=sl, expected=rt(r, n), observed=what,
                     view="database, member functions", stat_key="templ-method " + " ".join(feats(prog, ["m", root, sl]))),
                # (a template named by another one with an equally named parameter is also exported in that
                # half-instantiated form, with its member functions: the same finding)
                classes=templ_classes(n, prog, ["m", root, sl]) +
                (["C06-templ-shared-parameter-name"] if any(h[1] == T for h in shared_name_uses(n, prog)) else []))
        for n, info in rejected:
            prog = byn[n][1]
            ctx.violation("valid class templates rejected by parse_file (%s): %s" % (info, " ".join(render_prog(n, prog, n % 3 == 0))),
                          dict(program=render_prog(n, prog, n % 3 == 0), info=info, stat_key="templ-reject"),
                          classes=templ_classes(n, prog, None))
        for (n, qi), a in sorted(bad_cases.items()):
            prog, (q, r) = byn[n][1], byn[n][2][qi]
            ctx.violation("template instantiation resolves to another type: %s   %s  is printed as `%s` (spec = g++: %s)" % (
                " ".join(render_prog(n, prog, n % 3 == 0)), rt(q, n), a, rt(r, n)),
                dict(program=render_prog(n, prog, n % 3 == 0), query=rt(q, n), printed=a, expected=rt(r, n), view="parse_file",
                     stat_key="templ " + " ".join(feats(prog, q))),
                classes=templ_classes(n, prog, q))
        for (n, qi), a in sorted(bad3.items()):
            prog, (q, r) = byn[n][1], byn[n][2][qi]
            ctx.violation("database prototype of a function returning a template member type differs: %s   %s r();  is recorded as `%s` (spec = g++: %s)" % (
                " ".join(render_prog(n, prog, n % 3 == 0)), rt(q, n), a, rt(r, n)),
                dict(program=render_prog(n, prog, n % 3 == 0), query=rt(q, n), prototype=a, expected=rt(r, n), view="database",
                     stat_key="templ-db " + " ".join(feats(prog, q))),
                classes=templ_classes(n, prog, q))
        for n, qi in missing3:
            prog, (q, r) = byn[n][1], byn[n][2][qi]
            stats["db_missing"] = stats.get("db_missing", 0) + 1
        for (n, qi), info in dbfail:
            prog, (q, r) = byn[n][1], byn[n][2][qi]
            ctx.violation("interrogate fails on a function returning a template member type (%s): %s   %s r();" % (
                info[-250:], " ".join(render_prog(n, prog, n % 3 == 0)), rt(q, n)),
                dict(program=render_prog(n, prog, n % 3 == 0), query=rt(q, n), info=info, view="database",
                     stat_key="templ-interrogate-fail " + " ".join(feats(prog, q))),
                classes=templ_classes(n, prog, q))
        for n, prog, qs in batch:
            for q, r in qs:
                for c in templ_classes(n, prog, q):
                    m = ctx.notes.setdefault("finding_class_failed_of_members", {}).setdefault(c, [0, 0])
                    m[1] += 1
        for (n, qi) in bad_cases:
            for c in templ_classes(n, byn[n][1], byn[n][2][qi][0]):
                ctx.notes["finding_class_failed_of_members"][c][0] += 1
    total += run_probes(ctx, work)
    total += run_db_probe(ctx, work)
    ctx.notes["templ_programs"] = len(cases)
    ctx.notes["templ_queries"] = sum(len(c[2]) for c in cases)
    ctx.notes["templ_db_functions_absent"] = stats.get("db_missing", 0)
    ctx.notes["templ_member_functions_checked"] = stats.get("member_functions", 0)
    return total


def expansions(prog, q):
    """The member / alias definitions that the evaluation of query q expands, in order (the spec's Norm, call by name,
    without the completeness side conditions — the spec has already established that q is well formed)."""
    dflt, defs, alias = prog
    order = []

    def subst(t, T, args):
        k = t[0]
        if k == "b":
            return t
        if k == "p":
            return args[t[1] - 1]
        if k in ("ptr", "ref", "c"):
            return [k, subst(t[1], T, args)]
        if k == "t":
            return ["t", t[1], [subst(a, T, args) for a in t[2]]]
        if k == "m":
            return ["m", subst(t[1], T, args), t[2]]
        if k == "own":
            return subst(defs[T][t[1]], T, args)
        if k == "self":
            return ["t", T, args]
        raise MachineryError("term %r" % (t,))

    def norm(t):
        k = t[0]
        if k == "b":
            return norm(NAME_ALIAS[t[1]]) if t[1] in NAME_ALIAS else t
        if k in ("ptr", "ref", "c"):
            n = norm(t[1])
            if k == "ref" and n[0] == "ref":
                return n
            if k == "c" and n[0] in ("ref", "c"):
                return n
            return [k, n]
        if k == "t":
            a = [norm(x) for x in t[2]]
            if t[1] == "V":
                order.append(("V", "alias"))
                return norm(subst(alias, "V", a))
            if t[1] == "P" and len(a) == 1:
                a.append(norm(subst(dflt, "P", a)))
            return ["t", t[1], a]
        if k == "m":
            n = norm(t[1])
            if n[0] == "c":
                n = n[1]
            if n[0] == "b":
                return CLASS_MEMBER[n[1]]
            order.append((n[1], t[2]))
            return norm(subst(defs[n[1]][t[2]], n[1], n[2]))
        raise MachineryError("term %r" % (t,))
    res = norm(q)
    return order, res


def _walk_terms(prog):
    """(owner template, slot, term) for every definition of the program"""
    dflt, defs, alias = prog
    for T in "PQR":
        for s in ("m1", "m2"):
            if defs[T][s][0] != "none":
                yield T, s, defs[T][s]
    if alias[0] != "none":
        yield "V", "alias", alias
    if dflt[0] != "none":
        yield "P", "dflt", dflt


def _subterms(t):
    yield t
    k = t[0]
    if k in ("ptr", "ref", "c", "m"):
        for x in _subterms(t[1]):
            yield x
    elif k == "t":
        for a in t[2]:
            for x in _subterms(a):
                yield x


def self_and_named(prog):
    """Templates T that use the injected class name in a member AND are named with explicit arguments somewhere in the
    program (in their own body with other arguments, in another template's body, in the alias or the default).
    Input predicate of C06-templ-injected-name-partial."""
    selfs = set(T for T, s, t in _walk_terms(prog) if any(x[0] == "self" for x in _subterms(t)))
    named = set(x[1] for T, s, t in _walk_terms(prog) for x in _subterms(t) if x[0] == "t")
    return selfs & named


def traits_in_argument(prog):
    """a template-id one of whose arguments contains  typename <parameter>::t  — input predicate of
    C06-templ-traits-in-argument"""
    for T, s, t in _walk_terms(prog):
        for x in _subterms(t):
            if x[0] == "t":
                for a in x[2]:
                    if any(y[0] == "m" and y[1][0] == "p" for y in _subterms(a)):
                        return True
    return False


def mutual_projection(prog):
    """templates T whose member projects (typename U<...>::m) out of another template U that in turn names T —
    input predicate of C06-templ-mutual-instantiation"""
    dflt, defs, alias = prog
    out = set()
    for T, s, t in _walk_terms(prog):
        for x in _subterms(t):
            if x[0] == "m" and x[1][0] == "t" and x[1][1] != T and x[1][1] in "PQR":
                U = x[1][1]
                for s2 in ("m1", "m2"):
                    b = defs[U][s2]
                    if b[0] != "none" and any(y[0] == "t" and y[1] == T for y in _subterms(b)):
                        out.add(T)
    return out


def default_names_own_template(prog):
    """P's default argument names P itself and a definition relies on that default — C06-templ-default-names-own-template"""
    dflt = prog[0]
    if dflt[0] == "none" or not names_tmpl(dflt, "P"):
        return False
    return any(x[0] == "t" and x[1] == "P" and len(x[2]) == 1 for T, s, t in _walk_terms(prog) for x in _subterms(t))


def templ_classes(n, prog, q):
    """finding classes of (case number, program, query) — input predicates only"""
    out = []
    if q is not None:
        mp = mutual_projection(prog)
        if mp:
            order0, _ = expansions(prog, q)
            if set(T for T, s in order0) & (mp | set("PQR")) and any(T in mp for T, s in order0):
                out.append("C06-templ-mutual-instantiation")
        if default_names_own_template(prog):
            out.append("C06-templ-default-names-own-template")
        order, _ = expansions(prog, q)
        used = set(T for T, s in order)
        if self_and_named(prog) & used and len(order) >= 2:
            out.append("C06-templ-injected-name-partial")
        if traits_in_argument(prog) and len(order) >= 2:
            out.append("C06-templ-traits-in-argument")
    hits = shared_name_uses(n, prog)
    if hits:
        if q is None:
            out.append("C06-templ-shared-parameter-name")
        else:
            tainted = set((T, s) for T, U, i, s in hits)
            identity = set((T, s) for T, U, i, s in hits if s is not None and i == "all")
            order, _ = expansions(prog, q)
            # the evaluation expands a tainted definition (even as its last step the result can be that of ANOTHER
            # instantiation made earlier in the same run: R<char &>::m1 answered with R<int>'s P<int, int &>)
            if any(d in tainted for d in order):
                out.append("C06-templ-shared-parameter-name")
    return out
