"""Development entry for the IdbBuild part of C11 (`./check IDBBUILD`): runs vf/checks/_idbbuild.py alone, so that
tools/mutant.sh can be pointed at it.  Not registered; c11.py calls _idbbuild.run_part itself."""
from .. import build
from . import _idbbuild


def run_check(ctx):
    build.ensure("hooked")
    _idbbuild.run_part(ctx, ctx.tmp)
