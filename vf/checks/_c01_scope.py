"""C01, scope part: spec WrapCScope (TLC enumerates libraries whose functions use types that live in SCOPES -
classes in namespaces, nested classes, nested / namespace enumerations, two classes named P in na:: and nb:: -,
have 4..6 parameters with 0..3 trailing DEFAULTS of every form (negative literal, `1 << 3`, parenthesised
expression, enumerator with / without its scope, string literal with escapes, nullptr), and CAST along
D : L, nb::R (R at a non-zero offset) and V : virtual L; every wrapper variant is called Rounds times along a
covering diagonal of boundary values / objects (a derived object wherever a base is expected)).

Replay as in c01.py: one header + implementation + native driver per batch, interrogate for every option set,
wrappers found and called THROUGH THE DATABASE ONLY (harness/wrapcs_drive.py), results + state of every object
after every step + the log of the instrumented bodies compared with the spec and with the native run
(spec != native => MachineryError).

    from ._c01_scope import run_part;  run_part(ctx, work)
"""
import json, os, subprocess, sys, threading, collections
from ..common import MachineryError, REPO, HARNESS
from .. import build, tlc, run, idb
from .. import wraplib as W
from . import c01

JOBS = 6
CLS_SEQ = ["AP", "BP", "API", "O", "OI", "L", "R", "D", "V"]
BASES = {"D": ["L", "R"], "V": ["L"]}
ENUM_VALS = {"eA": [("m0", 0), ("m1", 4), ("m2", 9)], "eB": [("m0", 1), ("m1", 2), ("m2", 300)],
             "eO": [("k0", 0), ("k1", 3), ("k2", -7)], "eL": [("l0", 0), ("l1", 9)]}
ENUM_HOME = {"eL": "AP", "eO": "O"}          # the class an enumeration is nested in
OBJ_KINDS = W.OBJ_KINDS


def cxx_cls(c, f):
    return {"AP": "na_%d::P", "BP": "nb_%d::P", "API": "na_%d::P::Inner", "O": "Outer_%d", "OI": "Outer_%d::Inner",
            "L": "L_%d", "R": "nb_%d::R", "D": "D_%d", "V": "V_%d"}[c] % f


def cxx_enum(e, f):
    return {"eA": "na_%d::Mode", "eB": "nb_%d::Mode", "eO": "Outer_%d::Mode", "eL": "na_%d::P::Lvl"}[e] % f


def enum_scope(e, f):
    return {"eA": "na_%d" % f, "eB": "nb_%d" % f, "eO": "Outer_%d" % f, "eL": "na_%d::P" % f}[e]


def derives(c, b):
    return c == b or b in BASES.get(c, [])


def has_st(c):
    return c != "R"


def has_rst(c):
    return c in ("R", "D")


def part_expr(c, e):
    """WrapCScope!PartState of what pointer expression e (a `c *`) designates"""
    if c == "R":
        return "%s->rst" % e
    if c == "D":
        return "((%s->st + 7 * %s->rst) %% 32768)" % (e, e)
    return "%s->st" % e


def sdefval(kd, i):
    """WrapCScope!SDefVal -> (spec value, C++ text or None = wraplib.cpp_literal of the value)"""
    k = kd["k"]
    if k == "i32":
        if i % 3 == 0:
            return 8, "1 << 3"
        if i % 3 == 1:
            return -70000 - i, "-%d" % (70000 + i)
        return (2 + i) * 4, "(2 + %d) * 4" % i
    if k == "senum":
        return ENUM_VALS[kd["c"]][1][1], "ENUMERATOR"
    if k in ("cstr", "string"):
        return ({"t": 3, "n": -1}, None) if i % 2 == 0 else ({"t": 1, "n": -1}, None)
    if k == "objPtr":
        return 0, "nullptr"
    return W.defval(k, i), None


def sval(kd, v):
    k = kd["k"]
    if k == "senum" or k in OBJ_KINDS:
        return v
    return W.val(k, v)


class SFn:
    def __init__(self, gid, fam, sig, cname):
        self.gid, self.fam, self.sig, self.cname = gid, fam, sig, cname
        self.cls = sig["cls"]

    @property
    def cxxcls(self):
        return None if self.cls == "-" else cxx_cls(self.cls, self.fam)

    @property
    def scoped(self):
        return self.cname if self.cls == "-" else "%s::%s" % (self.cxxcls, self.cname)

    def desc(self):
        return dict(gid=self.gid, fam=self.fam, sig=self.sig, cname=self.cname, cls=self.cxxcls, sid=self.sig["id"])


def ptype(kd, pos, fam, sid):
    k = kd["k"]
    if k == "senum":
        return cxx_enum(kd["c"], fam)
    if k in OBJ_KINDS:
        c = cxx_cls(kd["c"], fam)
        return {"objPtr": c + " *", "objRef": c + " &", "objVal": c, "constObjRef": "const " + c + " &"}[k]
    if k == "string" and pos == 0:
        return "std::string"
    return W.ptype(k, pos, fam, sid)


def pname(fn, i):
    return "a%d_%s" % (i + 1, fn.sig["ps"][i]["k"])


def default_text(fn, i):
    kd = fn.sig["ps"][i]
    v, text = sdefval(kd, i + 1)
    if text == "ENUMERATOR":
        name = ENUM_VALS[kd["c"]][1][0]
        # inside the class an enumeration is nested in, the enumerator is also written without its scope
        if ENUM_HOME.get(kd["c"]) == fn.cls and i % 2 == 1:
            return name
        return "%s::%s" % (enum_scope(kd["c"], fn.fam), name)
    if text is None:
        return W.cpp_literal(kd["k"], W.val(kd["k"], v))
    return text


def params_text(fn, with_defaults):
    s = fn.sig
    n = len(s["ps"])
    out = []
    for i, kd in enumerate(s["ps"]):
        t = ptype(kd, i + 1, fn.fam, s["id"])
        d = " = " + default_text(fn, i) if with_defaults and i >= n - s["nd"] else ""
        out.append("%s%s%s%s" % (t, "" if t.endswith(("*", "&")) else " ", pname(fn, i), d))
    return ", ".join(out)


def rtype(fn):
    return ptype(fn.sig["ret"], 0, fn.fam, 0)


def declaration(fn):
    s = fn.sig
    if s["fk"] == "ctor":
        return "%s(%s);" % (fn.cxxcls.split("::")[-1], params_text(fn, True))
    pre = "static " if s["fk"] == "static" else ""
    return "%s%s %s(%s)%s;" % (pre, rtype(fn), fn.cname, params_text(fn, True), " const" if W.const_this(s) else "")


def this_is_cand(s):
    r = s["ret"]
    return W.has_this(s) and r["k"] in OBJ_KINDS and derives(s["cls"], r["c"]) and (r["k"] == "constObjRef" or not W.const_this(s))


def cand_params(s):
    r = s["ret"]
    ok = ("objPtr", "objRef", "constObjRef") if r["k"] == "constObjRef" else ("objPtr", "objRef")
    return [i for i, kd in enumerate(s["ps"]) if kd["k"] in ok and derives(kd["c"], r["c"])]


def body(fn):
    s = fn.sig
    fk = s["fk"]
    f = fn.fam
    L = []
    ts = part_expr(s["cls"], "this") if W.has_this(s) else "0"
    L.append("vfs::Call c(%d, %dL, %s);" % (fn.gid, s["id"], ts))
    for i, kd in enumerate(s["ps"]):
        a = pname(fn, i)
        k = kd["k"]
        if k == "senum":
            L.append("c.s((int)%s);" % a)
        elif k == "objPtr":
            L.append("c.obj(%s == 0, %s ? %s : 0);" % (a, a, part_expr(kd["c"], a)))
        elif k in OBJ_KINDS:
            L.append("c.obj(false, %s);" % part_expr(kd["c"], "(&%s)" % a))
        else:
            L.append(W.ARG_STMT[k] % a)
    L.append("long m = c.mix(); (void)m;")
    if fk == "ctor":
        if has_st(s["cls"]):
            L.append("st = (int)(m % 32768);")
        if has_rst(s["cls"]):
            L.append("rst = (int)((m / 7) % 32768);")
    elif W.has_this(s) and not W.const_this(s):
        if s["cls"] == "R":
            L.append("rst = (int)((rst + c.weight()) % 32768);")
        else:
            L.append("st = (int)((st + c.weight()) % 32768);")
            if s["cls"] == "D":
                L.append("rst = (rst + 1) % 32768;")
    r = s["ret"]
    rc = cxx_cls(r["c"], f) if r["k"] in OBJ_KINDS else None
    if r["k"] in ("objPtr", "objRef", "constObjRef"):
        L.append("%s *cands[8]; int nc = 0;" % rc)
        if this_is_cand(s):
            L.append("cands[nc++] = (%s *)this;" % rc)          # derived -> base: adjusts the pointer
        for i in cand_params(s):
            a = pname(fn, i)
            if s["ps"][i]["k"] == "objPtr":
                L.append("if (%s) cands[nc++] = %s;" % (a, a))
            else:
                L.append("cands[nc++] = (%s *)&%s;" % (rc, a))
    for i, kd in enumerate(s["ps"]):
        a = pname(fn, i)
        m = "rst" if kd["c"] == "R" else "st"
        if kd["k"] == "objPtr":
            L.append("if (%s) %s->%s = (%s->%s + 3) %% 32768;" % (a, a, m, a, m))
        elif kd["k"] == "objRef":
            L.append("%s.%s = (%s.%s + 3) %% 32768;" % (a, m, a, m))
    k = r["k"]
    if fk == "ctor" or k == "void":
        pass
    elif k == "senum":
        vals = ENUM_VALS[r["c"]]
        L.append("static const int V[%d] = {%s}; return (%s)V[m %% %d];" % (len(vals), ", ".join(str(v) for _, v in vals), cxx_enum(r["c"], f), len(vals)))
    elif k == "enum":
        L.append("return (En)vfrt::enc_enum(m);")
    elif k == "cstr":
        L.append("static std::string hold; return vfrt::enc_cstr(m, hold);")
    elif k == "objPtr":
        L.append("return vfrt::enc_ptr(m, cands, nc, true);")
    elif k in ("objRef", "constObjRef"):
        L.append("return *vfrt::enc_ptr(m, cands, nc, false);")
    elif k == "objVal":
        L.append("return %s(vfrt::Raw(), %s, %s);" % (rc, "(int)(m % 32768)" if has_st(r["c"]) else "0",
                                                        "(int)(((m % 32768) / 7) % 32768)" if has_rst(r["c"]) else "0"))
    elif k in ("long", "ulong"):
        L.append("return (%s)vfrt::enc_%s(m);" % (W.CTYPE[k], "i64" if k == "long" else "u64"))
    else:
        L.append("return vfrt::enc_%s(m);" % k)
    return L


RAW_INIT = {"D": " : L_%d(vfrt::Raw(), 0, 0), nb_%d::R(vfrt::Raw(), 0, 0)", "V": " : L_%d(vfrt::Raw(), 0, 0)"}


def definition(fn):
    s = fn.sig
    if s["fk"] == "ctor":
        init = RAW_INIT.get(s["cls"], "").replace("%d", str(fn.fam))
        head = "%s::%s(%s)%s" % (fn.cxxcls, fn.cxxcls.split("::")[-1], params_text(fn, False), init)
        pre = ["st = 0;"] if has_st(s["cls"]) and s["cls"] not in ("D", "V") else []
        pre += ["rst = 0;"] if s["cls"] == "R" else []
        return "%s {\n  %s\n}\n" % (head, "\n  ".join(pre + body(fn)))
    scope = "" if fn.cls == "-" else fn.cxxcls + "::"
    head = "%s %s%s(%s)%s" % (rtype(fn), scope, fn.cname, params_text(fn, False), " const" if W.const_this(s) else "")
    return "%s {\n  %s\n}\n" % (head, "\n  ".join(body(fn)))


def base_ctor_sig(c):
    return dict(id=CLS_SEQ.index(c) + 1, fk="ctor", cls=c, name=0, ret=dict(k="void", c="-"), ps=[dict(k="i32", c="-")], nd=0)


class SBatch:
    def __init__(self, index):
        self.index, self.fams, self.fns = index, [], []
        self.features = frozenset()

    def header(self, prom=False):
        pub = "public" if prom else "PUBLISHED"
        bp, ep = ("", "") if prom else ("BEGIN_PUBLISH", "END_PUBLISH")
        L = ["#ifndef SLIB%d_H" % self.index, "#define SLIB%d_H" % self.index, "#include <string>",
             "#ifdef CPPPARSER", "#define PUBLISHED __published", "#define BEGIN_PUBLISH __begin_publish",
             "#define END_PUBLISH __end_publish", "#else", "#define PUBLISHED public", "#define BEGIN_PUBLISH",
             "#define END_PUBLISH", "namespace vfrt { struct Raw; }", "#endif", "", bp,
             "enum En { e0, e1 = 5, e2 = 70000 };", ep, ""]
        for f in self.fams:
            byc = {c: [fn for fn in self.fns if fn.fam == f and fn.cls == c] for c in CLS_SEQ + ["-"]}

            def cls_body(c, ind, extra=()):
                out = [ind + pub + ":"]
                out += [ind + "  " + x for x in extra]
                out += [ind + "  " + declaration(fn) for fn in byc[c]]
                out.append(ind + "  int %s;" % ("rst" if c == "R" else "st") if c not in ("D", "V") else ind + "  // state: the parts of the bases")
                out.append(ind + "public:")
                if c in ("L", "R"):
                    out.append(ind + "  virtual ~%s();" % cxx_cls(c, f).split("::")[-1])
                out.append("#ifndef CPPPARSER")
                out.append(ind + "  %s(const vfrt::Raw &, int s, int r);" % cxx_cls(c, f).split("::")[-1])
                out.append("#endif")
                return out
            enum = lambda e: "enum %s { %s };" % (cxx_enum(e, f).split("::")[-1], ", ".join("%s = %d" % nv for nv in ENUM_VALS[e]))
            L += ["namespace na_%d { class P; %s }" % (f, enum("eA")),
                  "namespace nb_%d { class P; class R; %s }" % (f, enum("eB")),
                  "class L_%d; class D_%d; class V_%d;" % (f, f, f)]
            L += ["class Outer_%d {" % f] + cls_body("O", "", [enum("eO"), "class Inner {"] + cls_body("OI", "  ") + ["};"]) + ["};"]
            L += ["namespace na_%d {" % f, "class P {"] + cls_body("AP", "", [enum("eL"), "class Inner {"] + cls_body("API", "  ") + ["};"]) + ["};", "}"]
            # nb::P has another layout than na::P: its state does not sit at the same offset
            L += ["namespace nb_%d {" % f, "class P {"] + cls_body("BP", "", ["double vf_pad;"]) + ["};",
                  "class R {"] + cls_body("R", "") + ["};", "}"]
            L += ["class L_%d {" % f] + cls_body("L", "") + ["};"]
            L += ["class D_%d : public L_%d, public nb_%d::R {" % (f, f, f)] + cls_body("D", "") + ["};"]
            L += ["class V_%d : virtual public L_%d {" % (f, f)] + cls_body("V", "") + ["};"]
            # classes in a namespace are exported on demand only (InterrogateBuilder::build scans the global scope): reach
            # them by a typedef at global scope, which exports the DEFINITION; odd families also name them in a published
            # global function.  (Reached only through a parameter of a function declared BEFORE the definition - e.g. a
            # member of Outer - a forward-declared class of a namespace is recorded as incomplete, without members:
            # which classes are exported is C04's subject, not C01's.)
            L += ["typedef na_%d::P vf_NaP_%d; typedef nb_%d::P vf_NbP_%d;" % (f, f, f, f)]
            if f % 2 == 1:
                L += [bp, "void vf_reach_%d(na_%d::P *a1, nb_%d::P *a2);" % (f, f, f), ep]
            if byc["-"]:
                L += [bp] + [declaration(fn) for fn in byc["-"]] + [ep]
            L.append("")
        L.append("#endif")
        return "\n".join(L) + "\n"

    def impl(self):
        L = ['#include "wrapcs_rt.h"', '#include "slib%d.h"' % self.index, ""]
        for f in self.fams:
            for c in CLS_SEQ:
                cc = cxx_cls(c, f)
                sn = cc.split("::")[-1]
                init = RAW_INIT.get(c, "").replace("%d", str(f)).replace("0, 0)", "s, r)") if c in ("D", "V") else ""
                if c == "D":
                    init = " : L_%d(vfrt::Raw(), s, 0), nb_%d::R(vfrt::Raw(), 0, r)" % (f, f)
                if c == "V":
                    init = " : L_%d(vfrt::Raw(), s, 0)" % f
                bodyt = "" if c in ("D", "V") else ("rst = r; (void)s;" if c == "R" else "st = s; (void)r;")
                L.append("%s::%s(const vfrt::Raw &, int s, int r)%s { %s }" % (cc, sn, init, bodyt))
                L.append('extern "C" void vfs_destroy_%d_%d(void *p) { delete (%s *)p; }' % (CLS_SEQ.index(c) + 1, f, cc))
            L.append("L_%d::~L_%d() {}" % (f, f))
            L.append("nb_%d::R::~R() {}" % f)
            if f % 2 == 1:
                L.append("void vf_reach_%d(na_%d::P *, nb_%d::P *) {}" % (f, f, f))
            L.append("")
        for fn in self.fns:
            L.append(definition(fn))
        return "\n".join(L) + "\n"

    def native(self):
        L = ['#include "wrapcs_rt.h"', '#include "slib%d.h"' % self.index, '#include "wrapc_native.h"', ""]
        for f in self.fams:
            for c in CLS_SEQ:
                cases = []
                for d in CLS_SEQ:
                    if derives(d, c):
                        cases.append("case %d: return (%s *)(%s *)s.p;" % (CLS_SEQ.index(d) + 1, cxx_cls(c, f), cxx_cls(d, f)))
                L.append("static %s *p%d_%d(Slot &s) { switch (s.cls) { %s } return 0; }" % (cxx_cls(c, f), CLS_SEQ.index(c) + 1, f, " ".join(cases)))
                L.append("static int find%d_%d(X &x, const %s *p) { if (!p) return 0; for (size_t i = 1; i < x.slots.size(); ++i) "
                         "if (x.slots[i].live && p%d_%d(x.slots[i]) == p) return (int)i; return -1; }" % (
                             CLS_SEQ.index(c) + 1, f, cxx_cls(c, f), CLS_SEQ.index(c) + 1, f))
            st, rst = [], []
            for c in CLS_SEQ:
                i = CLS_SEQ.index(c) + 1
                if has_st(c):
                    st.append("case %d: a = ((%s *)s.p)->st; break;" % (i, cxx_cls(c, f)))
                if has_rst(c):
                    rst.append("case %d: b = ((%s *)s.p)->rst; break;" % (i, cxx_cls(c, f)))
            L.append("static void post_%d(X &x) { x.post_begin(); for (size_t i = 1; i < x.slots.size(); ++i) { Slot &s = x.slots[i]; "
                     "if (!s.live) { x.post_dead(); continue; } long a = 0, b = 0; switch (s.cls) { %s } switch (s.cls) { %s } "
                     "x.post_live(a, b, 0); } x.post_end(); }" % (f, " ".join(st), " ".join(rst)))
            cases = " ".join("case %d: delete (%s *)s.p; break;" % (CLS_SEQ.index(c) + 1, cxx_cls(c, f)) for c in CLS_SEQ)
            L.append("static void del_%d(Slot &s) { switch (s.cls) { %s } s.live = false; }" % (f, cases))
            L.append("static void up_%d(X &x, Slot &s, int base) { if (base == 7) x.ret_i(p7_%d(s)->rst); else x.ret_i(p6_%d(s)->st); }" % (f, f, f))
            L.append("")
        tab = []
        for fn in self.fns:
            for k in range(fn.sig["nd"] + 1):
                L.append(native_callsite(fn, k))
                tab.append("{%d, %d, cs_%d_%d}" % (fn.gid, k, fn.gid, k))
        L.append("static const Entry TAB[] = { %s, {0, 0, 0} };" % ", ".join(tab))
        fam = ["{%d, post_%d, del_%d, 0, 0, 0, up_%d}" % ((f,) * 4) for f in self.fams]
        L.append("static const Fam FAMS[] = { %s, {-1, 0, 0, 0, 0, 0, 0} };" % ", ".join(fam))
        L.append("int main(int argc, char **argv) { return vf_native_main(argc, argv, TAB, FAMS); }")
        return "\n".join(L) + "\n"


def native_arg(kd, i, f):
    j = i - 1
    k = kd["k"]
    if k == "senum":
        return "(%s)x.I(%d)" % (cxx_enum(kd["c"], f), j)
    if k in OBJ_KINDS:
        p = "p%d_%d(x.slots[x.I(%d)])" % (CLS_SEQ.index(kd["c"]) + 1, f, j)
        if k == "objPtr":
            return "(x.I(%d) ? %s : (%s *)0)" % (j, p, cxx_cls(kd["c"], f))
        return "*" + p
    return W.native_arg(k, i, f)


def native_ret(kd, expr, f):
    k = kd["k"]
    if k == "senum":
        return "x.ret_i((long long)(%s));" % expr
    if k in OBJ_KINDS:
        ci = CLS_SEQ.index(kd["c"]) + 1
        if k == "objPtr":
            return "x.ret_i(find%d_%d(x, %s));" % (ci, f, expr)
        if k == "objVal":
            return ("{ Slot n; n.cls = %d; n.live = true; n.p = new %s(%s); x.slots.push_back(n); x.ret_i((long long)x.slots.size() - 1); }"
                    % (ci, cxx_cls(kd["c"], f), expr))
        return "x.ret_i(find%d_%d(x, &(%s)));" % (ci, f, expr)
    return W.native_ret(k, expr, f, "x")


def native_callsite(fn, k):
    s = fn.sig
    f = fn.fam
    n = len(s["ps"]) - k
    args = ", ".join(native_arg(s["ps"][i], i + 1, f) for i in range(n))
    head = "static void cs_%d_%d(X &x) { " % (fn.gid, k)
    if s["fk"] == "ctor":
        return head + "Slot n; n.cls = %d; n.live = true; n.p = new %s(%s); x.slots.push_back(n); x.ret_void(); }" % (
            CLS_SEQ.index(s["cls"]) + 1, fn.cxxcls, args)
    if W.has_this(s):
        self_ = "%s%s *self = p%d_%d(x.self());" % ("const " if W.const_this(s) else "", fn.cxxcls, CLS_SEQ.index(s["cls"]) + 1, f)
        call = "self->%s(%s)" % (fn.cname, args)
    else:
        self_ = ""
        call = "%s(%s)" % (("::" + fn.cname) if fn.cls == "-" else fn.scoped, args)
    if s["ret"]["k"] == "void":
        tail = "%s; x.ret_void();" % call
    else:
        tail = native_ret(s["ret"], call, f)
    return head + self_ + " " + tail + " }"


class SPacker:
    """libraries -> class families (one declared constructor per class and family; everything else has a name of
    its own) -> batches"""

    def __init__(self, nbatches, fam_cap=70):
        self.nb, self.fam_cap = nbatches, fam_cap
        self.fams = []
        self.gid = 0
        self.libno = 0

    def add_lib(self, lib):
        self.libno += 1
        ctors = set(s["cls"] for s in lib if s["fk"] == "ctor")
        for fi, fam in enumerate(self.fams):
            if not (ctors & fam["ctors"]) and len(fam["fns"]) + len(lib) <= self.fam_cap:
                break
        else:
            fi = len(self.fams)
            self.fams.append(dict(ctors=set(), fns=[], base={}))
            for c in CLS_SEQ:
                self.gid += 1
                fn = SFn(self.gid, fi, base_ctor_sig(c), "ctor")
                self.fams[fi]["base"][c] = fn
                self.fams[fi]["fns"].append(fn)
        fam = self.fams[fi]
        fam["ctors"] |= ctors
        out = {}
        for s in lib:
            if s["fk"] == "ctor":
                cname = "ctor"
            elif s["name"]:
                cname = "tw%d_%d" % (s["name"], self.libno)        # the SAME simple name in both scopes of a twin library
            elif s["cls"] == "-":
                cname = "f%d_%d" % (s["id"], fi)
            else:
                cname = "f%d" % s["id"]
            self.gid += 1
            fn = SFn(self.gid, fi, s, cname)
            fam["fns"].append(fn)
            out[s["id"]] = fn
        return fi, out

    def batches(self):
        bs = [SBatch(i) for i in range(self.nb)]
        for f in sorted(range(len(self.fams)), key=lambda f: -len(self.fams[f]["fns"])):
            b = min(bs, key=lambda x: len(x.fns))
            b.fams.append(f)
            b.fns.extend(self.fams[f]["fns"])
        for b in bs:
            b.fams.sort()
        return [b for b in bs if b.fams]


def resolve(rec, bid, fam, fnmap, base):
    sigs = {s["id"]: s for s in rec["lib"]}
    steps, expect = [], []
    for st in rec["script"]:
        post = [[p[0], p[1], 0] for p in st["post"]]
        op = st["op"]
        if op in ("new", "call"):
            if st["sid"]:
                s, fn = sigs[st["sid"]], fnmap[st["sid"]]
            else:
                fn = base[st["cls"]]
                s = fn.sig
            kinds = s["ps"][:len(st["args"])]
            d = dict(op=op, gid=fn.gid, k=st["k"], args=[sval(k, a) for k, a in zip(kinds, st["args"])], kinds=kinds, fk=s["fk"],
                     ret_kind=s["ret"])
            if op == "new":
                d.update(cls=st["cls"], slot=st["obj"])
                exp = None
            else:
                d["this"] = st["this"]
                exp = sval(s["ret"], st["ret"]) if s["ret"]["k"] != "void" else None
            steps.append(d)
            expect.append(dict(ret=exp, post=post))
        else:
            steps.append(dict(op="upcast", obj=st["obj"], to=st["to"]))
            expect.append(dict(ret=st["exp"], down=st["down"], post=post))
    req = {}
    for r in rec["req"]:
        req.setdefault(fnmap[r["sid"]].gid, []).append([r["k"], r["np"], r["this"], r["opt"]])
    return dict(b=bid, fam=fam, steps=steps, expect=expect, req=req)


def native_script(behaviours):
    L = []
    for b in behaviours:
        L.append("B %d %d" % (b["b"], b["fam"]))
        for st in b["steps"]:
            if st["op"] in ("new", "call"):
                toks = [str(W.TABLE.index(a)) if k["k"] in W.STR_KINDS else str(a) for k, a in zip(st["kinds"], st["args"])]
                L.append("C %d %d %d %s" % (st.get("this", 0), st["gid"], st["k"], " ".join(toks)))
            else:
                L.append("U %d %d" % (st["obj"], CLS_SEQ.index(st["to"]) + 1))
        L.append("E")
    return "\n".join(L) + "\n"


def call_text(st, fns):
    if st["op"] in ("new", "call"):
        fn = fns[st["gid"]]
        a = ", ".join(json.dumps(x) for x in st["args"])
        om = " [%d default(s) omitted]" % st["k"] if st["k"] else ""
        if st["op"] == "new":
            return "new %s(%s)%s   // %s" % (fn.cxxcls, a, om, declaration(fn))
        tgt = "obj%d." % st["this"] if st.get("this") else ""
        return "%s%s(%s)%s   // %s" % (tgt, fn.cname if st.get("this") else fn.scoped, a, om, declaration(fn))
    return "view obj%d through its base %s" % (st["obj"], st["to"])


def uses_string(b, fns):
    for st in b["steps"]:
        if st["op"] in ("new", "call"):
            s = fns[st["gid"]].sig
            if set(k["k"] for k in s["ps"] + [s["ret"]]) & {"string", "cstr"}:
                return True
    return False


class SBatchRun:
    def __init__(self, ctx, batch, behaviours, fns, work):
        self.ctx, self.b, self.beh, self.fns = ctx, batch, behaviours, fns
        self.dir = os.path.join(work, "s%d" % batch.index)
        os.makedirs(self.dir, exist_ok=True)
        self.n = batch.index

    def prepare(self):
        n, d = self.n, self.dir
        for prom in (False, True):
            sub = os.path.join(d, "prom" if prom else "pub")
            os.makedirs(sub, exist_ok=True)
            open(os.path.join(sub, "slib%d.h" % n), "w").write(self.b.header(prom))
        open(os.path.join(d, "slib%d_impl.cxx" % n), "w").write(self.b.impl())
        open(os.path.join(d, "slib%d_native.cxx" % n), "w").write(self.b.native())
        open(os.path.join(d, "slib%d.script" % n), "w").write(native_script(self.beh))
        names = {str(f): dict(cls={c: cxx_cls(c, f) for c in CLS_SEQ}, enum={e: cxx_enum(e, f) for e in ENUM_VALS}) for f in self.b.fams}
        json.dump(dict(fns=[f.desc() for f in self.b.fns], names=names,
                       behaviours=[dict(b=x["b"], fam=x["fam"], steps=x["steps"]) for x in self.beh]),
                  open(os.path.join(d, "slib%d.json" % n), "w"))
        cxx = ["g++", "-std=c++17", "-O0", "-w", "-fPIC", "-I" + HARNESS, "-I" + os.path.join(d, "pub")]
        jobs = [(cxx + ["-c", "slib%d_impl.cxx" % n, "-o", "impl.o"], "compiling the generated library"),
                (cxx + ["-c", os.path.join(HARNESS, "wrapc_rt.cxx"), "-o", "rt.o"], "compiling the runtime"),
                (cxx + ["-c", "slib%d_native.cxx" % n, "-o", "native.o"], "compiling the native driver")]
        run.pmap(lambda j: c01.must(j[0], d, j[1]), jobs, workers=3)
        c01.must(["g++", "native.o", "impl.o", "rt.o", "-o", "native"], d, "linking the native driver")
        log = os.path.join(d, "native.log")
        p = subprocess.run(["./native", "slib%d.script" % n], cwd=d, stdout=subprocess.PIPE, stderr=subprocess.PIPE,
                           env=dict(os.environ, VF_LOG=log), timeout=600)
        if p.returncode != 0:
            raise MachineryError("scope part: native driver of batch %d exit %s: %s" % (n, p.returncode, p.stderr.decode()[-500:]))
        nat = {}
        for line in p.stdout.decode().splitlines():
            r = json.loads(line)
            nat[(r["b"], r["i"])] = r
        for x in self.beh:
            for i, (st, e) in enumerate(zip(x["steps"], x["expect"])):
                r = nat.get((x["b"], i))
                if r is None or r["ret"] != e["ret"] or r["post"] != e["post"]:
                    raise MachineryError("WrapCScope: spec != native C++ at step %d of behaviour %d: %s\n spec  %r\n native %r" % (
                        i, x["b"], call_text(st, self.fns), e, r))
        self.native_log = c01.read_log(log)

    def replay(self, opt):
        n, d = self.n, self.dir
        tag = opt["id"]
        sub = os.path.join(d, tag)
        os.makedirs(sub, exist_ok=True)
        hdir = os.path.join(d, "prom" if opt["promiscuous"] else "pub")
        libname = "slib%d%s" % (n, "".join(c for c in tag if c.isalnum()))
        res = dict(opt=opt, batch=n, fatal=None, lines={}, dbchecks=[], crashed=[], log={}, skipped=0)
        r = run.run_tool("interrogate", ["-od", os.path.join(sub, "lib.in"), "-oc", os.path.join(sub, "wrap.cxx"),
                                         "-module", "m", "-library", libname, "-nodb", "-DCPPPARSER",
                                         "-S", os.path.join(REPO, "parser-inc")] + opt["args"] + ["slib%d.h" % n],
                         cwd=hdir, timeout=300)
        if r.rc != 0 or r.timed_out:
            res["fatal"] = "interrogate %s exit %s: %s" % (" ".join(opt["args"]), r.rc, r.stderr[-600:])
            return res
        cxx = ["g++", "-std=c++17", "-O0", "-w", "-fPIC", "-I" + HARNESS, "-I" + hdir]
        src = "wrap.cxx"
        if opt["fptrs"]:
            open(os.path.join(sub, "tab.cxx"), "w").write(
                '#include "wrap.cxx"\nextern "C" void **vf_fptrs() { return _in_fptrs; }\n'
                'extern "C" int vf_nfptrs() { return (int)(sizeof(_in_fptrs) / sizeof(void *)); }\n')
            src = "tab.cxx"
        extra = ["-I" + c01.pyinc()] if opt["backend"] == "python" else []
        rc, out = c01.sh(cxx + extra + ["-c", src, "-o", "wrap.o"], sub)
        if rc != 0:
            res["fatal"] = "generated wrapper code does not compile (%s): %s" % (" ".join(opt["args"]), out[:1500])
            return res
        so = os.path.join(sub, libname + ".so")
        rc, out = c01.sh(["g++", "-shared", "-o", so, "wrap.o", os.path.join(d, "impl.o"), os.path.join(d, "rt.o")], sub)
        if rc != 0:
            res["fatal"] = "generated wrapper code does not link: %s" % out[:1200]
            return res
        db = idb.dump([os.path.join(sub, "lib.in")])
        if "wrappers" not in db:
            res["fatal"] = "the database cannot be read back: %r" % (db,)
            return res
        json.dump(db, open(os.path.join(sub, "db.json"), "w"))
        # without -string neither back-end accepts char pointers or std::string: such functions get no wrapper by design
        todo = [x for x in self.beh if opt["string"] or not uses_string(x, self.fns)]
        if opt["backend"] == "c":
            # a std::string with an embedded NUL cannot be passed through a char * parameter (as in c01.py)
            todo = [x for x in todo if not c01.passes_nul(x)]
        res["skipped"] = len(self.beh) - len(todo)
        res["todo"] = [x["b"] for x in todo]
        skip = set(x["b"] for x in self.beh) - set(res["todo"])
        outp = os.path.join(sub, "out.ndjson")
        logp = os.path.join(sub, "wrap.log")
        for attempt in range(12):
            cfg = dict(backend=opt["backend"], string=opt["string"], db=os.path.join(sub, "db.json"),
                       lib=os.path.join(d, "slib%d.json" % n), so=so, out=outp, fptrs=opt["fptrs"], skip=sorted(skip),
                       module=libname, module_path=so)
            json.dump(cfg, open(os.path.join(sub, "cfg.json"), "w"))
            p = subprocess.run([sys.executable, os.path.join(HARNESS, "wrapcs_drive.py"), os.path.join(sub, "cfg.json")],
                               cwd=sub, stdout=subprocess.PIPE, stderr=subprocess.PIPE, env=dict(os.environ, VF_LOG=logp), timeout=900)
            done, open_b, last_i = False, None, -1
            if not os.path.exists(outp):
                res["fatal"] = "wrapper driver wrote nothing (exit %s): %s" % (p.returncode, p.stderr.decode()[-800:])
                return res
            for line in open(outp):
                rec = json.loads(line)
                if rec.get("done"):
                    done = True
                elif rec.get("begin"):
                    open_b, last_i = rec["b"], -1
                elif rec.get("end"):
                    skip.add(rec["b"])
                    open_b = None
                elif "dbcheck" in rec:
                    res["dbchecks"].append(rec["dbcheck"])
                elif "i" in rec:
                    res["lines"][(rec["b"], rec["i"])] = rec
                    last_i = rec["i"]
            if done:
                break
            if open_b is None:
                res["fatal"] = "wrapper driver died outside any behaviour (exit %s): %s" % (p.returncode, p.stderr.decode()[-800:])
                return res
            res["crashed"].append((open_b, last_i + 1, p.returncode, p.stderr.decode()[-300:]))
            skip.add(open_b)
            os.rename(outp, outp + ".%d" % attempt)
        res["log"] = c01.read_log(logp)
        if os.environ.get("C01_SELFTEST_CORRUPT_LOG") == "scope:" + opt["id"] and n == 0:
            for key in sorted(res["log"]):
                if res["log"][key] and '"args":[' in res["log"][key][0] and not res["log"][key][0].endswith('"args":[]}'):
                    res["log"][key][0] = res["log"][key][0].replace('"args":[', '"args":[7,', 1)
                    break
        return res


def judge(ctx, br, res):
    opt = res["opt"]
    tag = "scope " + opt["id"]
    fns = br.fns
    hdr = os.path.join(br.dir, "prom" if opt["promiscuous"] else "pub", "slib%d.h" % br.n)
    if res["fatal"]:
        ctx.violation("[%s] batch %d: %s" % (tag, res["batch"], res["fatal"]),
                      dict(optset=tag, args=opt["args"], error=res["fatal"], header=hdr, stat_key=tag + " fatal"))
        return 0
    crashed = {b: (i, rc, err) for b, i, rc, err in res["crashed"]}
    todo = set(res["todo"])
    n = 0
    for x in br.beh:
        if x["b"] not in todo:
            continue
        for i, (st, e) in enumerate(zip(x["steps"], x["expect"])):
            r = res["lines"].get((x["b"], i))
            what = None
            if r is None:
                if x["b"] in crashed and crashed[x["b"]][0] == i:
                    what = "the wrapper call killed the process (exit %s)" % crashed[x["b"]][1]
                else:
                    what = "no result for this step"
            elif "err" in r:
                what = r["err"]
            else:
                n += 1
                want, got = e["ret"], r["ret"]
                if opt["backend"] == "c":
                    want = W.c_view(want)
                if st["op"] == "upcast":
                    if got["st"] != want:
                        what = "the upcast handle shows %r, the %s part of the object holds %r" % (got["st"], st["to"], want)
                    elif got["has_downcast"] and not e["down"]:
                        what = "the database offers a downcast from a virtual base"
                    elif got["has_downcast"] and not got["back"]:
                        what = "downcast(upcast(o)) is not o"
                elif got != want:
                    what = "returned %r, C++ returns %r" % (got, want)
                if what is None and r["post"] != e["post"]:
                    what = "object states [st, rst, 0] after the call are %r, C++ leaves %r" % (r["post"], e["post"])
                if what is None:
                    wl, nl = res["log"].get((x["b"], i), []), br.native_log.get((x["b"], i), [])
                    if wl != nl:
                        what = "the instrumented bodies logged %r, the native call logs %r" % (wl, nl)
            if what is None:
                continue
            s = fns[st["gid"]].sig if "gid" in st else None
            key = "%s | %s %s(%s) | %s" % (tag, s["fk"] if s else st["op"], s["ret"]["k"] if s else "",
                                          ",".join(k["k"] for k in s["ps"]) if s else "", what.split(",")[0][:60])
            ctx.violation("[%s] %s: %s" % (tag, call_text(st, fns), what),
                          dict(optset=tag, interrogate_args=opt["args"], step=i, script=[call_text(y, fns) for y in x["steps"][:i + 1]],
                               expected=e, observed=r, header=hdr, stat_key=key))
            break
    # WrapCScope!SRequired: exactly one wrapper variant per number of omitted defaults
    req = {}
    for x in br.beh:
        for gid, vs in x["req"].items():
            req.setdefault(int(gid), set()).update((v[0], v[1], v[2], tuple(v[3])) for v in vs)
    for chk in res["dbchecks"]:
        fn = fns[chk["gid"]]
        s = fn.sig
        if s["name"] and s["cls"] == "-" or s["fk"] == "ctor" or chk["gid"] not in req:
            continue        # names shared by several signatures are judged variant by variant when they are called
        want = sorted((np, this, (False,) * (1 if this else 0) + o) for k, np, this, o in req[chk["gid"]])
        got = sorted((len(v["params"]), bool(v["this"] and v["this"][0]), tuple(v["optional"])) for v in chk["variants"])
        if got != want:
            ctx.violation("[%s] %s: the database lists wrapper variants (parameters, this first, optional flags) %r, the "
                          "library needs %r" % (tag, declaration(fn), got, want),
                          dict(optset=tag, dbcheck=chk, required=want, header=hdr, stat_key=tag + " variants"))
    return n


def run_part(ctx, work):
    """the scope / arity / cast part of C01; returns a dict of numbers for the evidence notes"""
    build.ensure("hooked")
    tier = ctx.tier
    work = os.path.join(work, "scope")
    os.makedirs(work, exist_ok=True)
    out = {}
    dumps = {m: os.path.join(work, m + ".ndjson") for m in ("single", "twin")}

    def t(m):
        # one worker: a dumped record can exceed the size that is appended atomically
        out[m] = tlc.run("WrapCScopeMC", "WrapCScope_%s_%s" % (m, tier), workers=1, env={"VERIF_DUMP": dumps[m]}, timeout=1200)
    th = [threading.Thread(target=t, args=(m,)) for m in dumps]
    for x in th:
        x.start()
    for x in th:
        x.join()
    recs = []
    for m in ("single", "twin"):
        res = out[m]
        ctx.add_tlc(res)
        if res.verdict == "invariant":
            raise MachineryError("WrapCScope: model invariant %s violated\n%s" % (res.violated, res.out[-2500:]))
        tlc.must_ok(res)
        try:
            rs = tlc.read_dump(dumps[m])
        except ValueError as e:
            raise MachineryError("a TLC dump is damaged: %s" % e)
        rs.sort(key=lambda r: [s["id"] for s in r["lib"]])
        if not rs:
            raise MachineryError("WrapCScope %s: no complete behaviour" % m)
        out[m + "_n"] = len(rs)
        recs += rs
    nb = 2 if tier == "quick" else 6
    P = SPacker(nb)
    beh = []
    for bid, r in enumerate(recs):
        fam, fnmap = P.add_lib(r["lib"])
        beh.append(resolve(r, bid, fam, fnmap, P.fams[fam]["base"]))
    batches = P.batches()
    runs = []
    for b in batches:
        fams = set(b.fams)
        runs.append(SBatchRun(ctx, b, [x for x in beh if x["fam"] in fams], {fn.gid: fn for fn in b.fns}, work))
    run.pmap(lambda br: br.prepare(), runs, workers=JOBS)
    opts = c01.optsets(tier)
    jobs = [(br, o) for o in opts for br in runs]
    results = run.pmap(lambda j: j[0].replay(j[1]), jobs, workers=JOBS)
    per_opt = collections.OrderedDict()
    total = 0
    for (br, o), res in zip(jobs, results):
        n = judge(ctx, br, res)
        total += n
        d = per_opt.setdefault(o["id"], dict(steps=0, behaviours=0, skipped_outside_domain=0, crashed=0))
        d["steps"] += n
        d["behaviours"] += len(res.get("todo", []))
        d["skipped_outside_domain"] += res["skipped"]
        d["crashed"] += len(res["crashed"])
    calls = set()
    for x in beh:
        for st in x["steps"]:
            if st["op"] in ("new", "call"):
                calls.add((st["gid"], st["k"], st.get("this", 0), json.dumps(st["args"])))
    sigs = [s for r in recs for s in r["lib"]]
    info = dict(signatures=len(sigs), behaviours=len(beh), single=out["single_n"], twin_libraries=out["twin_n"],
                steps_compared=total, behaviour_replays=sum(d["behaviours"] for d in per_opt.values()),
                distinct_calls=len(calls), families=len(P.fams), batches=len(batches), option_sets=per_opt,
                arity_4_to_6=sum(1 for s in sigs if len(s["ps"]) >= 4), with_defaults=sum(1 for s in sigs if s["nd"]),
                default_variants=sum(s["nd"] + 1 for s in sigs if s["nd"]),
                python_true_names="not replayed: under -python -true-names every wrapper is static and the module table registers "
                                  "all variants of a function (and every overload) under ONE name, clean_identifier(scoped C++ name), "
                                  "which the database does not record: only the first is reachable")
    ctx.notes["scope_part"] = info
    x = beh[len(beh) // 2]
    fns = next(br.fns for br in runs if x["fam"] in br.b.fams)
    ctx.sample(dict(script=[call_text(st, fns) for st in x["steps"]], expected=x["expect"]))
    return info
