"""C11 part `IdbBuild`: the BUILDER side of the database (also serves C04/C05).

spec IdbBuild: the database under construction (one index space, per record the index-valued fields), actions =
get_next_index / add_X / update_X (completion in place) / remove_type / remap_indices / hand-over to write().
Invariants: AllocDense (indices strictly increasing, never reused, also not after remove_type), AddedAllocated,
RefsPromised (every stored index is there with the right kind or is an allocated-not-yet-added promise),
NoImplicit, NoDegrade (fully_defined never TRUE -> FALSE), and when the database is written: ClosedAtDone (the C11
statement), RemovedUnreferenced, LinksAtDone (function <-> wrapper both ways), WrappersFirst after the remap;
action properties AddFresh, UpdateLive, RemoveLive, Frozen.

  (1) TLC, IdbBuildMC: all interleavings of the intended protocol over <= 4 (thorough 5) indices: the invariants are
      inductive; four deliberately broken protocols must each violate the invariant that guards them, and a
      reachability cfg shows complete non-trivial databases (with a removed type and wrappers) are reached.
  (2) trace validation, IdbBuildTrace: every `interrogate` run of this part (the C11 headers x back-ends x option
      sets, the shipped test inputs and harness/idb_hdrs with and without -oc, parser-inc stub headers) is made
      with the H-idbbuild hooks on; the events drive the spec's actions, all invariants are checked after every
      event, and the database file the run wrote, loaded by libinterrogatedb and dumped BY RAW INDEX, must equal the
      spec's final state (after the spec's own remap_indices) index by index, field by field (DumpAgrees).
"""
import json, os, re
from ..common import MachineryError, REPO, HARNESS
from .. import build, tlc, run
from . import _idbm

BACKENDS = ("-c", "-python", "-python-native")
OPTSETS_QUICK = (("-fnames",), ("-fptrs", "-unique-names"))
OPTSETS_THOROUGH = ((), ("-fnames",), ("-fptrs",), ("-unique-names",), ("-true-names",), ("-fnames", "-fptrs", "-unique-names"))
STUBS = ("string", "vector", "map", "iostream", "memory", "Python.h", "stdtypedefs.h", "set", "list", "utility")

ADD = {"AddType": "t", "AddFunction": "f", "AddWrapper": "w", "AddManifest": "m", "AddElement": "e", "AddMakeSeq": "s"}
UPD = {"UpdateType": "t", "UpdateFunction": "f", "UpdateElement": "e"}
MINE = set(ADD) | set(UPD) | {"NextIndex", "Implicit", "RemoveType", "Remap", "BuildDone"}
KEEP = MINE | {"Died"}

BROKEN = {"remove-referenced": {"RefsPromised"}, "remove-referenced_done": {"RemovedUnreferenced"},
          "reuse-index": {"AllocDense"}, "degrade": {"NoDegrade"}, "dangling": {"RefsPromised"}}

WHAT = {
    "AllocDense": "indices are not handed out strictly increasing without reuse (alloc # 1..next-1)",
    "AddedAllocated": "a record was added at an index get_next_index never handed out, or at a removed index",
    "RefsPromised": "a record holds an index that is neither a record of the expected kind nor an allocated, not yet added index",
    "NoImplicit": "update_X() was called on an index that is not in the database (operator[] made a blank record)",
    "NoDegrade": "a type that was fully defined is no longer fully defined",
    "ClosedAtDone": "the database handed to write() is not referentially closed",
    "RemovedUnreferenced": "the database handed to write() refers to a type the builder removed",
    "LinksAtDone": "function <-> wrapper links of the database handed to write() are inconsistent",
    "WrappersFirst": "after remap_indices the wrappers are not 1..#wrappers / the indices not 1..next-1",
    "DumpAgrees": "the database file interrogate wrote differs from the database its add/update/remove/remap events describe",
    "AddFresh": "add_X hit an index that is already in use (and is not a forward-declared type)",
    "UpdateLive": "a record was completed in place that is not in the database, or its kind changed",
    "RemoveLive": "remove_type erased something that is not a type in the database",
    "Frozen": "the database changed after it was handed to write()",
}


# ---------------------------------------------------------------------------------------------
def model_check(ctx, work):
    cfg = "IdbBuild_%s" % ctx.tier
    res = tlc.run("IdbBuildMC", cfg, workers=6, timeout=1500, coverage=(ctx.tier == "quick"))
    ctx.add_tlc(res)
    if res.verdict == "invariant":
        raise MachineryError("IdbBuild: %s violated in the model under the intended protocol\n%s" % (res.violated, res.out[-3000:]))
    tlc.must_ok(res, "IdbBuild")
    if res.coverage:
        dead = [a for a in tlc.vacuous_actions(res) if a.startswith("M") and a not in ("MReuse", "MDegrade", "MAddElement")]
        if dead:
            raise MachineryError("IdbBuildMC: actions never enabled: %s" % dead)

    def broken(name):
        return name, tlc.run("IdbBuildMC", "IdbBuild_broken_" + name, workers=1, timeout=600, xmx="2g")
    jobs = list(BROKEN) + ["reach"]

    def one(name):
        if name == "reach":
            return name, tlc.run("IdbBuildMC", "IdbBuild_reach", workers=2, timeout=600, xmx="3g")
        return broken(name)
    caught = {}
    for name, r in run.pmap(one, jobs, workers=6):
        want = {"NeverInteresting"} if name == "reach" else BROKEN[name]
        if r.verdict != "invariant" or r.violated not in want:
            raise MachineryError("IdbBuildMC %s: expected a violation of %s, TLC says %s %s\n%s" % (
                name, sorted(want), r.verdict, r.violated, r.out[-1500:]))
        caught[name] = r.violated
        ctx.cov["states"] += r.generated
    ctx.notes["idbbuild_broken_protocols_caught"] = {k: v for k, v in caught.items() if k != "reach"}
    return res


# ---------------------------------------------------------------------------------------------
def rows_of_raw(raw):
    """raw-index dump of idbm_tool -> the rows of IdbBuildTrace!TDump (one per record, every index-valued field)."""
    rows = []
    for x in raw["t"]:
        rows.append(dict(i=x["i"], k="t", fd=1 if x["fd"] else 0, gl=1 if x["gl"] else 0, r=dict(
            outer=[x["outer"]], wrapped=[x["wrapped"]], dtor=[x["dtor"]], ctors=x["ctors"], methods=x["methods"],
            elems=x["elems"], mseqs=x["mseqs"], casts=x["casts"], nested=x["nested"],
            bases=[d["base"] for d in x["derivs"]], ups=[d["up"] for d in x["derivs"]], downs=[d["down"] for d in x["derivs"]])))
    for x in raw["f"]:
        if "null" in x:
            rows.append(dict(i=x["i"], k="f", fd=0, gl=0, r={}))
            continue
        rows.append(dict(i=x["i"], k="f", fd=1, gl=x["fl"] & 1, r=dict(cls=[x["cls"]], cw=x["cw"], pw=x["pw"])))
    for x in raw["w"]:
        rows.append(dict(i=x["i"], k="w", fd=1, gl=0, r=dict(fn=[x["fn"]], ret=[x["ret"]], rvd=[x["rvd"]], ps=x["ps"])))
    for x in raw["m"]:
        rows.append(dict(i=x["i"], k="m", fd=1, gl=1, r=dict(type=[x["type"]], getter=[x["getter"]])))
    for x in raw["e"]:
        rows.append(dict(i=x["i"], k="e", fd=1, gl=1 if x["gl"] else 0, r=dict(
            type=[x["type"]], getter=[x["getter"]], setter=[x["setter"]], has=[x["has"]], clear=[x["clear"]],
            **{"del": [x["del"]]}, ins=[x["ins"]], getkey=[x["getkey"]], len=[x["len"]])))
    for x in raw["s"]:
        rows.append(dict(i=x["i"], k="s", fd=1, gl=0, r=dict(lenf=[x["lenf"]], elemf=[x["elemf"]])))
    return rows


def read_events(path):
    """The builder-side events of one execution (foreign events of other hooks are dropped: IdbBuildTrace would skip
    them one by one)."""
    ev = []
    if not os.path.exists(path):
        return ev
    with open(path) as f:
        for line in f:
            line = line.strip()
            if not line:
                continue
            try:
                d = json.loads(line)
            except ValueError:
                raise MachineryError("unparsable trace line in %s: %r" % (path, line[:200]))
            if d.get("e") in KEEP:
                ev.append(d)
    return ev


def jobs_for(ctx, work):
    """[(id, cwd, argv, trace path, .in name, description)]"""
    jobs = []
    pinc = os.path.join(REPO, "parser-inc")
    # (a) the headers of C11
    H = _idbm.single_headers()
    hd = os.path.join(work, "h")
    os.makedirs(hd)
    open(os.path.join(hd, "vdefs.h"), "w").write(_idbm.VDEFS)
    for n, t in H.items():
        open(os.path.join(hd, n + ".h"), "w").write(t)
    optsets = OPTSETS_THOROUGH if ctx.tier == "thorough" else OPTSETS_QUICK
    for n in sorted(H):
        for bi, b in enumerate(BACKENDS):
            for oi, o in enumerate(optsets):
                if ctx.tier == "quick" and oi != bi % len(optsets):
                    continue          # quick: one option set per (header, back-end), alternating
                tag = "%s%s%s" % (n, b, "".join(o))
                args = ["-DCPPPARSER", "-od", tag + ".in", "-oc", tag + ".cxx", "-module", "m", "-library", "lib" + n, b] + list(o) + \
                       ["-string", "-S" + pinc, n + ".h"]
                jobs.append(dict(id="gen/" + tag, cwd=hd, args=args, out=tag + ".in", src=H[n],
                                 what="%s.h %s %s" % (n, b, " ".join(o))))
    # (b) the shipped test inputs and harness/idb_hdrs: as the tests run them (+ -od), and with -od only (no remap)
    rd = os.path.join(work, "real")
    os.makedirs(rd)
    hdrs = []
    for d in (os.path.join(REPO, "tests", "interrogatedb"), os.path.join(HARNESS, "idb_hdrs"), os.path.join(REPO, "tests", "cppparser")):
        for f in sorted(os.listdir(d)):
            if f.endswith(".h"):
                hdrs.append(os.path.join(d, f))
    for h in hdrs:
        base = os.path.basename(h)[:-2]
        first = open(h, errors="replace").readline()
        m = re.match(r"//\s*FLAGS:\s*(.+)", first)
        flags = m.group(1).split() if m else []
        for mode in ("test", "odonly", "c"):
            name = "%s_%s" % (base, mode)
            args = list(flags) + ["-od", name + ".in", "-module", "m", "-library", "lib" + base, "-S" + pinc]
            if mode == "test":
                args += ["-oh", name + ".txt", "-oc", name + ".cxx"]
            elif mode == "c":
                args = [a for a in args if a != "-python-native"] + ["-oc", name + ".cxx", "-c", "-fnames"]
            jobs.append(dict(id="real/" + name, cwd=rd, args=args + [h], out=name + ".in", src=h,
                             what="%s (%s)" % (os.path.relpath(h, REPO) if h.startswith(REPO) else h, mode)))
    # (c) parser-inc stub headers given as the input file
    for s in STUBS:
        p = os.path.join(pinc, s)
        if not os.path.exists(p):
            continue
        name = "stub_" + re.sub(r"\W", "_", s)
        args = ["-D__cplusplus=201703L", "-od", name + ".in", "-oc", name + ".cxx", "-module", "m", "-library", "lib" + name,
                "-python-native", "-fnames", "-S" + pinc, p]
        jobs.append(dict(id="stub/" + name, cwd=rd, args=args, out=name + ".in", src=p, what="parser-inc/%s -python-native" % s))
    for j in jobs:
        j["trace"] = os.path.join(j["cwd"], j["out"][:-3] + ".trace.ndjson")
    return jobs


def execute(jobs):
    def one(j):
        if os.path.exists(j["trace"]):
            os.unlink(j["trace"])
        r = run.run_tool("interrogate", j["args"], cwd=j["cwd"], trace=j["trace"], timeout=180,
                         env={"SOURCE_DATE_EPOCH": "1700000000", "INTERROGATE_VERIF_TRACE_IDBBUILD": "1"}, outputs=[j["out"]])
        j["rc"], j["timed_out"], j["stderr"] = r.rc, r.timed_out, r.stderr[-600:]
        j["events"] = read_events(j["trace"])
        j["written"] = bool(r.outputs.get(j["out"])) and r.rc == 0
        return j
    return run.pmap(one, jobs, workers=6)


def dumps_for(jobs, work):
    todo = [j for j in jobs if j["written"] and any(e["e"] == "BuildDone" for e in j["events"])]
    groups = [todo[i::6] for i in range(6)]

    def dump(arg):
        gi, g = arg
        if not g:
            return {}
        lines = []
        for j in g:
            lines += ["case " + j["id"], "reqdb " + os.path.join(j["cwd"], j["out"]), "raw", "end"]
        got, _ = _idbm.run_script(lines, work, "bdump%d" % gi)
        return got
    n = 0
    for got in run.pmap(dump, list(enumerate(groups)), workers=6):
        for j in todo:
            st = got.get(j["id"])
            if not st:
                continue
            rr = [x for x in st if x.get("op") == "raw"]
            if rr and st[-1].get("exit") == 0 and not rr[0]["err"]:
                j["raw"] = rr[0]
                n += 1
    return n


def write_chunk(path, js):
    """Executions concatenated with Reset; a Dump record after each execution whose database was dumped.
    Returns [(first line, last line, job)] (1-based line numbers of the chunk)."""
    spans = []
    ln = 0
    with open(path, "w") as f:
        for j in js:
            lines = [{"e": "Reset"}] + j["events"]
            if "raw" in j:
                lines.append({"e": "Dump", "recs": rows_of_raw(j["raw"]), "next": j["raw"]["next"]})
            for x in lines:
                f.write(json.dumps(x, separators=(",", ":")) + "\n")
            spans.append((ln + 1, ln + len(lines), j))
            ln += len(lines)
    return spans


def diagnose(r):
    """The witness sets TLC printed for the violated invariant (last state of the counter-example)."""
    out = r.out
    i = out.rfind("State ")
    tail = out[i:] if i >= 0 else out[-4000:]
    m = re.search(r"/\\ diff = (.*?)\n/\\ ", tail, re.S)
    d = {}
    if m and m.group(1).strip() != "{}":
        d["diff"] = re.sub(r"\s+", " ", m.group(1))[:1500]
    for v in ("arg", "act", "next", "removed", "implicit", "l"):
        m = re.search(r"/\\ %s = (.*)" % v, tail)
        if m:
            d[v] = m.group(1).strip()[:200]
    return d


def validate(ctx, jobs, work):
    good = [j for j in jobs if j["events"]]
    nchunks = 6
    chunks = [good[i::nchunks] for i in range(nchunks)]
    def report(j):
        """Validate one execution alone, twice (a rejection is reported only if it repeats)."""
        q = os.path.join(work, "bsingle-%s.ndjson" % re.sub(r"\W", "_", j["id"]))
        write_chunk(q, [j])
        st1, r1 = tlc.validate_trace("IdbBuildTrace", q, timeout=600)
        if st1 == "accepted":
            return False
        st2, r2 = tlc.validate_trace("IdbBuildTrace", q, timeout=600)
        if st2 == "accepted":
            raise MachineryError("trace validation of %s is not repeatable" % j["id"])
        lines = [{"e": "Reset"}] + j["events"] + ([{"e": "Dump"}] if "raw" in j else [])
        at = r2.stuck_at or 0
        if st2 == "invariant":
            # TLC prints the state AFTER the offending event: l is one past it
            ev = lines[at - 2] if 1 < at <= len(lines) + 1 else None
            desc = "interrogate %s: %s (spec IdbBuild, %s) at event %d %s" % (
                j["what"], WHAT.get(r2.violated, r2.violated), r2.violated, at - 1, json.dumps(ev)[:300])
        else:
            ev = lines[at - 1] if 0 < at <= len(lines) else None
            desc = ("interrogate %s: the recorded builder events cannot be a run of spec IdbBuild: event %d %s "
                    "contradicts the database the earlier events describe" % (j["what"], at, json.dumps(ev)[:300]))
        ctx.violation(desc, dict(id=j["id"], argv=j["args"], source=(j["src"] if "\n" in j["src"] else "file " + j["src"]),
                                 status=st2, violated=r2.violated, witness=diagnose(r2),
                                 events=j["events"][:4000], stderr=j["stderr"]))
        return True

    def val(arg):
        """-> (events accepted, executions to report); a failing execution is located by the line TLC stopped at,
        taken out, and the rest of the chunk is validated again."""
        ci, js = arg
        bad, nev, states = [], 0, 0
        while js:
            p = os.path.join(work, "btrace%d.ndjson" % ci)
            spans = write_chunk(p, js)
            st, r = tlc.validate_trace("IdbBuildTrace", p, timeout=1200)
            states += r.generated
            if st == "accepted":
                nev += sum(b - a + 1 for a, b, _ in spans)
                break
            at = r.stuck_at or 0
            hit = [j for a, b, j in spans if a <= (at - 1 if st == "invariant" else at) <= b] or [spans[0][2]]
            bad.append(hit[0])
            js = [j for j in js if j is not hit[0]]
            if len(bad) >= 6:
                bad += js          # too many: every remaining execution is validated alone
                break
        return nev, bad, states
    nev = 0
    for n, bad, states in run.pmap(val, list(enumerate(chunks)), workers=6):
        nev += n
        ctx.cov["states"] += states
        ctx.cov["transitions"] += states
        for j in bad:
            report(j)
    return nev


def run_part(ctx, work):
    """Called from c11.py after build.ensure('hooked').  `work`: a scratch directory of the caller."""
    work = os.path.join(work, "idbbuild")
    os.makedirs(work)
    model_check(ctx, work)
    jobs = execute(jobs_for(ctx, work))
    ran = [j for j in jobs if j["rc"] == 0 and not j["timed_out"]]
    traced = [j for j in ran if j["events"]]
    if len(ran) < len(jobs) // 2:
        raise MachineryError("interrogate rejected %d of %d inputs of the IdbBuild part" % (len(jobs) - len(ran), len(jobs)))
    if not traced:
        raise MachineryError("no interrogate run recorded a builder-side event: the H-idbbuild hooks are not in the tree "
                             "(patches/idbbuild-hooks.diff)")
    counts = {}
    for j in jobs:
        for e in j["events"]:
            counts[e["e"]] = counts.get(e["e"], 0) + 1
    never = sorted(k for k in MINE - {"Implicit"} if not counts.get(k))
    if never:
        raise MachineryError("builder events never observed (hooks missing or inputs too narrow): %s" % never)
    ndump = dumps_for(jobs, work)
    done = [j for j in jobs if j["written"] and any(e["e"] == "BuildDone" for e in j["events"])]
    if ndump < len(done):
        miss = [j["id"] for j in done if "raw" not in j][:5]
        for j in done:
            if "raw" not in j:
                ctx.violation("the database interrogate wrote for %s cannot be loaded" % j["what"],
                              dict(id=j["id"], argv=j["args"]))
        ctx.notes["idbbuild_databases_not_loadable"] = miss
    nev = validate(ctx, jobs, work)
    ctx.notes["idbbuild_runs"] = len(jobs)
    ctx.notes["idbbuild_runs_rejected_by_tool"] = len(jobs) - len(ran)
    ctx.notes["idbbuild_runs_validated"] = len(traced)
    ctx.notes["idbbuild_databases_cross_checked"] = ndump
    ctx.notes["idbbuild_events"] = counts
    ctx.notes["idbbuild_events_validated"] = nev
    ctx.notes["idbbuild_runs_with_remove_type"] = sum(1 for j in jobs if any(e["e"] == "RemoveType" for e in j["events"]))
    ctx.notes["idbbuild_runs_without_remap"] = sum(1 for j in done if not any(e["e"] == "Remap" for e in j["events"]))
    ctx.cov["evaluations"] += len(traced)
    ctx.cov["traces_validated_against_impl"] += len(traced)
    if traced:
        j = traced[len(traced) // 2]
        ctx.sample(dict(part="IdbBuild", run=j["what"], events=len(j["events"]),
                        database_cross_checked=("raw" in j), verdict="trace accepted, invariants hold"), limit=8)
    return dict(runs=len(jobs), validated=len(traced), dumps=ndump, events=nev)
