"""C15 — the front-end is total: any input ends in a diagnostic, never a crash or hang.

Two specifications:
  * ToolRun (run protocol): a run terminates (<>Exited), with no signal, an ordinary exit status,
    `parse_file() ok <=> no errors`, and a run that reported a parse error exits non-zero before
    any output is opened.  TLC checks the protocol on the model; EVERY tool invocation made here is
    validated against ToolRunTrace (H-run hook events + the monitor record of the process).
  * LexModes (input space): the scanner's modes x symbol classes x EOF as a transition system read
    off cppPreprocessor.cxx; TLC enumerates one input per mode path (VIEW) up to the cfg's length and
    this check verifies that every (mode, symbol) and (mode, EOF) transition of every mode is on a
    dumped path.
  * LexModesIf (second lexer): the text of #if / #elif / computed #include / object-like #define is
    rewritten by expand_manifests / expand_defined_function / expand_has_include_function /
    CPPManifest::extract_args, which index the string by hand; the same enumeration over its modes.
  * File roles: the spec's Parse("err") outcome (ToolRun dump) is realised with the erroneous text
    in every role a file can have (command-line file first / second, quote-included from cwd /
    includer's directory / -I / -S, angle-included via -S, nested two levels, mixed) for a syntax
    error, #error and unterminated constructs: expected exit != 0, no output file, a diagnostic.
Inputs = the LexModes dump (rendered under four preludes: `a` undefined / object-like macro /
function-like macro / class template) + directive, constant-expression, literal, nesting and
byte-level edge cases.  Each input is fed as source file to parse_file and to interrogate
(-oc/-od, -python-native), as an #included file, as a .N command file, as a -D definition.
Verdict per run: the ToolRun protocol (no signal / abort / uncaught exception / sanitizer report,
bounded time, parse error => non-zero exit and no output file, failure => diagnostic).
Thorough tier: the same under the ASan+UBSan build.

Not done (stated in the evidence): random byte-level mutation — the bounded enumeration over the
mode model is what this family offers for "all byte strings"."""
import json, os, re, resource, shutil, time
from ..common import MachineryError, NCPU
from .. import build, tlc, run

LEX_CFG = {"quick": "LexModes_quick", "thorough": "LexModes_thorough"}
TIMEOUT = {"hooked": 10, "asan": 40}     # seconds for an input below 10 kB; x6 for inputs above 100 kB
SYM = {"a": "a", "0": "0", "dq": '"', "sq": "'", "bs": "\\", "nl": "\n", "hash": "#", "sl": "/", "st": "*",
       "lp": "(", "rp": ")", "lt": "<", "gt": ">", "sp": " ", "R": "R", "cm": ",", "dt": ".", "eq": "=",
       "pc": "%", "define": "define", "if": "if", "else": "else", "endif": "endif", "include": "include"}
IF_CFG = {"quick": "LexModesIf_quick", "thorough": "LexModesIf_thorough"}
SYMIF = {"F": "F", "G": "G", "O": "O", "u": "u", "defined": "defined", "hasinc": "__has_include", "L": "L", "n1": "1",
         "sp": " ", "nl": "\\\n", "lp": "(", "rp": ")", "cm": ",", "dq": '"', "sq": "'", "bs": "\\", "lt": "<", "gt": ">"}
IF_PRELUDE = "#define F(x) x\n#define G(x,y) x y\n#define O 1\n"
IF_CONTEXTS = {
    "if": "#if %s\nint kept;\n#endif\n",
    "elif": "#if 0\n#elif %s\nint kept;\n#endif\n",
    "include": "#include %s\nint after;\n",
    "define": "#define X %s\nint x = X;\n",
    "if-eof": "#if %s",
}
PRELUDE = {"none": "", "obj": "#define a 0\n", "fn": "#define a(x,y) x y\n",
           "tmpl": "template<class T> class a;\n"}
OK_HEADER = "class Ok {\n__published:\n  Ok();\n  int value() const;\n};\n"
SANITIZER = re.compile(r"ERROR: (Address|Leak|Undefined)Sanitizer|runtime error:|AddressSanitizer:|SUMMARY: \w+Sanitizer")
def reported_errors(stderr):
    """Number of error diagnostics the run printed: lines `[file:line:[col:]] error: ...` (a
    `warning:` whose text happens to contain ` error: ` does not count)."""
    n = 0
    for ln in stderr.split("\n"):
        i = ln.find(" error: ")
        if i >= 0 and " warning: " not in ln[:i + 1]:
            n += 1
    return n


DIAG = re.compile(r"rror|Unable to|failed to parse|warning:|Ignoring|Unknown type|Usage")


# ---------------------------------------------------------------------------------------
# known-finding classes: predicates over the INPUT TEXT (never over what the tool did)
ID = r"[A-Za-z_]\w*"


def fn_macros(text):
    """{name: set(identifiers in the replacement list)} for function-like #defines."""
    out = {}
    for m in re.finditer(r"^[ \t]*#[ \t]*define[ \t]+(%s)\(([^)\n]*)\)?(.*(?:\\\n.*)*)$" % ID, text, re.M):
        out[m.group(1)] = set(re.findall(ID, m.group(3)))
    return out


def p_macro_self_recursion(text):
    """A function-like macro reachable from its own replacement list is invoked, or a function-like
    macro is invoked with its own name among the arguments."""
    fm = fn_macros(text)
    if not fm:
        return False
    reach = {k: {i for i in v if i in fm} for k, v in fm.items()}
    changed = True
    while changed:
        changed = False
        for k in reach:
            new = set(reach[k])
            for j in list(reach[k]):
                new |= reach.get(j, set())
            if new != reach[k]:
                reach[k], changed = new, True
    selfr = [k for k in reach if k in reach[k]]
    body = re.sub(r"^[ \t]*#[ \t]*define.*(?:\\\n.*)*$", "", text, flags=re.M)
    if any(re.search(r"\b%s\s*\(" % re.escape(k), body) for k in selfr):
        return True
    # ... or is handed its own name as an argument (the name comes back through the parameter)
    return any(re.search(r"\b%s\s*\([^()]*\b%s\b" % (re.escape(k), re.escape(k)), body) for k in fm)


def max_adjacent(rx, text):
    """Longest run of matches of rx that follow each other without a gap (linear time)."""
    best = run_ = 0
    end = -1
    for m in rx.finditer(text):
        run_ = run_ + 1 if m.start() == end else 1
        end = m.end()
        best = max(best, run_)
    return best


def p_macro_nesting(text):
    """More than 1000 macro expansions are active at once: a chain of > 1000 object-like macros each
    defined as the next one, or > 1000 macro invocations nested in each other's arguments."""
    objs = dict(re.findall(r"^[ \t]*#[ \t]*define[ \t]+(%s)[ \t]+(%s)[ \t]*$" % (ID, ID), text, re.M))
    lim = MACRO_DEPTH[BUILD_KIND[0]]
    if len(objs) > lim:
        targets = set(objs.values())
        for k in [k for k in objs if k not in targets][:3] or list(objs)[:1]:
            n, cur, seen = 0, k, set()
            while cur in objs and cur not in seen:
                seen.add(cur)
                cur = objs[cur]
                n += 1
            if n > lim:
                return True
    for name in fn_macros(text):
        if max_adjacent(re.compile(r"\b%s\s*\(\s*" % re.escape(name)), text) > lim:
            return True
    return False


IF_LINE = re.compile(r"^[ \t]*#[ \t]*(?:el)?if[ \t(]([^\n]*)$", re.M)


def p_div_zero(text):
    """`/` or `%` whose right operand is a zero-valued literal or a parenthesised `n-n`; in the
    controlling expression of #if / #elif (where undefined identifiers, empty character literals
    and the like count as 0) every one whose right operand does not start with a non-zero digit."""
    if re.search(r"[/%][ \t]*(?:\([ \t]*)*(0[xX]0+|0+(?:\.0*)?)(?![\w.'])", text) or \
            re.search(r"[/%][ \t]*\([ \t]*(\d+)[ \t]*-[ \t]*\1[ \t]*\)", text):
        return True
    return any(re.search(r"[/%](?![ \t]*[1-9])", m.group(1)) for m in IF_LINE.finditer(text))


def p_div_overflow(text):
    """INT_MIN divided by (or modulo) -1."""
    return bool(re.search(r"[/%][ \t]*\(?[ \t]*-[ \t]*1\b", text)) and bool(re.search(r"2147483647[ \t]*-[ \t]*1|2147483648", text))


def p_xor(text):
    """Binary `^` (or `xor`) in a constant expression."""
    return bool(re.search(r"\^(?!=)|\bxor\b", text))


def p_template_depth(text):
    """Template-ids nested more than 100 levels deep (45 under the sanitizer build)."""
    return max_adjacent(re.compile(r"(?<!\w)%s[ \t]*<[ \t]*" % ID), text) > TEMPLATE_DEPTH[BUILD_KIND[0]]


EXPR_DEPTH = {"hooked": 15000, "asan": 1200}     # the sanitizer build has larger stack frames
TEMPLATE_DEPTH = {"hooked": 100, "asan": 45}
MACRO_DEPTH = {"hooked": 1000, "asan": 300}
BUILD_KIND = ["hooked"]


def p_expr_depth(text):
    """An expression chaining more than 15000 binary operators on one line (1200 under the sanitizer
    build, whose frames are larger).  Measured on HEAD 3c7366c: parse_file dies at 16356 operators of
    `int x = 1+1+...` / an enumerator (CPPExpression::output), at 86570 in #if; interrogate at > 120000."""
    n = EXPR_DEPTH[BUILD_KIND[0]]
    return any(len(ln) > 2 * n and max(ln.count(c) for c in "+-*|&") > n for ln in text.split("\n"))


def p_arith_ub(text):
    """Integer arithmetic of an evaluated constant expression leaves the range of int: a shift whose
    count is a literal >= 32, negative or itself a shift, a shift of a negative literal, or + - * /
    unary minus on the literals 2147483647 / 2147483648.  (Only the sanitizer build notices.)"""
    return bool(re.search(r"(<<|>>)[ \t]*\(?[ \t]*(-|\d{3,}|3[2-9]|[4-9]\d|\(?1<<)", text)) or \
        bool(re.search(r"-[ \t]*\d+[ \t]*<<", text)) or \
        bool(re.search(r"214748364[78]", text) and re.search(r"214748364[78]\)*[ \t]*[-+*<]|[-+*][ \t]*\(*214748364[78]|-\(-214748364", text))


def p_array_dims(text):
    """A declarator with more than 300 array dimensions."""
    return max_adjacent(re.compile(r"\[[^\][\n]{0,8}\][ \t]*"), text) > 300


SELF_TOK = re.compile(r"\b(struct|class|union)\s+(\w+)\s*(:[^{;]*)?\{|(\{)|(\})|(?:\b(static|typedef|friend|using)\s+)?\b(\w+)\s+(\w+)\s*(?:\[[^\]\n]*\]\s*)*;")


def p_self_containing(text):
    """A class has a non-static data member (possibly an array) whose type is an enclosing class that
    is still being defined, or a member class derived from one (an incomplete-type member)."""
    if len(text) > 200000:
        return False
    stack = []
    for m in SELF_TOK.finditer(text):
        if m.group(1):
            names = {n for n in stack if n}
            if m.group(3) and names & set(re.findall(r"\w+", m.group(3))):
                return True
            stack.append(m.group(2))
        elif m.group(4):
            stack.append(None)
        elif m.group(5):
            if stack:
                stack.pop()
        elif m.group(7) and not m.group(6):
            if m.group(7) in {n for n in stack if n}:
                return True
    return False


CLASSES = [
    ("C15-macro-self-recursion", p_macro_self_recursion),
    ("C15-macro-nesting-depth", p_macro_nesting),
    ("C15-const-div-zero", p_div_zero),
    ("C15-const-div-overflow", p_div_overflow),
    ("C15-xor-abort", p_xor),
    ("C15-template-nesting-depth", p_template_depth),
    ("C15-expr-depth-recursion", p_expr_depth),
    ("C15-array-dims-cubic", p_array_dims),
    ("C15-const-arith-ub", p_arith_ub),
    ("C15-self-containing-class", p_self_containing),
    ("C15-diagnostics-quadratic", lambda text: text.count("#error") + text.count("#warning") > 10000),
]


def classes_of(text, mode="pf", kind=None):
    """Finding classes of an input.  A -D value ends up in `#if VAL` of the probe source, so for
    that feeding mode the predicates look at it as a controlling expression."""
    if mode == "D":
        text = "#if " + text.replace("\n", " ") + "\n"
    old = BUILD_KIND[0]
    if kind:
        BUILD_KIND[0] = kind
    try:
        return [cid for cid, pred in CLASSES if pred(text)]
    finally:
        BUILD_KIND[0] = old


# ---------------------------------------------------------------------------------------
# edge-case inputs (directive / #if / literal / nesting / byte level).  (name, text[, extra files])
def edge_inputs(tier):
    E = []

    def add(name, text, extra=None):
        E.append((name, text, extra or {}))
    binops = ["+", "-", "*", "/", "%", "<<", ">>", "<", ">", "<=", ">=", "==", "!=", "&", "|", "^", "&&", "||",
              "<=>", "and", "or", "xor", "bitand", "bitor", "not_eq", ","]
    exprs = [("bin" + str(i), "7 %s 3" % op) for i, op in enumerate(binops)]
    exprs += [("un" + str(i), e) for i, e in enumerate(
        ["!7", "~7", "-7", "+7", "not 7", "compl 7", "1 ? 2 : 3", "0 ? 2 : 3", "(7)", "((7))", "defined(X)", "defined X",
         "defined", "defined(", "defined()", "defined(X", "sizeof(int)", "alignof(int)", "(int)7", "static_cast<int>(7)",
         "noexcept(1)", "nullptr", "true", "false", "'a'", "'\\0'", "'ab'", "\"s\"", "\"s\"[0]", "1.5", "1.5 + 1", ".5", "1e3",
         "__LINE__", "__FILE__", "__has_include(\"x.h\")", "__has_include(<x.h>)", "__has_include(", "__has_include",
         "__has_include()", "__has_include(x", "X", "X(1)", "X(", "1 2", "1 +", "+", "(", ")", "()", "1 ? 2", "? :",
         "1 ? : 3", "7 7 7", "7 +* 3", "a.b", "a->b", "a[1]", "f(1)", "f(", "::a", "a::", "typeid(int)", "new int",
         "throw 1", "x = 3", "x += 3", "x++", "--x", "__is_pod(int)", "__is_pod(", "this", "[]{}", "{}"])]
    exprs += [("div" + str(i), e) for i, e in enumerate(
        ["1/0", "1%0", "0/0", "0%0", "1/(2-2)", "1%(2-2)", "1/00", "1/0x0", "1.0/0", "1/0.0", "7/(1/0)", "0 && 1/0",
         "1 || 1/0", "0 ? 1/0 : 2", "(-2147483647-1)/-1", "(-2147483647-1)%-1", "-2147483648/-1", "1/-1", "7%-1"])]
    exprs += [("sh" + str(i), e) for i, e in enumerate(
        ["1<<31", "1<<32", "1<<63", "1<<64", "1<<1000000", "1<<-1", "1>>-1", "1>>32", "1>>1000000", "-1<<1", "-1>>1",
         "1<<(1<<30)", "2147483647<<1", "0<<99"])]
    exprs += [("ov" + str(i), e) for i, e in enumerate(
        ["2147483647+1", "-2147483647-2", "2147483647*2", "-(-2147483647-1)", "2147483648", "4294967296", "-2147483648",
         "99999999999999999999999999999999999999", "0x" + "f" * 40, "0" + "7" * 40, "0b" + "1" * 100, "1e99999", "1.0e-99999",
         "0x", "0b", "0b2", "08", "1'000'000", "1''0", "1'", "0x'1", "1uu", "1ull", "1_km", "1.f.f", "1..2", "1e+", "1e", "0x1p3",
         "1.0f", "1.0L", "1z", "1uz"])]
    for nm, e in exprs:
        add("if-" + nm, "#if %s\nint kept;\n#else\nint other;\n#endif\n" % e)
        add("enum-" + nm, "class C {\n__published:\n  enum E { A = %s, B };\n};\n" % e)
        add("def-" + nm, "#define M (%s)\nclass C {\n__published:\n  int f();\n};\n" % e)
        if tier == "thorough":
            add("arr-" + nm, "class C {\n__published:\n  int f(int (&x)[%s]);\n};\n" % e)
            add("elif-" + nm, "#if 0\n#elif %s\nint kept;\n#endif\n" % e)

    # conditional structure
    for i, t in enumerate(["#if 1\n", "#if 0\n", "#ifdef X\n", "#ifndef X\n", "#if 1\n#if 1\n", "#if 0\n#if 1\n#endif\n",
                           "#if 1\n#else\n", "#if 0\n#else\n", "#if 0\n#elif 1\n", "#elif 1\n", "#elif\n", "#else\n", "#endif\n",
                           "#endif\n#endif\n", "#if 1\n#else\n#else\n#endif\n", "#if 1\n#else\n#elif 1\n#endif\n",
                           "#if 0\n#else\n#else\nint x;\n#endif\n", "#if\n#endif\n", "#ifdef\n#endif\n", "#ifndef\n#endif\n",
                           "#ifdef 1\n#endif\n", "#ifdef X Y\n#endif\n", "#if 1 //c\n#endif //c\n", "#if 1 /* c\n */\n#endif\n",
                           "#if 0\n'\n\"\n/*\n#endif\n", "#if 0\n#if\n#bogus\n#endif\n#endif\n", "#elifdef X\n", "#elifndef X\n",
                           "#if 0\n#elifdef X\n#elifndef X\nint x;\n#endif\n", "#if 1", "#if 0", "#if 0\n#else", "# if 1\n# endif\n",
                           "  #  if 1\n  #  endif\n", "#if 1\\\n+1\n#endif\n", "#if 1\n#endif junk\n", "#else junk\n"]):
        add("cond%d" % i, t)
    # includes
    inc = {"inc_ok.h": "int inc_ok;\n", "inc_self.h": "#include \"inc_self.h\"\nint s;\n",
           "inc_a.h": "#include \"inc_b.h\"\n", "inc_b.h": "#include \"inc_a.h\"\n",
           "inc_once.h": "#pragma once\n#include \"inc_once.h\"\nint once;\n", "inc_nonl.h": "int nonl",
           "inc_open.h": "/* open comment", "inc_if.h": "#if 1\n", "inc_str.h": "\"open"}
    for i, t in enumerate(["#include \"missing.h\"\n", "#include <missing.h>\n", "#include \".\"\n", "#include \"..\"\n",
                           "#include \"/\"\n", "#include \"\"\n", "#include <>\n", "#include\n", "#include \"\n", "#include <\n",
                           "#include \"inc_ok.h\n", "#include <inc_ok.h\n", "#include inc_ok.h\n", "#include \"inc_ok.h\" junk\n",
                           "#define H \"inc_ok.h\"\n#include H\n", "#define H <inc_ok.h>\n#include H\n", "#define H\n#include H\n",
                           "#include \"inc_self.h\"\n", "#include \"inc_a.h\"\n", "#include \"inc_once.h\"\n#include \"inc_once.h\"\n",
                           "#include \"inc_nonl.h\"\n;\n", "int x = \n#include \"inc_ok.h\"\n;\n", "#include \"inc_open.h\"\nint x; */\n",
                           "#include \"inc_if.h\"\n#endif\n", "#include \"inc_str.h\"\n\";\n", "#include \"inc_ok.h\"" * 3 + "\n",
                           "#include \"" + "d/" * 2000 + "x.h\"\n", "#include \"" + "x" * 5000 + "\"\n", "#include \"\\\"\n",
                           "#include_next \"inc_ok.h\"\n", "#import \"inc_ok.h\"\n", "#if __has_include(\"inc_ok.h\")\nint y;\n#endif\n"]):
        add("inc%d" % i, t, inc)
    # #define parameter lists / bodies / invocations
    for i, t in enumerate(["#define\n", "#define \n", "#define 1\n", "#define (\n", "#define )\n", "#define f(\n", "#define f(x\n",
                           "#define f(x,\n", "#define f(,)\n", "#define f(,\n", "#define f()\n", "#define f(...)\n", "#define f(x...)\n",
                           "#define f(..., x)\n", "#define f(x x) x\n", "#define f(1) 1\n", "#define f((x)) x\n", "#define f(x)(y) x\n",
                           "#define f (x) x\nint f;\n", "#define f(x) #\nf(1)\n", "#define f(x) ##\nf(1)\n", "#define f(x) x ##\nf(1)\n",
                           "#define f(x) ## x\nf(1)\n", "#define f(x) #y\nf(1)\n", "#define f(x) # x\nf(a\"b)\n", "#define f(x) #x\nf(\\)\n",
                           "#define f(...) __VA_OPT__(\nf(1)\n", "#define f(...) __VA_OPT__\nf(1)\n", "#define f(...) __VA_OPT__()\nf()\n",
                           "#define f(x) __VA_ARGS__\nf(1)\n", "#define f(...) #__VA_ARGS__\nf(1,2,\"3\")\n", "#define defined 1\n#if defined(X)\n#endif\n",
                           "#define __LINE__ 5\nint x = __LINE__;\n", "#define __FILE__ 5\nint x = __FILE__;\n", "#define a a\nint a;\n",
                           "#define a b\n#define b a\nint a;\n", "#define a a a a\nint a;\n", "#define f(x) x\nint y = f(\n", "#define f(x) x\nint y = f(1,\n",
                           "#define f(x) x\nint y = f((\n", "#define f(x) x\nint y = f(\"\n", "#define f(x) x\nint y = f('\n",
                           "#define f(x) x\nint y = f(\\\n", "#define f(x) x\nint y = f(\n#define g 1\n)\n;\n", "#define f(x) x\nint y = f(1)(2);\n",
                           "#define f(x) x\nint y = f;\n", "#define f(x) x\nint y = f\n(1);\n", "#define f(x) x\nint y = f /* c */ (1);\n",
                           "#define f(x,y) x y\nint f(1);\n", "#define f(x) x\nint y = f(1,2,3);\n", "#define f() 1\nint y = f(1);\n",
                           "#define f(x) f(x)+1\nint y = f(1);\n", "#define f(x) g(x)\n#define g(x) f(x)\nint y = f(1);\n",
                           "#define f(x) x(x)\nint y = f(f)(1);\n", "#define f(x) x\nint y = f(f(f(f(1))));\n", "#define EMPTY\n#define f(x) x EMPTY\nint y = f(EMPTY);\n",
                           "#define s \"abc\nint x;\n", "#define c 'a\nint x;\n", "#define m /* open\nint x; */\n", "#define m(x) \\\n", "#define m \\",
                           "#undef\n", "#undef X Y\n", "#undef __LINE__\nint x = __LINE__;\n", "#define X(\n#undef X\n", "#define f(x) x\n\"s\"f(1);\n",
                           "#define f(x) x\n1f(1);\n", "#define L 1\nL\"x\";\n", "#define R 1\nR\"(x)\";\n", "#define f(x) x\n#if f(\n#endif\n",
                           "#define f(x) x\n#if f(1\n#endif\n", "#define f(x,y) x\n#if f(1)\n#endif\n", "#define f(x) x\n#if f\n#endif\n"]):
        add("def%d" % i, t)
    for i, t in enumerate(["#define X 1", "#undef X", "#include \"inc_ok.h\"", "#include <inc_ok.h>", "#include \"missing.h\"", "#pragma once",
                           "#error x", "#warning x", "#if 1", "#ifdef X", "#ifndef X", "#else", "#endif", "#elif 1", "#line 5", "#ident \"x\"", "#bogus",
                           "#define f(x) x", "#define f(x) x\nf(1)", "#if 0\n#endif", "#if 0\n#else", "#pragma push_macro(\"x\")", "#include \"inc_nonl.h\""]):
        add("nonl%d" % i, t, inc)
        add("nonl-after%d" % i, "int before;\n" + t, inc)
    # pragma / misc directives
    for i, t in enumerate(["#pragma\n", "#pragma once\n", "#pragma once once\n", "#pragma once\n#pragma once\n", "#pragma \"\n", "#pragma (((\n",
                           "#pragma push_macro(\n", "#pragma push_macro(\"\n", "#pragma push_macro(\"x\")\n" * 5 + "#pragma pop_macro(\"x\")\n" * 6,
                           "#pragma pop_macro(\"x\")\n", "#pragma pop_macro(\"" + "x" * 200 + "\")\n", "#pragma push_macro(\"" + "x" * 200 + "\")\n",
                           "#define x 1\n#pragma push_macro(\"x\")\n#undef x\n#pragma pop_macro(\"x\")\nint y = x;\n", "_Pragma(\"once\")\n", "#pragma omp parallel for\n",
                           "#pragma GCC poison x\nint x;\n", "#error\n", "#error msg\n", "#warning\n", "#warning msg\n", "#line 5\n", "#line 5 \"f.h\"\n", "#line\n",
                           "#ident \"x\"\n", "#bogus\n", "#123\n", "# 5 \"f.h\"\n", "#!shebang\n", "##\n", "#\n", "# \n", "#\\\n", "#/**/define X\nint X;\n",
                           "%:define X\n", "??=define X\n", "#error \"unterminated\n", "#error /* open\n"]):
        add("prag%d" % i, t)
    # literals, comments, strays, bytes
    for i, t in enumerate(["\"abc", "\"abc\n", "'a", "'", "''", "'ab'", "'\\", "\"\\", "\"\\\n\"", "\"a\\\nb\";", "\"\\x\"", "\"\\xZ\"", "\"\\400\"", "\"\\u12\"",
                           "'\\x", "'\\0", "L\"", "L'", "u8\"", "u8'", "U\"x", "R\"(", "R\"(\"", "R\"()\"", "R\"x(", "R\"x(abc)y\"", "R\"x(abc)x\"", "R\"", "R\"\n", "LR\"(",
                           "u8R\"(a)\"", "R\"" + "x" * 100 + "(a)" + "x" * 100 + "\"", "R'(a)'", "R\"(a)\"R\"(b)\"", "\"a\"\"b\"", "\"a\"b", "\"a\"_b", "'a'_b", "1_b", "1.0_b",
                           "/*", "/* *", "/*/", "/**/", "/* /* */ */", "//", "//\\\nint x;", "// \\\n\\\nint x;\n", "/", "/ /", "\\", "\\\n", "\\\\", "\\ \n", "int\\\nx;",
                           "}", "};", ")", "]", ">", ">>", "}}}}", "class A {};}", "namespace N { } }", "extern \"C\" { }}", "{", "(", "[", "<", "{{{{", "class A {", "class A { int f(",
                           "namespace", "namespace {", "template<", "template<class", "template<class T> class", "A<", "enum {", "enum { A =", "enum { A = 1,", "int x =", "int x = (",
                           "int f(int", "typedef", "using", "using namespace", "operator", "class A : ", "class A : public", "friend", "~", "::", "->", "...", "int ...x;",
                           ";", ";;;;", "", "\n", "\n\n\n", " ", "\t", "\f", "\v", "\r", "\r\n", "int x;\r\nint y;\r\n", "int x;\rint y;\r", "#define X 1\\\r\n+1\r\nint x = X;\r\n",
                           "<: :> <% %> %: %:%:", "int x<:1:>;", "struct S <% int x; %>;", "??= ??( ??) ??< ??> ??/ ??' ??! ??-", "int x??(1??);",
                           "int a and b;", "int x = 1 bitand 2;", "and or not xor bitand bitor compl and_eq or_eq xor_eq not_eq", "int and;",
                           "int $x;", "int @x;", "int `x;", "int x = 1 $ 2;", "\\u0041 x;", "int \\u00e9;"]):
        add("lit%d" % i, t)
    for i, b in enumerate([b"int\x00x;\n", b"\x00", b"\x00" * 100, b"\"a\x00b\";\n", b"#define X\x00Y 1\n", b"#\x00\n", b"// \x00\nint x;\n", b"int x\x00",
                           b"\xff", b"\xff\xfe", b"\xef\xbb\xbfint x;\n", b"int \xc3\xa9;\n", b"int x\xff;\n", b"\"\xff\xff\";\n", b"'\xff';\n", b"// \xff\xfe\nint x;\n",
                           b"#define \xff 1\n", b"#if \xff\n#endif\n", b"#include \"\xff\"\n", b"\x80\x81\x82", b"int x = '\x80';\n", b"\x1b[0m", b"\x7f", b"\x01\x02\x03",
                           b"R\"\xff(a)\xff\"", b"#if 1 \x00 2\n#endif\n", b"#define f(x\xff) x\nf(1)\n", bytes(range(1, 256)), bytes(range(255, 0, -1))]):
        add("byte%d" % i, b)
    # .N command files next to the source (interrogate reads t.N when given t.h)
    for i, (src, cmds) in enumerate([
            ("struct { int q; } g;\n", "forcetype decltype(g)\n"),
            ("struct A {\n  struct { int q; } anon;\n  enum { X } e;\n};\n", "forcetype decltype(A::anon)\nforcetype decltype(A::e)\n"),
            ("struct A { int q; };\n", "forcetype\nforcetype \nrenametype\nrenametype A\ndefconstruct\ndefconstruct A\nignoretype\nforceinclude\nforceinclude \"\nforceinclude <\n"),
            ("struct A { int q; };\n", "forcetype B<\nforcetype A::\nforcetype ::\nforcetype A B C\nforcetype decltype(\nforcetype decltype(nothing)\nrenametype decltype(A) X\n"),
            ("struct A { int q; };\ntypedef A T;\n", "forcetype T\nforcetype const A\nforcetype A*\nforcetype A&\nforcetype A[3]\nforcetype int\nforcetype void\nforcetype auto\nforcetype A(*)(A)\n"),
            ("struct A { int q; };\n", "forcetype A"),                      # last line without newline
            ("struct A { int q; };\n", "# only a comment\n\n   \n\t#x\n"),
            ("template<class T> struct V { T t; };\n", "forcetype V<int>\nforcetype V<V<int> >\nforcetype V<\nforcetype V<>\nforcetype V<1>\nrenametype V<int> VInt\n")]):
        add("ncmd%d" % i, src, {"t.N": cmds})
    # type-producing constructs whose operand cannot be typed / named
    for i, t in enumerate(["decltype(nothing) v;", "typedef decltype(nothing) T;", "void f(decltype(nothing) a);", "decltype(nothing) *p;",
                           "decltype(f()) v;", "decltype(a.b) v;", "decltype(a->b) v;", "decltype(*p) v;", "decltype(a[1]) v;", "decltype(1+) v;",
                           "decltype() v;", "decltype( v;", "decltype(nullptr) v;", "decltype(\"s\") v;", "decltype(1, nothing) v;",
                           "decltype(nothing + 1) v;", "decltype(-nothing) v;", "decltype(nothing ? 1 : 2) v;", "decltype(1 ? nothing : 2) v;",
                           "decltype(sizeof(nothing)) v;", "decltype((nothing)) v;", "decltype(decltype(nothing)) v;", "decltype(auto) v = 1;",
                           "struct S { decltype(nothing) m; };", "template<class T> decltype(T::x) g();", "using U = decltype(nothing);",
                           "enum E : decltype(nothing) { A };", "struct D : decltype(nothing) {};", "int a[sizeof(decltype(nothing))];",
                           "__underlying_type(int) u;", "__underlying_type(nothing) u;", "__underlying_type() u;", "typeof(nothing) t;",
                           "int x = sizeof(nothing);", "int x = sizeof(nothing::type);", "int x = alignof(nothing);", "int x = sizeof...(nothing);",
                           "int x = noexcept(nothing);", "int x = typeid(nothing).name();", "int x = __is_pod(nothing);", "int x = __is_base_of(nothing, int);",
                           "typename nothing::type v;", "nothing::type v;", "::nothing v;", "nothing<int> v;", "nothing<int>::type v;",
                           "template<class T> struct X { typename T::type v; decltype(T()) w; };\nX<int> xi;", "auto f() -> decltype(nothing);",
                           "auto v = nothing;", "auto [a, b] = nothing;", "static_assert(nothing, \"m\");", "static_assert(sizeof(nothing) == 1, \"m\");",
                           "enum E { A = nothing };", "enum E { A = sizeof(decltype(nothing)) };", "int a[nothing];", "int f(int = nothing);",
                           "template<int N = nothing> struct Y {};", "template<class T = decltype(nothing)> struct Z {};"]):
        add("ty%d" % i, t + "\n")
        add("ty-pub%d" % i, "struct Pub%d {\n__published:\n  int keep;\n};\n%s\n" % (i, t))
    # methods named like Python slots, declared with signatures the slot does not have (the python-native maker
    # calls them with the slot's own argument list)
    slots = ["__traverse__", "__getbuffer__", "__releasebuffer__", "__clear__", "__setattr__", "__delattr__", "__getattr__", "__setitem__",
             "__getitem__", "__delitem__", "__len__", "__call__", "__iter__", "__next__", "__hash__", "__repr__", "__str__", "__bool__",
             "__nonzero__", "__cmp__", "compare_to", "__contains__", "__reduce__", "__copy__", "__deepcopy__", "__getstate__", "__setstate__",
             "__enter__", "__exit__", "__index__", "__int__", "__float__", "__pow__", "__ipow__", "__round__", "__divmod__", "operator []",
             "operator ()", "__init__", "__new__", "__del__", "get_key", "size", "output", "write", "make_copy"]
    sigs = ["void %s();", "int %s();", "int %s(int x);", "int %s(int x) const;", "void %s(int a, int b, int c, int d);", "static int %s();",
            "static void %s(int x);", "double %s(double x, const char *s);", "void %s(...);", "int %s(int x = 3);"]
    for i, sl in enumerate(slots):
        body = "\n".join("  " + sg % sl for sg in (sigs[i % len(sigs)], sigs[(i + 3) % len(sigs)]))
        add("slot%d" % i, "class Sl%d {\n__published:\n  Sl%d();\n%s\n};\n" % (i, i, body))
        add("slot1-%d" % i, "class Sm%d {\n__published:\n  Sm%d();\n  %s\n};\n" % (i, i, sigs[(i + 1) % len(sigs)] % sl))
    # classes that contain themselves (incomplete-type members)
    for i, t in enumerate(["struct A {\n__published:\n  A a;\n};\n", "struct A {\n  A a;\n__published:\n  int f();\n};\n",
                           "struct A {\n__published:\n  struct B : A { int z; } b;\n};\n", "struct A {\n__published:\n  A a[2];\n};\n",
                           "class A {\npublic:\n  A a;\n};\nclass C {\n__published:\n  A x;\n};\n",
                           "struct A;\nstruct B {\n__published:\n  A a;\n};\nstruct A {\n__published:\n  B b;\n};\n",
                           "struct A {\n__published:\n  static A s;\n  A *p;\n  A &r;\n  A f();\n};\n",
                           "template<class T> struct W {\n__published:\n  W<T> w;\n};\nW<int> v;\n",
                           "union U {\n__published:\n  U u;\n  int i;\n};\n", "struct A {\n__published:\n  const A a;\n  typedef A Self;\n  Self s;\n};\n"]):
        add("selfc%d" % i, t)
    # depth / length
    n = 5000
    deep = {
        "paren-expr": "int x = " + "(" * n + "1" + ")" * n + ";\n",
        "paren-enum": "class C {\n__published:\n enum E { A = " + "(" * n + "1" + ")" * n + " };\n};\n",
        "paren-if": "#if " + "(" * n + "1" + ")" * n + "\n#endif\n",
        "brace-body": "void f() { " + "{" * n + "}" * n + " }\n",
        "brace-namespace": "namespace a { " * n + "}" * n + "\n",
        "class-nest": "class C { " * n + "};" * n + "\n",
        "bracket-nest": "int x[" + "a[" * n + "1" + "]" * n + "];\n",
        "array-dims-200": "int x" + "[1]" * 200 + ";\n",
        "array-dims-5000": "int x" + "[1]" * n + ";\n",
        "template-nest-5000": "template<class T> struct A {};\n" + "A<" * n + "int" + " >" * n + " v;\n",
        "template-nest-150": "template<class T> struct A {};\n" + "A<" * 150 + "int" + " >" * 150 + " v;\n",
        "template-nest-60": "template<class T> struct A {};\n" + "A<" * 60 + "int" + " >" * 60 + " v;\n",
        "template-open-5000": "template<class T> struct A {};\n" + "A<" * n + "\n",
        "elif-chain-4500": "#if 0\n" + "#elif 0\n" * 4500 + "#endif\nint after;\n",
        "elif-chain-100000": "#if 0\n" + "#elif 0\n" * 100000 + "#elif 1\nint kept;\n#else\nint no;\n#endif\n",
        "elifdef-chain-20000": "#ifdef X\n" + "#elifdef X\n#elifndef Y\n#elifndef X\n" * 0 + "#elifdef X\n" * 20000 + "#endif\n",
        "binary-chain-init-20000": "int x = " + "1+" * 20000 + "1;\n",
        "if-nest": "#if 1\n" * n + "#endif\n" * n,
        "if0-nest": "#if 0\n" * n + "#endif\n" * n,
        "if-open-5000": "#if 1\n" * n,
        "endif-5000": "#endif\n" * n,
        "unary-minus": "int x = " + "-" * n + "1;\n",
        "unary-not-if": "#if " + "!" * n + "1\n#endif\n",
        "pointer": "int " + "*" * n + "x;\n",
        "paren-decl": "int " + "(" * n + "x" + ")" * n + ";\n",
        "string-concat": "const char *s = " + "\"a\" " * n + ";\n",
        "cond-chain": "int x = " + "1?1:" * n + "1;\n",
        "binary-chain-5000": "class C {\n__published:\n enum E { A = " + "1+" * n + "1 };\n};\n",
        "binary-chain-if-40000": "#if " + "1+" * 40000 + "1\n#endif\n",
        "binary-chain-define-100000": "#define M " + "1+" * 100000 + "1\nint x = M;\n",
        "macro-chain-5000": "".join("#define M%d M%d\n" % (i, i + 1) for i in range(n)) + "#define M%d 1\nint x = M0;\n" % n,
        "macro-chain-500": "".join("#define M%d M%d\n" % (i, i + 1) for i in range(500)) + "#define M500 1\nint x = M0;\n",
        "macro-chain-if-5000": "".join("#define M%d M%d\n" % (i, i + 1) for i in range(n)) + "#define M%d 1\n#if M0\n#endif\n" % n,
        "macro-call-nest-5000": "#define f(x) x\nint x = " + "f(" * n + "1" + ")" * n + ";\n",
        "macro-call-nest-500": "#define f(x) x\nint x = " + "f(" * 500 + "1" + ")" * 500 + ";\n",
        "macro-args-100000": "#define f(...) __VA_ARGS__\nint x[] = { f(" + ",".join("1" for i in range(100000)) + ") };\n",
        "macro-params-5000": "#define f(" + ",".join("p%d" % i for i in range(n)) + ") p0\nint x = f(1);\n",
        "scope-chain": "int x = " + "a::" * n + "b;\n",
        "inherit-chain": "struct S0 {};\n" + "".join("struct S%d : S%d {};\n" % (i + 1, i) for i in range(n)),
        "typedef-chain": "typedef int T0;\n" + "".join("typedef T%d T%d;\n" % (i, i + 1) for i in range(1000)) + "T1000 v;\n",
        "declarators-50000": "int " + ",".join("x%d" % i for i in range(50000)) + ";\n",
        "long-identifier": "int " + "a" * 1000000 + ";\n",
        "long-string": "const char *s = \"" + "a" * 1000000 + "\";\n",
        "long-spaces": " " * 1000000 + "int x;\n",
        "long-comment": "/*" + "*" * 1000000 + "/ int x;\n",
        "long-line-comment": "//" + "x" * 1000000 + "\nint x;\n",
        "long-directive": "#define M " + "x " * 200000 + "\nint y;\n",
        "long-number": "int x = " + "9" * 100000 + ";\n",
        "long-raw-delim": "R\"" + "d" * 100000 + "(x)\"",
        "many-lines": "\n" * 1000000 + "int x;\n",
        "many-errors": "int ;\n" * 2000,
        "many-defines": "".join("#define D%d %d\n" % (i, i) for i in range(20000)),
        "init-braces": "int x = " + "{" * n + "}" * n + ";\n",
        "attribute-parens": "[[a(" + "(" * n + ")" * n + ")]] int x;\n",
        "static-assert": "static_assert(" + "(" * n + "1" + ")" * n + ", \"x\");\n",
        "sizeof-nest": "int x = " + "sizeof(" * n + "int" + ")" * n + ";\n",
        "cast-nest": "int x = " + "(int)" * n + "1;\n",
        "fnptr-nest": "int " + "(*" * n + "f" + ")()" * n + ";\n",
        "lambda-nest": "auto x = " + "[]{ return " * 500 + "1" + "; }()" * 500 + ";\n",
        "block-comment-stars": "/" + "*/" * n + "\n",
        "backslash-lines": "int x = 1" + "\\\n" * n + ";\n",
    }
    if tier == "thorough":
        deep["error-lines-40000"] = "#error x\n" * 40000
    for k, v in deep.items():
        add("deep-" + k, v)
    return E


# ---------------------------------------------------------------------------------------
# LENGTH: the dimension the mode models do not have.  Every construct whose text the code copies into
# a fixed-size buffer, hands to sscanf / strtol / strtod / atoi / pdtoa, or cuts with computed
# substr() positions (grep of src/cppparser, src/interrogate: char macro[64] + sscanf %63[^"] in
# handle_pragma_directive; strtol base 16 / 2 / 8 / 10 and pstrtod in get_number; pdtoa into
# char[32] / char[128] in CPPExpression::output / CPPToken::output_code; atoi(SOURCE_DATE_EPOCH);
# scan_raw delimiter; CPPManifest / extract_args / read_command_file substr arithmetic) is
# generated at the lengths {0, 1, limit-1, limit, limit+1, 4*limit, 100000} for its limit(s).
def lengths(*limits):
    out = {0, 1, 100000}
    for lim in limits:
        out |= {lim - 1, lim, lim + 1, 4 * lim}
    return sorted(x for x in out if x >= 0)


def length_inputs():
    """(name, text, modes)"""
    L = []

    def fam(name, limits, gen, modes=("pf", "pfE", "ig")):
        for n in lengths(*limits):
            L.append(("len:%s:%d" % (name, n), gen(n), modes))
    q = '"'
    # #pragma push_macro / pop_macro: char macro[64], sscanf %63[^"]
    fam("pragma-push_macro-name", (64,), lambda n: '#pragma push_macro("%s")\nint x;\n' % ("m" * n))
    fam("pragma-pop_macro-name", (64,), lambda n: '#pragma pop_macro("%s")\nint x;\n' % ("m" * n))
    fam("pragma-push-define-pop", (64,), lambda n: '#define {0} 1\n#pragma push_macro("{0}")\n#undef {0}\n#define {0} 2\n#pragma pop_macro("{0}")\nint x = {0};\n'.format("m" * max(n, 1)))
    fam("pragma-push_macro-spaces", (64,), lambda n: "#pragma push_macro%s(%s\"m\"%s)\nint x;\n" % (" " * n, " " * n, " " * n))
    fam("pragma-push_macro-unterminated", (64,), lambda n: '#pragma push_macro("%s\nint x;\n' % ("m" * n))
    fam("pragma-word", (64,), lambda n: "#pragma %s\nint x;\n" % ("p" * n))
    fam("pragma-once-trailing", (64,), lambda n: "#pragma once%s\nint x;\n" % (" " * n))
    # names
    fam("macro-name", (64, 256), lambda n: "#define %s 1\nint x = %s;\n#ifdef %s\n#endif\n#undef %s\n" % (("M" * max(n, 1),) * 4))
    fam("macro-parameter-name", (64,), lambda n: "#define f(%s) %s\nint x = f(1);\n" % (("p" * n,) * 2))
    fam("macro-parameter-count", (64, 256), lambda n: "#define f(%s) 1\nint x = f(%s);\n" % (",".join("p%d" % i for i in range(n)), ",".join("1" for i in range(n))))
    fam("macro-argument", (64, 4096), lambda n: "#define f(x) x\nconst char *s = f(\"%s\");\n" % ("a" * n))
    fam("macro-stringify-argument", (64, 4096), lambda n: "#define f(x) #x\nconst char *s = f(%s);\n" % ("a" * n))
    fam("macro-paste", (64,), lambda n: "#define f(x,y) x##y\nint f(%s,%s);\n" % ("a" * max(n, 1), "b" * n))
    fam("identifier", (64, 256, 4096), lambda n: "int %s;\n" % ("i" * max(n, 1)))
    fam("scoped-identifier", (64, 1000), lambda n: "namespace n { int v; }\nint y = " + "n::" * min(n, 4000) + "v;\n")
    fam("directive-name", (16, 64), lambda n: "#%s\nint x;\n" % ("d" * n))
    fam("if-identifier", (64,), lambda n: "#if %s\n#endif\n#if defined(%s)\n#endif\n" % (("U" * max(n, 1),) * 2))
    # numbers: strtol / pstrtod / pdtoa
    fam("decimal-digits", (10, 19, 20, 64), lambda n: "int x = %s;\n#if %s\n#endif\n" % (("9" * max(n, 1),) * 2))
    fam("decimal-with-separators", (10, 20), lambda n: "int x = 1%s;\n" % ("'1" * n))
    fam("hex-digits", (8, 16, 64), lambda n: "int x = 0x%s;\n#if 0x%s\n#endif\n" % (("f" * n,) * 2))
    fam("hex-with-separators", (8, 16), lambda n: "int x = 0x1%s;\n" % ("'f" * n))
    fam("binary-digits", (32, 64), lambda n: "int x = 0b%s;\n#if 0b%s\n#endif\n" % (("1" * n,) * 2))
    fam("binary-with-separators", (32, 64), lambda n: "int x = 0b1%s;\n" % ("'1" * n))
    fam("binary-bad-digit", (32,), lambda n: "int x = 0b%s2;\n" % ("1" * n))
    fam("octal-digits", (11, 22, 64), lambda n: "int x = 0%s;\n#if 0%s\n#endif\n" % (("7" * n,) * 2))
    fam("real-mantissa-digits", (17, 32, 128, 400), lambda n: "double x = %s.0;\n" % ("9" * max(n, 1)))
    fam("real-fraction-digits", (17, 32, 128, 400), lambda n: "double x = 0.%s1;\n" % ("0" * n))
    fam("real-exponent-digits", (3, 4, 32), lambda n: "double x = 1e%s;\ndouble y = 1e-%s;\n" % (("9" * max(n, 1),) * 2))
    fam("real-exponent-value", (308, 324), lambda n: "double x = 1e%d;\ndouble y = 1e-%d;\ndouble z = 1.7976931348623157e%d;\n" % (min(n, 99999), min(n, 99999), min(n, 99999)))
    fam("number-suffix", (3, 64), lambda n: "int x = 1%s;\ndouble y = 1.0%s;\n" % ("u" * n, "f" * n))
    # literals
    fam("string-literal", (64, 4096, 65536), lambda n: "const char *s = \"%s\";\n" % ("s" * n))
    fam("char-literal", (4, 64), lambda n: "int c = '%s';\n" % ("c" * n))
    fam("hex-escape-digits", (2, 8, 64), lambda n: "const char *s = \"\\x%s\";\nint c = '\\x%s';\n" % (("f" * n,) * 2))
    fam("octal-escape-digits", (3, 64), lambda n: "const char *s = \"\\%s\";\n" % ("7" * max(n, 1)))
    fam("escape-run", (64,), lambda n: "const char *s = \"%s\";\n" % ("\\\\" * n))
    fam("raw-string-delimiter", (16,), lambda n: "const char *s = R\"%s(x)%s\";\n" % (("d" * n,) * 2))
    fam("raw-string-body", (64, 4096), lambda n: "const char *s = R\"(%s)\";\n" % (")" * n))
    fam("raw-string-delimiter-never-closed", (16,), lambda n: "const char *s = R\"%s(x)\";\n" % ("d" * max(n, 1)))
    fam("string-prefix-literal", (64,), lambda n: "const wchar_t *s = L\"%s\";\nconst char *t = u8\"%s\";\n" % (("w" * n,) * 2))
    fam("string-suffix", (64,), lambda n: "const char *s = \"a\"%s;\n" % ("_" + "s" * n))
    # include names
    fam("include-quote-name", (255, 4096), lambda n: "#include \"%s.h\"\nint x;\n" % ("f" * n))
    fam("include-angle-name", (255, 4096), lambda n: "#include <%s.h>\nint x;\n" % ("f" * n))
    fam("include-path-components", (255, 2048), lambda n: "#include \"%sx.h\"\nint x;\n" % ("d/" * n))
    fam("has-include-name", (255, 4096), lambda n: "#if __has_include(\"%s.h\")\n#endif\nint x;\n" % ("f" * n))
    # lines, comments, whitespace, depth below the known recursion limits
    fam("line-of-spaces", (64, 4096), lambda n: "%s\nint x;\n" % (" " * n))
    fam("line-comment", (64, 4096), lambda n: "//%s\nint x;\n" % ("c" * n))
    fam("block-comment", (64, 4096), lambda n: "/*%s*/\nint x;\n" % ("c" * n))
    fam("directive-continuations", (64,), lambda n: "#define X 1%s\nint x = X;\n" % ("\\\n" * n))
    fam("error-message", (64, 4096), lambda n: "#error %s\n" % ("e" * n))
    fam("warning-message", (64, 4096), lambda n: "#warning %s\nint x;\n" % ("w" * n))
    fam("paren-depth", (50, 100), lambda n: "int x = %s1%s;\n" % ("(" * min(n, 400), ")" * min(n, 400)))
    fam("template-depth", (10, 40), lambda n: "template<class T> struct A {};\n%sint%s v;\n" % ("A<" * min(n, 40), " >" * min(n, 40)))
    fam("macro-chain-depth", (64, 250), lambda n: "".join("#define M%d M%d\n" % (i, i + 1) for i in range(min(n, 250))) + "#define M%d 1\nint x = M0;\n" % min(n, 250))
    # diagnostics whose position is an empty / all-blank line: show_line
    fam("blank-continuation-line-under-diagnostic", (15, 16, 64), lambda n: "#if defined(X \\\n%s\nint x;\n#endif\n" % (" " * n))
    fam("blank-line-has-include-diagnostic", (16, 64), lambda n: "#if __has_include( \\\n%s\nint x;\n#endif\n" % (" " * n))
    fam("blank-line-unclosed-quote-diagnostic", (16, 64), lambda n: "#if \"abc \\\n%s\nint x;\n#endif\n" % ("\t" * n))
    # -D, .N, environment
    fam("D-value", (64, 4096), lambda n: "v" * n, modes=("D",))
    fam("D-name", (64, 4096), lambda n: "N" * max(n, 1), modes=("Dname",))
    fam("N-command-word", (16, 64), lambda n: "w" * n, modes=("N",))
    fam("N-type-argument", (64, 4096), lambda n: "T" * n, modes=("N",))
    fam("SOURCE_DATE_EPOCH-digits", (10, 20, 64), lambda n: "9" * n, modes=("epoch",))
    return L


# ---------------------------------------------------------------------------------------
def as_bytes(t):
    return t if isinstance(t, bytes) else t.encode("utf-8", "surrogateescape")


def as_text(t):
    return t.decode("latin-1") if isinstance(t, bytes) else t


def as_arg(t):
    """A command-line argument carrying exactly these bytes."""
    return t.decode("utf-8", "surrogateescape") if isinstance(t, bytes) else t


class Job:
    __slots__ = ("jid", "name", "mode", "tool", "text", "extra", "dir", "args", "req", "res", "classes", "unreadable", "nfiles",
                 "role", "expect_err", "files", "env", "kind")


def make_jobs(inputs, modes_for, work):
    """inputs: (name, text, extra).  Feeding modes:
       pf  source file of parse_file          ig  source file of interrogate -oc -od -python-native
       inc #included by a one-line source     N   .N command file next to a valid header
       D   the value of a -D definition used by the source / the whole -D argument"""
    jobs = []
    for idx, (name, text, extra) in enumerate(inputs):
        cls = classes_of(as_text(text))
        for mode in modes_for(idx, name, text):
            j = Job()
            j.jid, j.name, j.mode, j.text, j.extra = len(jobs), name, mode, text, extra
            j.dir = os.path.join(work, "j%06d" % j.jid)
            j.req, j.unreadable, j.nfiles = [], False, 1
            j.env, j.kind = None, None
            j.role, j.expect_err, j.files = {"pf": "command-line", "pfE": "command-line", "ig": "command-line", "inc": "quote-include",
                                             "N": "command-file", "D": "-D definition", "Dname": "-D definition",
                                             "epoch": "environment"}[mode], False, None
            if mode == "pf":
                j.tool, j.args = "parse_file", ["t.h"]
            elif mode == "pfE":           # the token printer (CPPToken::output_code)
                j.tool, j.args = "parse_file", ["-E", "t.h"]
            elif mode == "Dname":         # the text is the macro NAME of -D
                j.tool = "parse_file"
                j.args = ["-D", as_arg(text) + "=1", "-D", as_arg(text) + "(x)=x", "use.h"]
            elif mode == "epoch":         # the text is the value of $SOURCE_DATE_EPOCH (atoi)
                j.tool, j.req = "interrogate", ["oc", "od"]
                j.args = ["-oc", "o.cxx", "-od", "o.in", "-module", "m", "-library", "l", "-python-native", "ok.h"]
                j.env = {"SOURCE_DATE_EPOCH": as_arg(text)}
            elif mode == "ig":
                j.tool, j.req = "interrogate", ["oc", "od"]
                j.args = ["-oc", "o.cxx", "-od", "o.in", "-module", "m", "-library", "l", "-python-native", "t.h"]
            elif mode == "inc":
                j.tool, j.req = "interrogate", ["oc", "od"]
                j.args = ["-oc", "o.cxx", "-od", "o.in", "-module", "m", "-library", "l", "-python-native", "top.h"]
            elif mode == "N":
                j.tool, j.req = "interrogate", ["oc", "od"]
                j.args = ["-oc", "o.cxx", "-od", "o.in", "-module", "m", "-library", "l", "-c", "ok.h"]
            elif mode == "D":
                j.tool = "parse_file"
                j.args = ["-D", "VAL=" + as_arg(text), "-D", as_arg(text), "use.h"]
            j.classes = classes_of(as_text(text), "D") if mode == "D" else cls
            jobs.append(j)
    return jobs


def materialise(j):
    os.makedirs(j.dir, exist_ok=True)
    if j.files is not None:
        for fn, content in j.files.items():
            os.makedirs(os.path.dirname(os.path.join(j.dir, fn)), exist_ok=True)
            open(os.path.join(j.dir, fn), "wb").write(as_bytes(content))
        return
    for fn, content in j.extra.items():
        open(os.path.join(j.dir, fn), "wb").write(as_bytes(content))
    if j.mode in ("pf", "pfE", "ig"):
        open(os.path.join(j.dir, "t.h"), "wb").write(as_bytes(j.text))
    elif j.mode == "epoch":
        open(os.path.join(j.dir, "ok.h"), "w").write(OK_HEADER)
    elif j.mode == "Dname":
        open(os.path.join(j.dir, "use.h"), "w").write("int v;\n")
    elif j.mode == "inc":
        open(os.path.join(j.dir, "t.h"), "wb").write(as_bytes(j.text))
        open(os.path.join(j.dir, "top.h"), "w").write("#include \"t.h\"\n")
    elif j.mode == "N":
        open(os.path.join(j.dir, "ok.h"), "w").write(OK_HEADER)
        body = as_bytes(j.text)
        cmds = b"forcetype " + body + b"\nrenametype " + body + b" New\ndefconstruct " + body + b"\n" + body + b"\n"
        open(os.path.join(j.dir, "ok.N"), "wb").write(cmds)
    elif j.mode == "D":
        open(os.path.join(j.dir, "use.h"), "w").write("int v = VAL;\n#if VAL\n#endif\nclass K { int f(int = VAL); };\n")


OUTFILE = {"oc": "o.cxx", "od": "o.in", "oh": "o.txt"}


def execute(j, kind, scale=1):
    materialise(j)
    kind = j.kind or kind
    tr = os.path.join(j.dir, "trace.ndjson")
    env = {"SOURCE_DATE_EPOCH": "1"}
    env.update(j.env or {})
    if kind == "asan":
        env["ASAN_OPTIONS"] = "detect_leaks=0:abort_on_error=0:exitcode=97"
        env["UBSAN_OPTIONS"] = "print_stacktrace=0:halt_on_error=1:exitcode=98"
    outs = [OUTFILE[c] for c in j.req]
    for o in outs + ["trace.ndjson"]:
        p = os.path.join(j.dir, o)
        if os.path.exists(p):
            os.remove(p)
    limit = TIMEOUT[kind] * (1 if len(j.text) < 100000 else 6) * scale
    r = run.run_tool(j.tool, j.args, cwd=j.dir, trace=tr, timeout=limit, env=env, kind=kind, outputs=outs)
    ev = []
    if os.path.exists(tr):
        for ln in open(tr, errors="replace"):
            ln = ln.strip()
            if ln.startswith('{"e":"') and ln.endswith("}") and ln[6:10] in ("Pars", "Buil", "Open", "Writ", "Exit"):
                ev.append(ln)
    present = [c for c in j.req if os.path.exists(os.path.join(j.dir, OUTFILE[c]))]
    j.res = dict(rc=r.rc, signal=r.signal, timed_out=r.timed_out, wall=round(r.wall, 2), present=present,
                 stderr=r.stderr[-1200:], events=ev,
                 ndiag=len(DIAG.findall(r.stderr)), sanitizer=bool(SANITIZER.search(r.stderr)),
                 nerr=reported_errors(r.stderr),
                 parse_error=(reported_errors(r.stderr) > 0 or "Error in p" in r.stderr or "failed to parse" in r.stderr))
    shutil.rmtree(j.dir, ignore_errors=True)      # everything needed later is in j.res / the job itself
    return j


def verdict(j):
    """The ToolRun protocol on the monitor record of one run.  Returns None or (kind, text)."""
    o = j.res
    if o["timed_out"]:
        return "hang", "no exit within the time limit (run twice, the second time with twice the limit)"
    if o["signal"]:
        return "signal", "died with signal %d" % o["signal"]
    if o["sanitizer"] or o["rc"] in (97, 98):
        return "sanitizer", "sanitizer report"
    if o["rc"] not in (0, 1, 255):
        return "status", "exit status %s is not an ordinary status" % o["rc"]
    if o["parse_error"] and o["rc"] == 0:
        return "error-exit-0", "reported a parse error and exited 0"
    if o["parse_error"] and o["present"]:
        return "output-after-error", "reported a parse error and left %s" % o["present"]
    if o["rc"] != 0 and o["ndiag"] == 0:
        return "no-diagnostic", "exit status %s without any diagnostic" % o["rc"]
    if o["rc"] != 0 and o["present"]:
        return "output-after-failure", "exit status %s but left %s" % (o["rc"], o["present"])
    if j.expect_err and o["rc"] == 0:
        # replay of the spec's Parse("err") outcome: the value the spec state carries is exit 1, no outputs
        return "erroneous-input-accepted", "the %s holds an error (%s) but the run exited 0 without reporting it" % (j.role, j.name)
    return None


def trace_lines(j):
    o = j.res
    head = dict(e="Run", tool=j.tool, req=j.req, nfiles=j.nfiles, io=0, unreadable=int(j.unreadable), role=j.role,
                expect_err=int(j.expect_err))
    obs = dict(e="Observed", rc=(o["rc"] if (o["rc"] is not None and o["rc"] >= 0) else 255), signal=o["signal"],
               timeout=int(o["timed_out"]), present=o["present"], ndiag=o["ndiag"], nerr=o["nerr"], loaderr=0)
    return [json.dumps(head)] + o["events"] + [json.dumps(obs)]


# ---------------------------------------------------------------------------------------
# File roles: the erroneous text in every place a file can come from.
ERR_TEXT = {
    "syntax-error": "struct Before { int a; };\nint broken = = 3;\nstruct After { int z; };\n",
    "#error": "#ifndef NEVER_CONFIGURED\n#error configuration missing\n#endif\nstruct AfterError { int z; };\n",
    "open-struct-at-eof": "struct Open {\n  int a;\n",
    "open-expression-at-eof": "int x = (1 +",
}
FINE = "struct Fine%d {\n__published:\n  int v;\n};\n"


def role_cases():
    """(role, files(E), argv-tail) — E is the erroneous text; paths are relative to the run directory,
    which is the working directory of the tool."""
    R = []

    def add(role, files, opts, srcs):
        R.append((role, files, opts, srcs))
    inc = lambda what: "%s\n" % what + FINE % 1
    add("command-line file (only)", lambda E: {"src/main.h": E}, [], ["src/main.h"])
    add("command-line file (first of two)", lambda E: {"src/main.h": E, "src/second.h": FINE % 2}, [], ["src/main.h", "src/second.h"])
    add("command-line file (second of two)", lambda E: {"src/main.h": FINE % 1, "src/second.h": E}, [], ["src/main.h", "src/second.h"])
    add("quote-included from the working directory", lambda E: {"src/main.h": inc('#include "e.h"'), "e.h": E}, [], ["src/main.h"])
    add("quote-included from the includer's directory", lambda E: {"src/main.h": inc('#include "e.h"'), "src/e.h": E}, [], ["src/main.h"])
    add("quote-included via -I", lambda E: {"src/main.h": inc('#include "e.h"'), "inc/e.h": E}, ["-I", "inc"], ["src/main.h"])
    add("quote-included via -S", lambda E: {"src/main.h": inc('#include "e.h"'), "sys/e.h": E}, ["-S", "sys"], ["src/main.h"])
    add("angle-included via -S", lambda E: {"src/main.h": inc("#include <e.h>"), "sys/e.h": E}, ["-S", "sys"], ["src/main.h"])
    add("angle-included via the second -S directory", lambda E: {"src/main.h": inc("#include <e.h>"), "sysb/e.h": E, "sysa/other.h": FINE % 3},
        ["-S", "sysa", "-S", "sysb"], ["src/main.h"])
    add("angle-included via -S, attached option (-Sdir)", lambda E: {"src/main.h": inc("#include <e.h>"), "sys/e.h": E}, ["-Ssys"], ["src/main.h"])
    add("nested two levels, quote / quote", lambda E: {"src/main.h": inc('#include "mid.h"'), "src/mid.h": '#include "e.h"\n' + FINE % 4, "src/e.h": E},
        [], ["src/main.h"])
    add("nested two levels, angle / angle", lambda E: {"src/main.h": inc("#include <mid.h>"), "sys/mid.h": "#include <e.h>\n" + FINE % 4, "sys/e.h": E},
        ["-S", "sys"], ["src/main.h"])
    add("nested two levels, quote / angle", lambda E: {"src/main.h": inc('#include "mid.h"'), "src/mid.h": "#include <e.h>\n" + FINE % 4, "sys/e.h": E},
        ["-S", "sys"], ["src/main.h"])
    add("nested two levels, angle / quote (system includer's directory)",
        lambda E: {"src/main.h": inc("#include <mid.h>"), "sys/mid.h": '#include "e.h"\n' + FINE % 4, "sys/e.h": E}, ["-S", "sys"], ["src/main.h"])
    add("nested two levels, -I / -S", lambda E: {"src/main.h": inc('#include "mid.h"'), "inc/mid.h": "#include <e.h>\n" + FINE % 4, "sys/e.h": E},
        ["-I", "inc", "-S", "sys"], ["src/main.h"])
    add("main file after a fine system header", lambda E: {"src/main.h": "#include <ok.h>\n" + E, "sys/ok.h": FINE % 5}, ["-S", "sys"], ["src/main.h"])
    add("system header, second command-line file fine", lambda E: {"src/main.h": inc("#include <e.h>"), "src/second.h": FINE % 2, "sys/e.h": E},
        ["-S", "sys"], ["src/main.h", "src/second.h"])
    add("system header included by the second command-line file", lambda E: {"src/main.h": FINE % 1, "src/second.h": "#include <e.h>\n" + FINE % 2, "sys/e.h": E},
        ["-S", "sys"], ["src/main.h", "src/second.h"])
    add("system header also named on the command line", lambda E: {"src/main.h": inc("#include <e.h>"), "sys/e.h": E}, ["-S", "sys"], ["src/main.h", "sys/e.h"])
    add("system header included twice", lambda E: {"src/main.h": "#include <e.h>\n#include <e.h>\n" + FINE % 1, "sys/e.h": E}, ["-S", "sys"], ["src/main.h"])
    return R


def role_jobs(work):
    jobs = []
    for role, files, opts, srcs in role_cases():
        for kind, E in sorted(ERR_TEXT.items()) + [("no-error", "struct Fine9;\nint fine9_fn(int);\n")]:
            for tool in ("interrogate", "interrogate-c", "parse_file"):
                if kind == "no-error" and tool == "interrogate-c":
                    continue
                j = Job()
                j.name, j.mode, j.text, j.extra = "%s / %s" % (kind, role), "role", E, {}
                j.files = files(E)
                j.tool = "parse_file" if tool == "parse_file" else "interrogate"
                j.req = [] if tool == "parse_file" else ["oc", "od", "oh"]
                out = [] if tool == "parse_file" else ["-oc", "o.cxx", "-od", "o.in", "-oh", "o.txt", "-module", "m", "-library", "l",
                                                       "-c" if tool == "interrogate-c" else "-python-native"]
                j.args = out + opts + srcs
                j.unreadable, j.nfiles = False, len(srcs)
                j.role, j.expect_err, j.classes = role, kind != "no-error", []
                j.env, j.kind = None, None
                j.dir = os.path.join(work, "role%04d" % len(jobs))
                jobs.append(j)
    return jobs


# ---------------------------------------------------------------------------------------
# ExprEdge: operator x operand-class expressions in every context that evaluates.  Cases cannot
# interfere (each has its own names), so a context is replayed in batches; a batch that dies is
# bisected down to the single expressions.
OPERAND = {"i0": "0", "i1": "1", "im1": "(-1)", "intmin": "(-2147483647-1)", "intmax": "2147483647",
           "llmin": "(-9223372036854775807-1)", "r0": "0.0", "r05": "0.5", "rm09": "(-0.9)", "r1e308": "1e308",
           "rdenorm": "1e-320", "nan": "(0.0/0.0)", "true": "true", "false": "false", "chr": "'a'", "chr0": "'\\0'",
           "nullptr": "nullptr", "str": "\"s\"", "undef": "UNDEF_NAME", "sizeof": "sizeof(int)"}
OPSPELL = {"mul": "*", "div": "/", "mod": "%", "add": "+", "sub": "-", "or": "|", "xor": "^", "and": "&", "oror": "||",
           "andand": "&&", "eq": "==", "ne": "!=", "le": "<=", "ge": ">=", "cmp3": "<=>", "lt": "<", "gt": ">", "shl": "<<",
           "shr": ">>", "comma": ",", "not": "!", "compl": "~", "neg": "-", "pos": "+"}
EXPR_CONTEXTS = ["if", "elif", "static_assert", "array", "enum", "tmplarg", "defarg", "D", "macro-if", "define"]
EXPR_BATCH = 250
UB_HAZARDS = ("overflow", "shift-count-out-of-range", "quotient-overflow")


def expr_text(rec):
    l = OPERAND[rec["l"]]
    if rec["op"] in ("not", "compl", "neg", "pos"):
        return "%s %s" % (OPSPELL[rec["op"]], l)
    r = OPERAND[rec["r"]]
    if rec["op"] == "cond":
        return "%s ? 2 : %s" % (l, r)
    if rec["op"] == "comma":
        return "(%s , %s)" % (l, r)
    return "%s %s %s" % (l, OPSPELL[rec["op"]], r)


def expr_case(context, k, e):
    """(source text, extra argv) of case number k."""
    if context == "if":
        return "#if %s\nint c%d;\n#endif\n" % (e, k), []
    if context == "elif":
        return "#if 0\n#elif %s\nint c%d;\n#endif\n" % (e, k), []
    if context == "static_assert":
        return "static_assert(%s, \"m\");\n" % e, []
    if context == "array":
        return "struct SA%d {\n__published:\n  int m[%s];\n};\nextern int ga%d[%s];\n" % (k, e, k, e), []
    if context == "enum":
        return "struct SE%d {\n__published:\n  enum En { V = %s, W };\n};\n" % (k, e), []
    if context == "tmplarg":
        return "TA<(%s)> ta%d;\n" % (e, k), []
    if context == "defarg":
        return "struct SD%d {\n__published:\n  int f(int a = %s);\n};\n" % (k, e), []
    if context == "D":
        return "#if V%d\nint c%d;\n#endif\nint d%d = V%d;\n" % (k, k, k, k), ["-D", "V%d=%s" % (k, e)]
    if context == "macro-if":
        return "#define MI%d (%s)\n#if MI%d\nint c%d;\n#endif\n" % (k, e, k, k), []
    if context == "define":
        return "#define MD%d (%s)\n" % (k, e), []
    raise ValueError(context)


def expr_job(context, cases, tool, work, tag, kind=None):
    """One tool run over `cases` = [(k, rec)]."""
    parts, argv = (["template<long long N> struct TA {};\n"] if context == "tmplarg" else []), []
    for k, rec in cases:
        t, a = expr_case(context, k, expr_text(rec))
        parts.append(t)
        argv += a
    j = Job()
    j.name = "expr:%s:%s" % (context, (expr_text(cases[0][1]) if len(cases) == 1 else "%d expressions, hazard %s" % (len(cases), cases[0][1]["hz"])))
    j.mode, j.text, j.extra, j.files = "expr", "".join(parts), {}, {"t.h": "".join(parts)}
    j.tool = "parse_file" if tool == "pf" else "interrogate"
    j.req = [] if tool == "pf" else ["oc", "od"]
    j.args = ([] if tool == "pf" else ["-oc", "o.cxx", "-od", "o.in", "-module", "m", "-library", "l", "-python-native"]) + argv + ["t.h"]
    j.unreadable, j.nfiles, j.role, j.expect_err, j.env, j.kind = False, 1, "command-line", False, None, kind
    hz = {rec["hz"] for k, rec in cases}
    j.classes = ["C15-const-arith-ub"] if hz <= set(UB_HAZARDS) else []
    j.dir = os.path.join(work, "x%s" % tag)
    j.jid = -1
    return j


def expr_bisect(context, cases, tool, work, tag, kind, default_kind, found, budget):
    """Run the batch; when it dies (signal / hang / sanitizer) split it until single expressions remain.
    Returns the jobs that were run; `found` collects (job, verdict) of the smallest failing batches."""
    j = execute(expr_job(context, cases, tool, work, tag, kind), default_kind)
    out = [j]
    v = verdict(j)
    if v is None:
        return out
    if v[0] not in ("signal", "hang", "sanitizer") or len(cases) == 1 or budget[0] <= 0:
        found.append((j, v, cases))
        return out
    budget[0] -= 1
    half = len(cases) // 2
    out += expr_bisect(context, cases[:half], tool, work, tag + "a", kind, default_kind, found, budget)
    out += expr_bisect(context, cases[half:], tool, work, tag + "b", kind, default_kind, found, budget)
    return out


# ---------------------------------------------------------------------------------------
def lex_coverage(recs):
    modes, trans, eof = set(), set(), set()
    for r in recs:
        p, i = r["p"], r["i"]
        for n, c in enumerate(i):
            trans.add((p[n], c))
        modes.update(p)
        eof.add(p[-1])
    return modes, trans, eof


def run_check(ctx):
    kind = "asan" if ctx.tier == "thorough" else "hooked"
    BUILD_KIND[0] = kind
    build.ensure("hooked")
    build.ensure("asan")          # quick tier: the length family is also run under the sanitizer build
    tier, work = ctx.tier, ctx.tmp
    phase, t0 = {}, time.time()
    # the fd limit bounds the depth of a self-including file (there is no include-depth limit in the code)
    soft, hard = resource.getrlimit(resource.RLIMIT_NOFILE)
    resource.setrlimit(resource.RLIMIT_NOFILE, (min(1024, hard), hard))
    try:
        _run(ctx, tier, kind, work, phase, t0)
    finally:
        resource.setrlimit(resource.RLIMIT_NOFILE, (soft, hard))


def _run(ctx, tier, kind, work, phase, t0):
    # ---- 1. TLC: run protocol and input-space model ---------------------------------------
    res = tlc.run("ToolRunMC", "ToolRun_c15", coverage=True, timeout=600)
    ctx.add_tlc(res)
    tlc.must_ok(res, "ToolRun (protocol)")
    dump = os.path.join(work, "lex.ndjson")
    # one worker: BFS order, hence the representative kept per VIEW value, is then deterministic
    lex = tlc.run("LexModesMC", LEX_CFG[tier], env={"VERIF_DUMP": dump}, timeout=2400, workers=1)
    ctx.add_tlc(lex)
    tlc.must_ok(lex, "LexModes")
    recs = tlc.read_dump(dump)
    if not recs:
        raise MachineryError("LexModes dumped no inputs")
    modes, trans, eof = lex_coverage(recs)
    syms = sorted(SYM)
    maxlen = max(len(r["i"]) for r in recs)
    frontier = {r["p"][-1] for r in recs if len(r["i"]) == maxlen} - {m for r in recs if len(r["i"]) < maxlen for m in r["p"]}
    missing = [(m, c) for m in sorted(modes - frontier) for c in syms if (m, c) not in trans]
    if missing:
        raise MachineryError("LexModes: %d (mode, symbol) transitions are on no dumped path, e.g. %s" % (len(missing), missing[:8]))
    if modes - eof:
        raise MachineryError("LexModes: no input ends in mode(s) %s" % sorted(modes - eof))
    ctx.notes["lexmodes"] = dict(inputs=len(recs), modes=len(modes), symbols=len(syms), transitions_on_dumped_paths=len(trans),
                                 eof_modes=len(eof), max_len=maxlen, modes_first_reached_at_max_len=sorted(frontier))
    # the second lexer: the text of #if / #elif / computed #include / object-like #define
    idump = os.path.join(work, "iflex.ndjson")
    ifl = tlc.run("LexModesIfMC", IF_CFG[tier], env={"VERIF_DUMP": idump}, timeout=1200, workers=1)
    ctx.add_tlc(ifl)
    tlc.must_ok(ifl, "LexModesIf")
    irecs = tlc.read_dump(idump)
    if not irecs:
        raise MachineryError("LexModesIf dumped no inputs")
    imodes, itrans, ieof = lex_coverage(irecs)
    imax = max(len(r["i"]) for r in irecs)
    ifront = {r["p"][-1] for r in irecs if len(r["i"]) == imax} - {m for r in irecs if len(r["i"]) < imax for m in r["p"]}
    imissing = [(m, c) for m in sorted(imodes - ifront) for c in sorted(SYMIF) if (m, c) not in itrans]
    if imissing or imodes - ieof:
        raise MachineryError("LexModesIf: transitions on no dumped path %s, modes no input ends in %s" % (imissing[:8], sorted(imodes - ieof)))
    ctx.notes["lexmodes_if"] = dict(inputs=len(irecs), modes=len(imodes), symbols=len(SYMIF), transitions_on_dumped_paths=len(itrans),
                                    eof_modes=len(ieof), max_len=imax, modes_first_reached_at_max_len=sorted(ifront))
    # operator x operand-class expressions of the constant evaluator
    edump = os.path.join(work, "expredge.ndjson")
    ee = tlc.run("ExprEdgeMC", "ExprEdge", env={"VERIF_DUMP": edump}, timeout=600, workers=1)
    ctx.add_tlc(ee)
    tlc.must_ok(ee, "ExprEdge")
    erecs = tlc.read_dump(edump)
    if len(erecs) < 1000:
        raise MachineryError("ExprEdge dumped %d expressions" % len(erecs))
    phase["tlc"] = round(time.time() - t0, 1)

    # ---- 2. inputs --------------------------------------------------------------------------
    lex_inputs = []
    stride = max(1, int(os.environ.get("VERIF_C15_STRIDE", "1")))     # development aid only (smoke tests)
    for r in recs[::stride]:
        if r["mac"] != "none" and "a" not in r["i"]:
            continue            # the prelude only matters to inputs that mention `a`
        text = PRELUDE[r["mac"]] + "".join(SYM[c] for c in r["i"])
        lex_inputs.append(("lex:%s:%s" % (r["mac"], " ".join(r["i"])), text, {}))
    edges = edge_inputs(tier)
    if_inputs = []
    for n, r in enumerate(irecs):
        text = "".join(SYMIF[c] for c in r["i"])
        ctxs = ["if"]
        if tier == "thorough":
            ctxs = ["if", "define"] + [["elif"], ["include"], ["if-eof"]][n % 3]
        else:
            ctxs += [[], ["elif"], [], ["include"], [], ["define"], [], ["if-eof"]][n % 8]
        for c in ctxs:
            if_inputs.append(("iflex:%s:%s" % (c, " ".join(r["i"])), IF_PRELUDE + IF_CONTEXTS[c] % text, {}))

    def if_modes(idx, name, text):
        return ["pf"] + (["ig"] if idx % 4 == 0 else []) + (["inc"] if idx % 16 == 1 else [])

    def lex_modes(idx, name, text):
        if tier == "thorough":
            return ["pf"] + (["ig"] if idx % 8 == 0 else []) + (["inc"] if idx % 32 == 1 else []) + \
                (["N"] if idx % 32 == 2 else []) + (["D"] if idx % 32 == 3 else [])
        m = ["pf"]
        if idx % 4 == 0:
            m.append("ig")
        if idx % 12 == 1:
            m.append("inc")
        if idx % 12 == 5:
            m.append("N")
        if idx % 12 == 7:
            m.append("D")
        return m

    def edge_modes(idx, name, text):
        big = len(text) > 20000
        m = ["pf", "ig"]
        if not big or name.startswith("deep-"):
            m.append("inc")
        if not big:
            m.append("N")
            if "\x00" not in as_text(text):
                m.append("D")
        return m
    jobs = make_jobs(lex_inputs, lex_modes, work) + make_jobs(edges, edge_modes, os.path.join(work, "e")) + \
        make_jobs(if_inputs, if_modes, os.path.join(work, "i"))
    for n, j in enumerate(jobs):
        j.jid = n
        j.dir = os.path.join(work, "j%06d" % n)
    roles = role_jobs(work)
    for j in roles:
        j.jid = len(jobs)
        jobs.append(j)
    # the length family; in the quick tier its source-file runs are repeated under the sanitizer
    # build (a one-byte overrun need not crash the plain build)
    lens = length_inputs()
    lmodes = {name: modes for name, text, modes in lens}
    ljobs = make_jobs([(n, t, {}) for n, t, m in lens], lambda idx, name, text: lmodes[name], os.path.join(work, "l"))
    if kind != "asan":
        extra = make_jobs([(n, t, {}) for n, t, m in lens],
                          lambda idx, name, text: [m for m in lmodes[name] if m in ("pf", "pfE", "D", "Dname", "N")], os.path.join(work, "la"))
        for j in extra:
            j.kind = "asan"
            j.name += " [asan]"
            j.classes = classes_of(as_text(j.text), j.mode, "asan")
        ljobs += extra
    for j in ljobs:
        j.jid = len(jobs)
        j.dir = os.path.join(work, "j%06d" % j.jid)
        jobs.append(j)
    ctx.notes["inputs"] = dict(expredge_expressions=len(erecs), expredge_cases=len(erecs) * len(EXPR_CONTEXTS), length_inputs=len(lens), length_runs=len(ljobs), iflex_texts=len(irecs), iflex_inputs=len(if_inputs), role_runs=len(roles),
                               lexmodes_dumped=len(recs), lexmodes=len(lex_inputs), edge_cases=len(edges), runs=len(jobs))
    ctx.cov["rule"] = (
        "inputs = every LexModes state TLC keeps (one per VIEW value = mode path) rendered under its prelude + the fixed "
        "list of directive / constant-expression / literal / nesting / byte-level edge cases; each is fed as source to "
        "parse_file, and (stratified by index, all of them for the edge cases) as source / included file / .N command file "
        "/ -D definition to interrogate and parse_file; + every LexModesIf text in #if (and stratified #elif / computed #include / "
        "#define / #if-at-EOF) context; + the file-role cases (erroneous text x role of the file x tool); non-trivial = the input leaves the scanner's plain code mode or is "
        "an edge case; distinct = distinct (input bytes, feeding mode)")

    # ExprEdge batches: per (context, hazard group) so that the expressions with arithmetic the
    # sanitizer objects to (a known class) never share a run with the others
    eplan = []
    ordered = sorted(enumerate(erecs), key=lambda kr: (kr[1]["hz"] in UB_HAZARDS, kr[1]["hz"], kr[0]))
    groups = [[kr for kr in ordered if kr[1]["hz"] not in UB_HAZARDS], [kr for kr in ordered if kr[1]["hz"] in UB_HAZARDS]]
    for context in EXPR_CONTEXTS:
        for g in groups:
            for b in range(0, len(g), EXPR_BATCH):
                cases = g[b:b + EXPR_BATCH]
                for tool in ("pf", "ig"):
                    eplan.append((context, cases, tool, None))
                if kind != "asan" and (b // EXPR_BATCH) % 2 == 0:
                    eplan.append((context, cases, "pf", "asan"))      # sanitizer sample in the quick tier
    efound = []

    def erun(item):
        n, (context, cases, tool, k) = item
        return expr_bisect(context, cases, tool, work, "%04d" % n, k, kind, efound, [24])

    # ---- 3. runs -----------------------------------------------------------------------------
    t1 = time.time()
    ejobs = [j for js in run.pmap(erun, list(enumerate(eplan))) for j in js]
    phase["expredge"] = round(time.time() - t1, 1)
    # long-running edge cases first so that they overlap with the mass of tiny ones
    order = sorted(jobs, key=lambda j: (not j.classes, -len(j.text)))
    run.pmap(lambda j: execute(j, kind), order)
    # a timeout is re-run once, with twice the limit and a quarter of the parallelism (so that the
    # load this check itself produces cannot make a slow run look like a hang), before it counts
    late = [j for j in jobs if j.res["timed_out"]]
    first = late[:32]
    run.pmap(lambda j: execute(j, kind, scale=2), first, workers=max(2, NCPU // 4))
    if len(late) > len(first) and not all(j.res["timed_out"] for j in first):
        run.pmap(lambda j: execute(j, kind, scale=2), late[len(first):], workers=max(2, NCPU // 4))
    # (when the first 32 time out again the hang is systematic: the rest keep their first verdict)
    ctx.notes["timeouts_first_pass"] = len(late)
    phase["runs"] = round(time.time() - t1, 1)
    # ExprEdge: only the smallest failing batches are judged as cases; every run is a monitor record
    reported = {id(j) for j, v, cases in efound}
    for j in ejobs:
        j.jid = len(jobs)
        if id(j) not in reported and verdict(j) is not None:
            j.res = dict(j.res, superseded=True)
        jobs.append(j)
    ctx.notes["expredge"] = dict(expressions=len(erecs), contexts=EXPR_CONTEXTS, batch=EXPR_BATCH, runs=len(ejobs),
                                 by_hazard={h: sum(1 for r in erecs if r["hz"] == h) for h in sorted({r["hz"] for r in erecs})},
                                 failing_smallest_batches=len(efound))
    bad, good = [], []
    kinds = {}
    for j in jobs:
        v = verdict(j)
        if v is None:
            good.append(j)
            continue
        if j.res.get("superseded"):
            continue            # a batch that was split: its halves are judged instead
        bad.append((j, v))
        kinds[v[0]] = kinds.get(v[0], 0) + 1
        ctx.violation("%s as %s: %s [%s]" % (j.name[:80], j.mode, v[1], j.res["stderr"].strip().split("\n")[-1][:120]),
                      dict(name=j.name, mode=j.mode, tool=j.tool, role=j.role, argv=[a[:300] for a in j.args], input=as_text(j.text)[:2000],
                           input_len=len(j.text), files=(j.files if j.files is not None else sorted(j.extra)), observed={k: j.res[k] for k in ("rc", "signal", "timed_out", "present", "wall")},
                           stderr=j.res["stderr"], build=j.kind or kind),
                      classes=j.classes)
    silent = [j for j in roles if not j.expect_err and (j.res["rc"] != 0 or j.res["nerr"])]
    if silent:
        j = silent[0]
        raise MachineryError("role layout '%s' fails without the erroneous text: rc=%s %s" % (j.name, j.res["rc"], j.res["stderr"][-300:]))
    ctx.notes["role_cases"] = dict(roles=len(role_cases()), error_kinds=sorted(ERR_TEXT), runs=len(roles),
                                   reported_error_and_failed=sum(1 for j in roles if j.expect_err and j.res["nerr"] and j.res["rc"] not in (0, None)))
    ctx.cov["evaluations"] += len(jobs)
    ctx.cov["distinct_nontrivial"] = len({(as_bytes(j.text), j.mode, j.name if j.mode == "role" else "", j.tool) for j in jobs
                                         if not j.name.startswith("lex:") or set(j.name.split(":", 2)[2].split()) - {"a", "0", "sp", "R"}})
    ctx.cov["traces_validated_against_impl"] += len(jobs)
    ctx.notes["runs_violating_protocol"] = len(bad)
    ctx.notes["violation_kinds"] = kinds
    ctx.notes["slowest_runs"] = [dict(name=j.name[:60], mode=j.mode, wall=j.res["wall"]) for j in sorted(jobs, key=lambda j: -j.res["wall"])[:5]]
    for j in [jobs[0], jobs[len(jobs) // 3], jobs[len(jobs) // 2], jobs[-1], jobs[-400 % len(jobs)]]:
        ctx.sample(dict(input=as_text(j.text)[:120], fed_as=j.mode, tool=j.tool, exit=j.res["rc"], signal=j.res["signal"],
                        outputs_left=j.res["present"], hook_events=len(j.res["events"])))

    # ---- 4. trace validation: every run against ToolRunTrace -----------------------------------
    t2 = time.time()
    from .c19 import validate
    traces = [(j.jid, trace_lines(j), dict(command="%s %s" % (j.tool, j.mode), name=j.name, input=as_text(j.text)[:500])) for j in good]
    nev = validate(ctx, traces, work)
    # the runs the projection flagged must violate an invariant of the spec too (same judgement
    # from both sides); a handful is enough, each is its own TLC run
    agree = 0
    for j, v in bad[:8]:
        p = os.path.join(work, "bad-%d.ndjson" % j.jid)
        open(p, "w").write("\n".join(trace_lines(j)) + "\n")
        status, r = tlc.validate_trace("ToolRunTrace", p)
        if status == "accepted" and v[0] in ("signal", "hang", "error-exit-0", "output-after-error"):
            raise MachineryError("ToolRunTrace accepts a run the monitor projection judged %s: %s" % (v[0], p))
        agree += status != "accepted"
    ctx.notes["flagged_runs_also_rejected_by_spec"] = "%d of %d checked" % (agree, min(8, len(bad)))
    phase["trace_validation"] = round(time.time() - t2, 1)
    ctx.notes["trace_events_validated"] = nev
    ctx.notes["phase_seconds"] = phase
    ctx.notes["build"] = kind
    ctx.notes["not_done"] = "no random byte-level mutation fuzzing (not a model-based technique); bounded enumeration over the mode model instead"
    ctx.assumptions += [
        "time limit per run: %d s (%d s for inputs above 100 kB) on this machine; a timeout is re-run once with twice the limit" % (TIMEOUT[kind], 6 * TIMEOUT[kind]),
        "RLIMIT_NOFILE is lowered to 1024 for the runs: a self-including file recurses until open() fails",
        "known-finding classes are predicates over the input text (vf/checks/c15.py CLASSES)",
    ]
