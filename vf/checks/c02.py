"""C02 — Python-native bindings dispatch, convert and own objects as C++ would.

specs  PyDispatch.tla (+ PyDispatchMC: enumeration, + PyDispatchEval: evaluation of chosen sets)
       PyObjects.tla  (+ PyObjectsMC), PyObjectsH.tla (+ PyObjectsHMC)

dispatch  TLC enumerates overload sets step by step (parameter-category tuples over arithmetic types,
          strings and the class chain A <- B <- D, trailing defaults, const methods, methods / static
          functions, parameters named alike or differently per overload) and checks on EVERY call
          tuple of every set -- positional, and with arguments passed by keyword (right name, a
          sibling overload's name, a duplicate of a positional, an unknown name) -- that
          the transcribed mechanism (map_sets, collapse_default_remaps, count switch,
          RemapCompareLess order with every admissible tie-break, three-phase parameter extraction,
          error clearing) gives the reference result (C++ overload resolution on the corresponding
          C++ argument types; OverflowError / TypeError rules) outside the listed deviation classes.
          A fixed stratified selection of the sets (+ ANCHORS) is evaluated again by TLC, which dumps
          every call with its reference result, C++ argument types, deviation classes and the
          mechanism model's result.  The renderer writes one class library per batch (instrumented
          bodies log the overload and the received values), vf/pymod builds the extension module
          (interrogate -python-native -> interrogate_module -> g++), harness/c02_driver.py performs
          the calls in a child interpreter and reports: overload log, return value, exception type,
          reference-count deltas of the arguments, live-instance counters, ownership bits.
          Sets alternate between two families of class names (base < mid < leaf and leaf < mid <
          base alphabetically; the second declares its overloads in reverse order).
          The same calls are compiled natively (SFINAE "callable?" + run) to validate CppSelect:
          spec != g++ => MachineryError.
objects   TLC enumerates call histories over a class Node (construct, return by value / borrowed /
          const ref / this / static, pass to C++, non-const call, drop); after every step the driver
          reports this_ownership / this_const / identity of every wrapper and the construction /
          destruction counters, compared with the state carried by the spec.  thorough: deeper
          histories by simulation, and everything again with the extension built with ASan.
coercion  PyDispatch models classes with converting constructors carrying an `explicit` flag
          (M: explicit M(int), M(double); T: explicit T(int), T(string); E: explicit E(int);
          W: W(int), W(double)) taken by const reference, by value and by pointer: C++ uses only a
          NON-explicit constructor (one user-defined conversion, ranked below every standard
          conversion), never for a pointer; the mechanism is the generated Dtool_Coerce_K plus the
          second, coercing pass of write_function_forset.  Instances remember which constructor
          made them, so the replay sees the constructor used and its value; live counters cover the
          temporaries.
unbuilt   PyObjects (cfg PyObjects_empty) has wrappers WITHOUT a C++ object (Cls.__new__(Cls), a
          Python subclass whose __init__ does not chain up), __init__ on them and __init__ run again
          on a constructed wrapper (the object owned before must be destroyed).  After every step
          every such wrapper is probed with every kind of use (const / non-const methods, static
          through the instance, property get / set, operators, len / item, sequence and mapping
          properties, MAKE_SEQ, bound method, copy, passing it as an argument): TypeError, no crash,
          counters unchanged.
helpers   PyObjectsH adds the helper objects the runtime creates on the fly (sequence / mapping
          property wrappers with and without setter, key views, bound methods, iterators over them)
          and the references they hold: reference accounting, owner destroyed exactly when the last
          of {user reference, helpers} is gone.  Replay: after every step the reference count of
          every owner (relative to its creation), the counters, and read-only probes (len, items,
          in / index / count, keys / values / items, read-only assignment) on every usable helper
          with the counter and reference-count deltas each probe causes; includes "keep the helper,
          drop the owner, use the helper".
names     classNameFromCppName / methodNameFromCppName / checkKeyword / methodRenameDictionary are
          transcribed below; a library laid out over an identifier grammar is built and dir() of the
          module / classes / nested classes must be exactly the transcribed names; properties,
          MAKE_SEQ, enums, constants, operators and keyword arguments are evaluated.
findings  every disagreement is keyed by the deviation classes the SPEC assigns to the input (and, for
          dispatch, by the spec's mechanism model disagreeing with the reference on that input): a
          predicate over the input only.  finding_class_failed_of_members reports their precision."""
import json, os, subprocess, sys, time
from ..common import MachineryError, VERIF, HARNESS, NCPU
from .. import build, tlc, run, pymod

DRIVER = os.path.join(HARNESS, "c02_driver.py")
INTV = [None, -2**63 - 1, -2**63, -2**31 - 1, -2**31, -32769, -32768, -129, -128, -1, 0, 1, 127, 128, 255, 256,
        32767, 32768, 65535, 65536, 2**31 - 1, 2**31, 2**32 - 1, 2**32, 2**63 - 1, 2**63, 2**64 - 1, 2**64]
STR = "aéz"
CTYPE = {"i8": "signed char", "u8": "unsigned char", "i16": "short", "u16": "unsigned short", "i32": "int",
         "u32": "unsigned int", "il": "long", "ul": "unsigned long", "i64": "long long", "u64": "unsigned long long",
         "f32": "float", "f64": "double", "bool": "bool", "str": "const std::string &",
         "rA": "A &", "cA": "const A &", "rB": "B &", "cB": "const B &", "rD": "D &", "cD": "const D &",
         "cM": "const M &", "vM": "M", "pM": "M *", "cT": "const T &", "cE": "const E &", "cW": "const W &"}
COCATS = {"cM": "M", "vM": "M", "pM": "M", "cT": "T", "cE": "E", "cW": "W"}
# two families of the class chain base <- mid <- leaf (+ one unrelated class): in family 0 the names
# sort base < mid < leaf, in family 1 leaf < mid < base; sets alternate between them, and family 1
# declares its overloads in reverse order (ties of the sort order must not decide anything)
FAMILY = [dict(A="A", B="B", D="D", C="C"), dict(A="Zed", B="Mid", D="Alf", C="Cee")]
INSTCATS = ("rA", "cA", "rB", "cB", "rD", "cD")


def ctype(c, fam):
    t = CTYPE[c]
    if c in INSTCATS:
        return t.replace(c[1], FAMILY[fam][c[1]])
    return t


def param_name(nm, j, i):
    """parameter i (0-based) of overload j (1-based) under the naming mode of the set (PyDispatch NameOf)"""
    return ("xy" if nm == "alt" and j % 2 == 0 else "ab")[i]
INTCATS = ("i8", "u8", "i16", "u16", "i32", "u32", "il", "ul", "i64", "u64")
DEFAULT = {"f32": "1.5f", "f64": "1.5", "bool": "true", "str": '"dflt"', "rA": "g_%(A)s", "cA": "%(A)s::cref()",
           "rB": "g_%(B)s", "cB": "%(B)s::cref()", "rD": "g_%(D)s", "cD": "%(D)s::cref()",
           "cM": "g_M", "vM": "g_M", "pM": "&g_M", "cT": "g_T", "cE": "g_E", "cW": "g_W"}
DEFLOG = {"f32": "1.5", "f64": "1.5", "bool": "T", "str": "dflt", "rA": "A#{A_gref}", "cA": "A#{A_cref}",
          "rB": "B#{B_gref}", "cB": "B#{B_cref}", "rD": "D#{D_gref}", "cD": "D#{D_cref}",
          "cM": "M[n:0:]", "vM": "M[n:0:]", "pM": "M[n:0:]", "cT": "T[n:0:]", "cE": "E[n:0:]", "cW": "W[n:0:]"}
CLASSES = ["A", "B", "D", "C"]          # Probe::live(k + 4 * family) index

PROBE_H = r'''
#include <string>
class Probe {
PUBLISHED:
  static std::string take_log();
  static int live(int k);
public:
  static void log(const std::string &s);
  static int counts[16];
};
'''
FAMILY_H = r'''
class %(A)s {
PUBLISHED:
  %(A)s(); %(A)s(const %(A)s &o); virtual ~%(A)s();
  int get_id() const;
  static const %(A)s &cref();
  static %(A)s &gref();
public:
  int _id;
};
class %(B)s : public %(A)s {
PUBLISHED:
  %(B)s(); %(B)s(const %(B)s &o); virtual ~%(B)s();
  static const %(B)s &cref();
  static %(B)s &gref();
};
class %(D)s : public %(B)s {
PUBLISHED:
  %(D)s(); %(D)s(const %(D)s &o); virtual ~%(D)s();
  static const %(D)s &cref();
  static %(D)s &gref();
};
class %(C)s {
PUBLISHED:
  %(C)s(); %(C)s(const %(C)s &o); ~%(C)s();
  int get_id() const;
public:
  int _id;
};
extern %(A)s g_%(A)s;
extern %(B)s g_%(B)s;
extern %(D)s g_%(D)s;
'''
PROBE_CXX = r'''
#include <vector>
#include <cstdio>
#include <type_traits>
static std::string the_log;
int Probe::counts[16] = {0};
static int next_id = 1;
void Probe::log(const std::string &s) { the_log += s; the_log += ";"; }
std::string Probe::take_log() { std::string r = the_log; the_log.clear(); return r; }
int Probe::live(int k) { return counts[k]; }
static std::string to_s(bool v) { return v ? "T" : "F"; }
static std::string to_s(double v) { char b[64]; snprintf(b, sizeof b, "%.17g", v); return b; }
static std::string to_s(float v) { return to_s((double)v); }
static std::string to_s(const std::string &v) { return v; }
template<class T, class = typename std::enable_if<std::is_integral<T>::value>::type>
static std::string to_s(T v) {
  if (std::is_signed<T>::value) return std::to_string((long long)v);
  return std::to_string((unsigned long long)v);
}
'''
FAMILY_CXX = r'''
%(A)s g_%(A)s;
%(B)s g_%(B)s;
%(D)s g_%(D)s;
%(A)s::%(A)s() : _id(next_id++) { ++Probe::counts[%(k)d]; }
%(A)s::%(A)s(const %(A)s &o) : _id(next_id++) { ++Probe::counts[%(k)d]; }
%(A)s::~%(A)s() { --Probe::counts[%(k)d]; }
int %(A)s::get_id() const { return _id; }
const %(A)s &%(A)s::cref() { static %(A)s x; return x; }
%(A)s &%(A)s::gref() { return g_%(A)s; }
%(B)s::%(B)s() { ++Probe::counts[%(k)d + 1]; }
%(B)s::%(B)s(const %(B)s &o) : %(A)s(o) { ++Probe::counts[%(k)d + 1]; }
%(B)s::~%(B)s() { --Probe::counts[%(k)d + 1]; }
const %(B)s &%(B)s::cref() { static %(B)s x; return x; }
%(B)s &%(B)s::gref() { return g_%(B)s; }
%(D)s::%(D)s() { ++Probe::counts[%(k)d + 2]; }
%(D)s::%(D)s(const %(D)s &o) : %(B)s(o) { ++Probe::counts[%(k)d + 2]; }
%(D)s::~%(D)s() { --Probe::counts[%(k)d + 2]; }
const %(D)s &%(D)s::cref() { static %(D)s x; return x; }
%(D)s &%(D)s::gref() { return g_%(D)s; }
%(C)s::%(C)s() : _id(next_id++) { ++Probe::counts[%(k)d + 3]; }
%(C)s::%(C)s(const %(C)s &o) : _id(next_id++) { ++Probe::counts[%(k)d + 3]; }
%(C)s::~%(C)s() { --Probe::counts[%(k)d + 3]; }
int %(C)s::get_id() const { return _id; }
// the logged text names the LOGICAL class of the parameter's static type
static std::string to_s(const %(A)s &v) { return "A#" + std::to_string(v._id); }
static std::string to_s(const %(B)s &v) { return "B#" + std::to_string(v._id); }
static std::string to_s(const %(D)s &v) { return "D#" + std::to_string(v._id); }
'''
# classes with converting constructors (PyDispatch Ctors): every instance remembers which constructor
# made it (n = default, i = int, d = double, s = string; a copy keeps the tag) and the value
CO_CTORS = {"M": [("int", True), ("double", False)], "T": [("int", True), ("const std::string &", False)],
            "E": [("int", True)], "W": [("int", False), ("double", False)]}
CO_TAG = {"int": "i", "double": "d", "const std::string &": "s"}
CO_H = "".join("class %s {\nPUBLISHED:\n  %s();\n%s  ~%s();\n  %s(const %s &o);\npublic:\n  char _tag; double _num; std::string _str;\n};\nextern %s g_%s;\n" % (
    k, k, "".join("  %s%s(%s v);\n" % ("explicit " if ex else "", k, t) for t, ex in cs), k, k, k, k, k) for k, cs in sorted(CO_CTORS.items()))
CO_CXX = "".join(
    "%(k)s g_%(k)s;\n%(k)s::%(k)s() : _tag('n'), _num(0) { ++Probe::counts[%(n)d]; }\n"
    "%(k)s::%(k)s(const %(k)s &o) : _tag(o._tag), _num(o._num), _str(o._str) { ++Probe::counts[%(n)d]; }\n"
    "%(k)s::~%(k)s() { --Probe::counts[%(n)d]; }\n" % dict(k=k, n=8 + n) +
    "".join("%s::%s(%s v) : _tag('%s'), %s { ++Probe::counts[%d]; }\n" % (
        k, k, t, CO_TAG[t], "_num(0), _str(v)" if "string" in t else "_num(v)", 8 + n) for t, ex in cs) +
    'static std::string to_s(const %s &v) { return std::string("%s[") + v._tag + ":" + to_s(v._num) + ":" + v._str + "]"; }\n'
    'static std::string to_s(const %s *v) { return to_s(*v); }\n' % (k, k, k)
    for n, (k, cs) in enumerate(sorted(CO_CTORS.items())))
NCOUNTS = 12
COMMON_H = PROBE_H + "".join(FAMILY_H % f for f in FAMILY) + CO_H
COMMON_CXX = PROBE_CXX + "".join(FAMILY_CXX % dict(f, k=4 * n) for n, f in enumerate(FAMILY)) + CO_CXX


def fam_of(sid):
    return sid % 2


def ret_type(o):
    if o["p"] and o["p"][0] in CTYPE and o["p"][0] not in INSTCATS and o["p"][0] not in COCATS:
        c = o["p"][0]
        return "std::string" if c == "str" else CTYPE[c]
    return "int"


def render_sets(sets):
    """sets: list of (id, rec) with rec = {kind, nm, ov:[{p,d,k}]}.  Returns (header text, source text)."""
    H, X = [], []
    for sid, rec in sets:
        cn = "S%d" % sid
        fam = fam_of(sid)
        static = rec["kind"] == "static"
        H.append("class %s {\nPUBLISHED:\n  %s();\n  static const %s &cref();" % (cn, cn, cn))
        X.append("%s::%s() {}\nconst %s &%s::cref() { static %s x; return x; }" % (cn, cn, cn, cn, cn))
        decls = []
        for j, o in enumerate(rec["ov"], 1):
            ps, names = [], []
            np = len(o["p"])
            for i, c in enumerate(o["p"]):
                nm = param_name(rec["nm"], j, i)
                names.append(nm)
                dflt = ""
                if i >= np - o["d"]:
                    dflt = " = " + ((DEFAULT[c] % FAMILY[fam] if "%" in DEFAULT[c] else DEFAULT[c]) if c in DEFAULT else "7")
                ps.append((ctype(c, fam), nm, dflt))
            rt = ret_type(o)
            decls.append("  %s%s f(%s)%s;" % ("static " if static else "", rt,
                                              ", ".join("%s %s%s" % (t, n, d) for t, n, d in ps),
                                              " const" if o["k"] else ""))
            logx = ' + "," + '.join("to_s(%s)" % n for n in names) if names else 'std::string()'
            body = 'Probe::log(std::string("%d.%d(") + %s + ")"); return %s;' % (
                sid, j, logx, (names[0] if rt != "int" or (o["p"] and o["p"][0] == "i32") else str(j)))
            X.append("%s %s::f(%s)%s { %s }" % (rt, cn, ", ".join("%s %s" % (t, n) for t, n, d in ps),
                                                " const" if o["k"] else "", body))
        H += decls if fam == 0 else decls[::-1]      # declaration order must not matter
        H.append("};")
    return "\n".join(H) + "\n", "\n".join(X) + "\n"


def arg_log(tok, pcat, ids, ctor=""):
    """text the instrumented body logs for Python argument tok received through parameter pcat
    (ctor: the parameter type of the converting constructor C++ uses, "" if none)"""
    t = tok[0]
    if pcat in COCATS:
        k = COCATS[pcat]
        if t == "i" + k:
            return "%s[n:0:]" % k
        val = {"int": INTV[tok[1]] if t == "int" else None, "bool": 1, "float": 2.5}.get(t)
        if ctor == "str":
            return "%s[s:0:%s]" % (k, STR)
        num = ("%d" % val) if float(val) == int(val) else repr(float(val))
        return "%s[%s:%s:]" % (k, "i" if ctor == "i32" else "d", num)
    if t == "int":
        return str(INTV[tok[1]])
    if t == "bool":
        return "T"
    if t == "float":
        return "2.5"
    if t == "str":
        return STR
    return "%s#%d" % (pcat[1], ids[t])


def expected_log(sid, j, o, argtoks, ids, co=()):
    parts = []
    for i, c in enumerate(o["p"]):
        if i < len(argtoks):
            parts.append(arg_log(argtoks[i], c, ids, co[i] if i < len(co) else ""))
        else:
            d = DEFLOG.get(c, "7")
            parts.append(d.format(**ids) if "{" in d else d)
    return "%d.%d(%s);" % (sid, j, ",".join(parts))


def expected_ret(j, o, argtoks):
    if not o["p"]:
        return j
    c = o["p"][0]
    if c in INSTCATS or c in COCATS:
        return j
    if argtoks:
        t = argtoks[0]
        return {"int": INTV[t[1]] if t[0] == "int" else None, "bool": True, "float": 2.5, "str": STR}[t[0]]
    return {"f32": 1.5, "f64": 1.5, "bool": True, "str": "dflt"}.get(c, 7)


# ---- native (g++) sanity program --------------------------------------------------------------
NATIVE_PRE = r'''
#include <utility>
#include <cstdio>
template<class T, class... Ar> struct CanM {
  template<class U> static auto t(int) -> decltype(std::declval<U>().f(std::declval<Ar>()...), std::true_type());
  template<class U> static std::false_type t(...);
  static const bool value = decltype(t<T>(0))::value;
};
template<class T, class... Ar> struct CanS {
  template<class U> static auto t(int) -> decltype(U::f(std::declval<Ar>()...), std::true_type());
  template<class U> static std::false_type t(...);
  static const bool value = decltype(t<T>(0))::value;
};
template<class T, class... Ar> void call_m(int s, int n, T &&obj, Ar &&... args) {
  if constexpr (CanM<T, Ar...>::value) { obj.f(std::forward<Ar>(args)...); printf("%d %d %s\n", s, n, Probe::take_log().c_str()); }
  else printf("%d %d NOCALL\n", s, n);
}
template<class T, class... Ar> void call_s(int s, int n, T *, Ar &&... args) {
  if constexpr (CanS<T, Ar...>::value) { T::f(std::forward<Ar>(args)...); printf("%d %d %s\n", s, n, Probe::take_log().c_str()); }
  else printf("%d %d NOCALL\n", s, n);
}
'''


def cpp_int(v):
    if v < -2**63 or v >= 2**64:
        return None
    if v == -2**63:
        return "(-9223372036854775807LL-1)"
    return "%dLL" % v if v < 2**63 else "%dULL" % v


def cpp_arg(tok, ct, fam=0):
    """C++ expression of the argument type the spec assigned (ct), or None when C++ has no such argument"""
    t = tok[0]
    if t == "int":
        lit = cpp_int(INTV[tok[1]])
        if lit is None or ct not in CTYPE or ct not in INTCATS:
            return None
        return "(%s)(%s)" % (CTYPE[ct], lit)
    return {"bool": "true", "float": "2.5", "str": 'std::string("a\\xc3\\xa9z")', "iA": "a_obj%d" % fam, "iB": "b_obj%d" % fam,
            "iD": "d_obj%d" % fam, "iC": "c_obj%d" % fam, "kA": "ka_obj%d" % fam, "kB": "kb_obj%d" % fam,
            "iM": "m_obj", "iT": "t_obj", "iE": "e_obj", "iW": "w_obj"}.get(t)


def native_program(hdr, src, sets, picks):
    """picks: {sid: [call index]}: the calls compiled natively"""
    L = ['#include "%s"' % hdr, '#include "%s"' % src, NATIVE_PRE, "int main() {",
         "  Probe::take_log();", "  M m_obj; T t_obj; E e_obj; W w_obj;"]
    for n, f in enumerate(FAMILY):
        L.append("  %(A)s a_obj%(n)d; %(B)s b_obj%(n)d; %(D)s d_obj%(n)d; %(C)s c_obj%(n)d; const %(A)s &ka_obj%(n)d = %(A)s::cref(); "
                 "const %(B)s &kb_obj%(n)d = %(B)s::cref();" % dict(f, n=n))
    n_lines = 0
    for sid, rec in sets:
        static = rec["kind"] == "static"
        if not static:
            L.append("  S%d s%d; const S%d &k%d = S%d::cref();" % (sid, sid, sid, sid, sid))
        for n in picks.get(sid, ()):
            call = rec["calls"][n]
            if any(call["kw"]):          # keyword arguments have no C++ counterpart
                continue
            # an instance passed where a K * is wanted is &obj in C++: not expressible per call
            if any(a["t"] == "iM" for a in call["a"]) and any("pM" in o["p"] for o in rec["ov"]):
                continue
            exprs = [cpp_arg(tok, ct, fam_of(sid)) for tok, ct in zip(toks(call), call["ct"])]
            if any(e is None for e in exprs):
                continue
            if static:
                L.append("  call_s(%d, %d, (S%d *)0%s);" % (sid, n, sid, "".join(", " + e for e in exprs)))
            else:
                L.append("  call_m(%d, %d, %s%d%s);" % (sid, n, "s" if call["self"] == "nc" else "k", sid,
                                                      "".join(", " + e for e in exprs)))
            n_lines += 1
    L.append("  return 0;\n}")
    return "\n".join(L) + "\n", n_lines


# ---- building and driving -----------------------------------------------------------------------
def write_batch(work, name, sets):
    os.makedirs(work, exist_ok=True)
    h, x = render_sets(sets)
    open(os.path.join(work, "pub.h"), "w").write(pymod.PUBLISH_PRELUDE)
    open(os.path.join(work, name + ".h"), "w").write('#pragma once\n#include "pub.h"\n' + COMMON_H + h)
    open(os.path.join(work, name + "_impl.cxx"), "w").write('#include "%s.h"\n' % name + COMMON_CXX + x)


def run_driver(moddir, script, outp, asan=False, timeout=600):
    """returns (records, returncode, stderr tail); returncode < 0 = killed by a signal"""
    env = dict(os.environ)
    if asan:
        e = pymod.asan_env()
        if e is None:
            raise MachineryError("no libasan.so for the ASan tier")
        env.update(e)
    cmd = pymod.python_cmd() + [DRIVER, moddir, script, outp]
    try:
        p = subprocess.run(cmd, env=env, stdout=subprocess.PIPE, stderr=subprocess.PIPE, timeout=timeout)
        rc, err = p.returncode, p.stderr.decode("utf-8", "replace")[-3000:]
    except subprocess.TimeoutExpired:
        rc, err = "timeout", ""
    recs = []
    if os.path.exists(outp):
        for line in open(outp):
            try:
                recs.append(json.loads(line))
            except ValueError:
                pass
    return recs, rc, err


def toks(call):
    return [[a["t"], a["v"]] for a in call["a"]]


def dispatch_batch(args):
    """build one module for a batch of evaluated sets, run every call, run the native program.
    Returns dict(bi, obs={(sid, n): rec}, ids, native={(sid, n): log}, crash=...)"""
    work, bi, sets, picks, asan = args
    name = "c02d%d" % bi
    wd = os.path.join(work, name)
    write_batch(wd, name, sets)
    res = dict(bi=bi, name=name, wd=wd)
    t0 = time.time()
    try:
        pymod.build_module(wd, name, [name + ".h"], [name + "_impl.cxx"], asan=asan, jobs=3)
    except pymod.PymodError as e:
        res["build_error"] = (e.stage, e.detail[-3000:])
        return res
    res["t_build"] = time.time() - t0
    script = dict(module=name, mode="dispatch", nclasses=len(CLASSES), ncounts=NCOUNTS,
                  sets=[dict(id=sid, kind=rec["kind"], fam=fam_of(sid), calls=[[c["self"], toks(c), c["kw"]] for c in rec["calls"]])
                        for sid, rec in sets])
    json.dump(script, open(os.path.join(wd, "script.json"), "w"))
    recs, rc, err = run_driver(wd, os.path.join(wd, "script.json"), os.path.join(wd, "out.ndjson"), asan=asan)
    res["rc"], res["stderr"] = rc, err
    res["obs"] = {(r["s"], r["c"]): r for r in recs if "s" in r}
    res["ids"] = next((r["ids"] for r in recs if "ids" in r), None)      # per family
    res["last_at"] = next((r["at"] for r in reversed(recs) if "at" in r), None)
    res["finished"] = any("done" in r for r in recs)
    # native sanity
    prog, nl = native_program(name + ".h", name + "_impl.cxx", sets, picks)
    open(os.path.join(wd, "native.cxx"), "w").write(prog)
    t0 = time.time()
    r = subprocess.run(["g++", "-std=c++17", "-O0", "-w", "-I.", "native.cxx", "-o", "native.exe"], cwd=wd,
                       stdout=subprocess.PIPE, stderr=subprocess.PIPE, text=True)
    if r.returncode != 0:
        res["native_error"] = r.stderr[-3000:]
        return res
    out = subprocess.run(["./native.exe"], cwd=wd, stdout=subprocess.PIPE, text=True).stdout
    res["t_native"] = time.time() - t0
    nat = {}
    for line in out.splitlines():
        p = line.split(" ", 2)
        nat[(int(p[0]), int(p[1]))] = p[2] if len(p) > 2 else ""
    res["native"] = nat
    return res


def fix_env():
    """which of the delivered fixes the tree under test contains (read from its source, so that the
    mechanism model of the spec is the transcription of THIS tree)"""
    from ..common import REPO
    src = open(os.path.join(REPO, "src", "interrogate", "interfaceMakerPythonNative.cxx"), errors="replace").read()
    e = {}
    if "arg_val == -1 && PyErr_Occurred()" in src:
        e["VERIF_FIX_INTERR"] = "1"
    if "max_passed_args" in src:
        e["VERIF_FIX_EXTRA"] = "1"
    return e


def eval_sets(ctx_tmp, sets, tag="eval", workers=6):
    """phase 2: TLC evaluates the spec on the selected sets; returns the evaluated records in order"""
    sel = os.path.join(ctx_tmp, tag + "_sets.json")
    json.dump(sets, open(sel, "w"))
    dump = os.path.join(ctx_tmp, tag + "_calls.ndjson")
    if os.path.exists(dump):
        os.unlink(dump)
    res = tlc.run("PyDispatchEval", "PyDispatch_eval", workers=workers, env=dict(fix_env(), VERIF_SETS=sel, VERIF_DUMP=dump), timeout=1500)
    out = [dict(kind=s["kind"], nm=s["nm"], ov=s["ov"], calls=[]) for s in sets]
    for r in tlc.read_dump(dump):
        out[r.pop("s") - 1]["calls"].append(r)
    for o in out:      # TLC may evaluate the constraint of a state more than once
        uniq = {json.dumps([c["self"], c["a"], c["kw"]], sort_keys=True): c for c in o["calls"]}
        o["calls"] = [uniq[k] for k in sorted(uniq)]
    return res, out


# ---- judging one call -------------------------------------------------------------------------------
def observed_kind(o):
    """projection of an observation to the spec's result alphabet: (kind, overload index)"""
    ran = [x for x in o["log"].split(";") if x]
    j = int(ran[0].split("(")[0].split(".")[1]) if ran else 0
    if o["exc"] is None:
        return ("run", j) if len(ran) == 1 else ("run%d" % len(ran), j)
    if ran:
        return (o["exc"] + "AfterRun", j)
    return (o["exc"], 0)


def judge_call(sid, rec, call, o, ids):
    """compare one observation with the reference carried by the dump.  Returns a list of
    (what, detail) disagreements (empty = agrees or no claim)."""
    bad = []
    kind, j = observed_kind(o)
    e = call["e"]
    argt = [[a["t"], a["v"]] for a in call["pa"]]          # by position, after binding the keywords
    heap_changed = any(o["dlive"]) or any(o["drc"]) or "own_changed" in o
    if e == "run":
        if (kind, j) != ("run", call["j"]):
            bad.append(("dispatch", "expected overload %d to run, observed %s/%d" % (call["j"], kind, j)))
        else:
            ov = rec["ov"][j - 1]
            want = expected_log(sid, j, ov, argt, ids, call.get("co", ()))
            if o["log"] != want:
                bad.append(("argvalue", "overload %d received %r, expected %r" % (j, o["log"], want)))
            wr = expected_ret(j, ov, argt)
            if o.get("ret") != wr or type(o.get("ret")) is not type(wr):
                bad.append(("retvalue", "returned %r (%s), expected %r" % (o.get("ret"), o.get("rett"), wr)))
            if heap_changed:
                bad.append(("heap", "a plain call changed live counts %s / refcounts %s / ownership" % (o["dlive"], o["drc"])))
    elif e in ("TypeError", "OverflowError", "TypeOrOverflow"):
        allowed = ("TypeError", "OverflowError") if e == "TypeOrOverflow" else (e,)
        if kind not in allowed:
            bad.append(("error", "expected %s, observed %s/%d" % (e, kind, j)))
        elif heap_changed:
            bad.append(("heap", "a rejected call changed live counts %s / refcounts %s / ownership" % (o["dlive"], o["drc"])))
    else:       # no claim about the selection; still nothing may leak or crash
        if heap_changed:
            bad.append(("heap", "call changed live counts %s / refcounts %s / ownership" % (o["dlive"], o["drc"])))
    return bad


def model_agrees(call, o):
    """trace validation of the mechanism: is the observed outcome one the spec's PySelect allows?"""
    kind, j = observed_kind(o)
    for m in call["m"]:
        mk = {"runwrap": "run", "OverflowAfterRun": "OverflowErrorAfterRun"}.get(m["k"], m["k"])
        if mk == kind and (m["j"] == j or kind in ("TypeError", "OverflowError")):
            return True
    return False


def native_agrees(call, nat):
    """spec sanity: g++ selected the overload CppSelect predicts (or rejects the call when it predicts none)"""
    if nat is None:
        return True
    if nat == "NOCALL":
        return call["cpp"] <= 0
    ran = [x for x in nat.split(";") if x]
    return len(ran) == 1 and call["cpp"] == int(ran[0].split("(")[0].split(".")[1])


# ---- object histories (PyObjects) -----------------------------------------------------------------------
NODE_H = r'''
#include <string>
class Probe {
PUBLISHED:
  static std::string take_log();
  static std::string take_dlog();
  static int made();
  static int died();
  static void reset();
};
class Node {
PUBLISHED:
  Node();
  Node(const Node &copy);
  ~Node();
  Node make() const;
  Node *child();
  const Node &cchild() const;
  Node &me();
  static Node *global_ptr();
  void look(const Node *other);
  void touch();
  int peek() const;
  int get_id() const;
  int get_touched() const;
public:
  explicit Node(int is_static);
  int _id;
  int _touched;
  bool _counted;
  mutable Node *_child;
};
'''
NODE_CXX = r'''
static std::string the_log, the_dlog;
static int n_made = 0, n_died = 0, next_id = 1;
std::string Probe::take_log() { std::string r = the_log; the_log.clear(); return r; }
std::string Probe::take_dlog() { std::string r = the_dlog; the_dlog.clear(); return r; }
int Probe::made() { return n_made; }
int Probe::died() { return n_died; }
Node::Node() : _id(next_id++), _touched(0), _counted(true), _child(nullptr) { ++n_made; }
Node::Node(int) : _id(next_id++), _touched(0), _counted(false), _child(nullptr) {}
Node::Node(const Node &copy) : _id(next_id++), _touched(0), _counted(true), _child(nullptr) { ++n_made; }
Node::~Node() { if (_counted) { ++n_died; the_dlog += std::to_string(_id) + ","; } delete _child; _child = nullptr; }
Node Node::make() const { return Node(*this); }
Node *Node::child() { if (!_child) _child = new Node(); return _child; }
const Node &Node::cchild() const { if (!_child) _child = new Node(); return *_child; }
Node &Node::me() { return *this; }
Node *Node::global_ptr() { static Node g(1); return &g; }
void Probe::reset() { Node *g = Node::global_ptr(); g->_touched = 0; delete g->_child; g->_child = nullptr; the_log.clear(); the_dlog.clear(); }
void Node::look(const Node *other) { the_log += "look " + std::to_string(other->_id) + ";"; }
void Node::touch() { ++_touched; }
int Node::peek() const { return _touched; }
int Node::get_id() const { return _id; }
int Node::get_touched() const { return _touched; }
'''


# the same class with the properties whose evaluation creates helper objects (PyObjectsH)
NODEH_H = NODE_H.replace("public:\n  explicit Node(int is_static);", r"""  int get_num_vals() const;
  int get_val(int i) const;
  void set_val(int i, int v);
  MAKE_SEQ_PROPERTY(vals, get_num_vals, get_val);
  MAKE_SEQ_PROPERTY(mvals, get_num_vals, get_val, set_val);
  MAKE_SEQ(get_vals, get_num_vals, get_val);
  Node get_copy(int i) const;
  MAKE_SEQ_PROPERTY(copies, get_num_vals, get_copy);
  bool has_named(const std::string &key) const;
  int get_named(const std::string &key) const;
  void set_named(const std::string &key, int v);
  MAKE_MAP_PROPERTY(named, has_named, get_named);
  MAKE_MAP_PROPERTY(mnamed, has_named, get_named, set_named);
  int get_num_names() const;
  std::string get_name(int i) const;
  MAKE_MAP_KEYS_SEQ(named, get_num_names, get_name);
  MAKE_MAP_KEYS_SEQ(mnamed, get_num_names, get_name);
  bool operator == (const Node &other) const;
  void set_touched(int v);
  MAKE_PROPERTY(touched, get_touched, set_touched);
  int operator + (int v) const;
  int size() const;
  int operator [] (int i) const;
public:
  explicit Node(int is_static);
  int _v[3];""")
NODEH_CXX = NODE_CXX.replace("_child(nullptr) { ++n_made; }", "_child(nullptr) { ++n_made; _v[0] = 0; _v[1] = 1001; _v[2] = 1002; }", 1) \
    .replace("Node::Node(int) : _id(next_id++), _touched(0), _counted(false), _child(nullptr) {}",
             "Node::Node(int) : _id(next_id++), _touched(0), _counted(false), _child(nullptr) { _v[0] = 0; _v[1] = 1001; _v[2] = 1002; }") \
    .replace("Node::Node(const Node &copy) : _id(next_id++), _touched(0), _counted(true), _child(nullptr) { ++n_made; }",
             "Node::Node(const Node &copy) : _id(next_id++), _touched(0), _counted(true), _child(nullptr) { ++n_made; for (int i = 0; i < 3; ++i) _v[i] = copy._v[i]; }") + r"""
int Node::get_num_vals() const { return 3; }
int Node::get_val(int i) const { return _v[i]; }
void Node::set_val(int i, int v) { _v[i] = v; }
Node Node::get_copy(int i) const { Node c(*this); c._v[0] = _v[i]; return c; }
bool Node::has_named(const std::string &key) const { return key == "a" || key == "b" || key == "c"; }
int Node::get_named(const std::string &key) const { return _v[key[0] - 'a']; }
void Node::set_named(const std::string &key, int v) { _v[key[0] - 'a'] = v; }
int Node::get_num_names() const { return 3; }
std::string Node::get_name(int i) const { return std::string(1, (char)('a' + i)); }
bool Node::operator == (const Node &other) const { return _v[0] == other._v[0]; }
void Node::set_touched(int v) { _touched = v; }
int Node::operator + (int v) const { return _v[0] + v; }
int Node::size() const { return 3; }
int Node::operator [] (int i) const { return _v[i]; }
"""


def build_objects_module(work, name, asan=False, helpers=False):
    os.makedirs(work, exist_ok=True)
    open(os.path.join(work, "pub.h"), "w").write(pymod.PUBLISH_PRELUDE)
    open(os.path.join(work, name + ".h"), "w").write('#pragma once\n#include "pub.h"\n' + (NODEH_H if helpers else NODE_H))
    open(os.path.join(work, name + "_impl.cxx"), "w").write('#include "%s.h"\n' % name + (NODEH_CXX if helpers else NODE_CXX))
    return pymod.build_module(work, name, [name + ".h"], [name + "_impl.cxx"], asan=asan, jobs=3)


def history_script(name, hists):
    out = []
    for hid, h in hists:
        steps = []
        for s in h["steps"]:
            op = s["op"]
            if op in ("PyConstruct", "ReturnStatic", "NewEmpty", "Init", "ReInit"):
                steps.append([op, "w%d" % s["w"]])
            elif op in ("ReturnByValue", "ReturnBorrowed", "ReturnConstRef", "ReturnThis", "PassToCpp"):
                steps.append([op, "w%d" % s["w"], "w%d" % s["src"]])
            else:
                steps.append([op, "w%d" % s["w"]])
            # wrappers whose instance is dead must not be dereferenced, not even to observe them
            steps[-1] = dict(do=steps[-1], usable=["w%d" % (i + 1) for i, w in enumerate(s["wr"])
                                                    if w["ptr"] > 0 and s["alive"][w["ptr"] - 1]],
                             empty=["w%d" % (i + 1) for i, w in enumerate(s["wr"]) if w["ptr"] == -1])
        out.append(dict(id=hid, steps=steps))
    return dict(module=name, mode="objects", histories=out)


def judge_history(h, o):
    """compare the observations of one history with the state the spec carries after every step"""
    bad = []
    ident = {}        # spec instance index -> observed id
    for n, (s, ob) in enumerate(zip(h["steps"], o["obs"])):
        want_exc = s["exc"] or None
        if ob["exc"] != want_exc:
            bad.append("step %d %s: exception %s, expected %s" % (n + 1, s["op"], ob["exc"], want_exc))
        if ob["made"] != s["made"] or ob["died"] != s["died"]:
            bad.append("step %d %s: constructed/destroyed %d/%d, expected %d/%d" % (n + 1, s["op"], ob["made"], ob["died"], s["made"], s["died"]))
        want_w = {"w%d" % (i + 1): w for i, w in enumerate(s["wr"]) if w["ptr"] != 0}
        if set(want_w) != set(ob["w"]):
            bad.append("step %d %s: live wrappers %s, expected %s" % (n + 1, s["op"], sorted(ob["w"]), sorted(want_w)))
            continue
        for k, w in want_w.items():
            own, const, oid, touched = ob["w"][k]
            if own != w["mem"] or const != w["const"]:
                bad.append("step %d %s: %s has this_ownership=%s this_const=%s, expected %s/%s" % (
                    n + 1, s["op"], k, own, const, w["mem"], w["const"]))
            if oid is None:         # dangling wrapper: only its own bits are observed
                continue
            if ident.setdefault(w["ptr"], oid) != oid:
                bad.append("step %d %s: %s wraps instance id %d, expected the instance with id %d" % (n + 1, s["op"], k, oid, ident[w["ptr"]]))
            if touched != s["touched"][w["ptr"] - 1]:
                bad.append("step %d %s: instance of %s was modified %d times, expected %d" % (n + 1, s["op"], k, touched, s["touched"][w["ptr"] - 1]))
        if len(set(ident.values())) != len(ident):
            bad.append("step %d %s: two instances of the history share one C++ object %s" % (n + 1, s["op"], ident))
    dl = [x for x in o["dlog"].split(",") if x]
    if len(dl) != len(set(dl)):
        bad.append("an instance was destroyed twice: %s" % dl)
    return bad


# probes on a wrapper without object whose target is a const method (input predicate of a finding)
CONST_PROBES = ("const0 get_id", "const0 peek", "const1 get_val", "const make", "const cchild", "const get_copy", "bound method")
E_CLASSES = ["C02-reinit-leaks-object", "C02-unconstructed-const-method-systemerror"]


def judge_ehistory(h, o):
    """histories with wrappers without object / repeated __init__: [(text, [classes from the input])]"""
    reinit = False
    out = []
    first_reinit = None
    for n, s in enumerate(h["steps"]):
        if s["op"] == "ReInit" and n > 0 and h["steps"][n - 1]["wr"][s["w"] - 1]["mem"] and first_reinit is None:
            first_reinit = n + 1
    for b in judge_history(h, o):
        cls = []
        if first_reinit is not None and b.startswith("step ") and int(b.split()[1]) >= first_reinit and "constructed/destroyed" in b:
            cls = ["C02-reinit-leaks-object"]
        out.append((b, cls))
    for n, (s, ob) in enumerate(zip(h["steps"], o["obs"])):
        for k, pr in sorted(ob.get("probes", {}).items()):
            for name, res in sorted(pr.items()):
                if name == "bits":
                    if res != "ok:[False, False, 0]":
                        out.append(("step %d %s: wrapper %s without object shows %s" % (n + 1, s["op"], k, res), []))
                elif name.startswith("static"):
                    if not res.startswith("ok:"):
                        out.append(("step %d %s: static function through %s without object: %s" % (n + 1, s["op"], k, res), []))
                elif res != "TypeError":
                    out.append(("step %d %s: %s on wrapper %s without object gives %s, expected TypeError" % (n + 1, s["op"], name, k, res),
                                ["C02-unconstructed-const-method-systemerror"] if name in CONST_PROBES else []))
        if "after_probes" in ob and ob["after_probes"] != [ob["made"], ob["died"]]:
            out.append(("step %d %s: using a wrapper without object constructed/destroyed instances: %s -> %s" % (
                n + 1, s["op"], [ob["made"], ob["died"]], ob["after_probes"]), []))
    return out


def eclasses_of(h):
    out = {"C02-unconstructed-const-method-systemerror"} if any(s["op"] == "NewEmpty" for s in h["steps"]) else set()
    for n, s in enumerate(h["steps"]):
        if s["op"] == "ReInit" and n > 0 and h["steps"][n - 1]["wr"][s["w"] - 1]["mem"]:
            out.add("C02-reinit-leaks-object")
    return out


def objects_batch(args):
    work, name, hists, asan = args[:4]
    helpers = len(args) > 4 and args[4]
    res = dict(name=name)
    try:
        build_objects_module(os.path.join(work, name), name, asan=asan, helpers=helpers)
    except pymod.PymodError as e:
        res["build_error"] = (e.stage, e.detail[-3000:])
        return res
    wd = os.path.join(work, name)
    json.dump(history_script(name, hists), open(os.path.join(wd, "script.json"), "w"))
    recs, rc, err = run_driver(wd, os.path.join(wd, "script.json"), os.path.join(wd, "out.ndjson"), asan=asan)
    res.update(rc=rc, stderr=err, obs={r["h"]: r for r in recs if "h" in r},
               last_at=next((r["at"] for r in reversed(recs) if "at" in r), None),
               finished=any("done" in r for r in recs))
    return res


# ---- names --------------------------------------------------------------------------------------------------
# transcriptions of checkKeyword / classNameFromCppName / methodNameFromCppName / methodRenameDictionary
# (interfaceMakerPythonNative.cxx) as functions on identifiers
PY_KEYWORDS = ["and", "as", "assert", "async", "await", "break", "class", "continue", "def", "del", "elif", "else",
               "except", "exec", "finally", "for", "from", "global", "if", "import", "in", "is", "lambda", "nonlocal",
               "not", "or", "pass", "print", "raise", "return", "try", "while", "with", "yield"]
BAD_CHARS = "!@#$%^&*()<>,.-=+~{}? "
RENAME = {"operator ==": "__eq__", "operator !=": "__ne__", "operator <<": "__lshift__", "operator >>": "__rshift__",
          "operator <": "__lt__", "operator >": "__gt__", "operator <=": "__le__", "operator >=": "__ge__",
          "operator =": "assign", "operator ()": "__call__", "operator []": "__getitem__",
          "operator ++unary": "increment", "operator ++": "increment", "operator --unary": "decrement",
          "operator --": "decrement", "operator ^": "__xor__", "operator %": "__mod__", "operator !": "logicalNot",
          "operator ~unary": "__invert__", "operator &": "__and__", "operator &&": "logicalAnd", "operator |": "__or__",
          "operator ||": "logicalOr", "operator +": "__add__", "operator -": "__sub__", "operator -unary": "__neg__",
          "operator *": "__mul__", "operator /": "__div__", "operator +=": "__iadd__", "operator -=": "__isub__",
          "operator *=": "__imul__", "operator /=": "__idiv__", "operator ,": "concatenate", "operator |=": "__ior__",
          "operator &=": "__iand__", "operator ^=": "__ixor__", "operator ->": "dereference",
          "operator <<=": "__ilshift__", "operator >>=": "__irshift__", "operator typecast bool": "__bool__",
          "print": "Cprint"}


def check_keyword(name):
    return "_" + name if name in PY_KEYWORDS else name


def class_name_from_cpp(cpp, mangle):
    out, next_cap, next_us, first = "", False, False, mangle
    for ch in cpp:
        if ch in "_ " and mangle:
            next_cap = True
        elif ch in BAD_CHARS:
            next_us = not mangle
        elif ch == ":":
            if out and out[-1] != ".":
                out += "."
            first = first or mangle
        elif next_cap or first:
            out += ch.upper()
            next_cap = first = False
        elif next_us:
            out += "_" + ch
            next_us = False
        else:
            out += ch
    return check_keyword(out)


def method_name_from_cpp(cpp, mangle):
    orig = cpp[6:] if cpp.startswith("__py__") else cpp
    out, next_cap = "", False
    for ch in orig:
        if ch in "_ " and mangle:
            next_cap = True
        elif ch in BAD_CHARS:
            if not mangle:
                out += "_"
        elif next_cap:
            out += ch.upper()
            next_cap = False
        else:
            out += ch
    if orig in RENAME:
        out = RENAME[orig]
    return check_keyword(out)


IDENTS = ["a", "ab_cd", "ab__cd", "get_x2_y", "trail_", "MixedCase", "mixedCase", "x_1", "UPPER_CASE", "a_b_c_d",
          # Python keywords that are ordinary identifiers in C++
          "as", "async", "await", "def", "del", "elif", "except", "exec", "finally", "from", "global", "import",
          "in", "is", "lambda", "nonlocal", "pass", "raise", "with",
          # names that become keywords only after mangling, or stop being one
          "class_", "is_", "in_", "not_", "Pass", "pass_"]
CLASS_IDENTS = ["plain", "lower_case_name", "CamelCase", "with_2_digits", "A_b", "trailing_", "yield"]
RUNTIME_NAMES = {"DtoolClassDict", "DtoolGetSuperBase", "this", "this_const", "this_metatype", "this_ownership"}
MODULE_RUNTIME = {"Dtool_BorrowThisReference", "Dtool_PyNativeInterface"}


def names_library():
    """hand-laid-out library over the identifier grammar; returns (header, source, expected, evals)
    expected: {python scope ('' = module, 'Cls', 'Cls.Inner'): set of names}; evals: {expr: repr}"""
    H = ["__begin_publish", "#define NAMES_VERSION 42", "#define Mixed_manifest 7",
         "enum Color { C_red, C_dark_green = 5, plainvalue = 9 };",
         "enum class ScopedMode { SM_on = 1, SM_off = 2 };",
         "int global_func(int first_arg, int second_arg = 3);", "int unary_global(int v);"]
    X = ["int global_func(int a, int b) { return a * 10 + b; }", "int unary_global(int v) { return v + 1; }"]
    exp = {"": set()}
    ev = {}

    def both(scope, fn, ident):
        exp.setdefault(scope, set()).update([fn(ident, False), fn(ident, True)])
    for m in ("NAMES_VERSION", "Mixed_manifest", "C_red", "C_dark_green", "plainvalue"):
        both("", class_name_from_cpp, m)
    exp[""].add("ScopedMode")
    for g in ("global_func", "unary_global"):
        both("", method_name_from_cpp, g)
    # two identifiers may be given the same Python name (ab_cd / ab__cd, in / in_): the value is
    # asserted only for names that a single identifier produces
    owners = {}
    for g in IDENTS:
        for mg in (False, True):
            owners.setdefault(method_name_from_cpp(g, mg), set()).add(g)
    for i, g in enumerate(IDENTS):
        H.append("int %s(int v);" % g)
        X.append("int %s(int v) { return v + %d; }" % (g, 100 + i))
        both("", method_name_from_cpp, g)
        for mg in (False, True):
            if len(owners[method_name_from_cpp(g, mg)]) == 1:
                ev["m.%s(1)" % method_name_from_cpp(g, mg)] = repr(101 + i)
    H.append("__end_publish")
    ev.update({"m.NAMES_VERSION": "42", "m.%s" % class_name_from_cpp("NAMES_VERSION", True): "42", "m.Mixed_manifest": "7",
               "m.C_dark_green": "5", "m.CDarkGreen": "5", "m.plainvalue": "9", "m.Plainvalue": "9",
               "m.ScopedMode.SM_off.value": "2", "m.global_func(4)": "43", "m.globalFunc(4, 5)": "45",
               "m.global_func(first_arg=1, second_arg=2)": "12", "m.global_func(second_arg=2, first_arg=1)": "12"})
    for ci, cn in enumerate(CLASS_IDENTS):
        pyc = class_name_from_cpp(cn, False)
        both("", class_name_from_cpp, cn)
        H.append("class %s {\nPUBLISHED:\n  %s();" % (cn, cn))
        X.append("%s::%s() : _value(%d) {}" % (cn, cn, ci))
        sc = exp.setdefault(pyc, set())
        for i, g in enumerate(IDENTS):
            H.append("  int %s(int v) const;" % g)
            X.append("int %s::%s(int v) const { return v + %d; }" % (cn, g, 100 * ci + i))
            both(pyc, method_name_from_cpp, g)
            if ci == 0 and len(owners[method_name_from_cpp(g, True)]) == 1:
                ev["m.%s().%s(1)" % (pyc, method_name_from_cpp(g, True))] = repr(1 + i)
        H += ["  static int static_method(int v);", "  int get_value() const;", "  void set_value(int v);",
              "  MAKE_PROPERTY(value, get_value, set_value);", "  MAKE_PROPERTY(read_only_prop, get_value);",
              "  int get_num_items() const;", "  int get_item(int n) const;",
              "  MAKE_SEQ(get_items, get_num_items, get_item);",
              "  enum Kind { K_small, K_very_large = 11 };", "  enum class Inner_mode { IM_a = 3 };",
              "  class Inner_part {\n  PUBLISHED:\n    Inner_part();\n    int get_x() const;\n  };",
              "  int operator + (int v) const;", "  int operator - () const;", "  int operator () (int v) const;",
              "  bool operator == (const %s &o) const;" % cn, "  bool operator < (const %s &o) const;" % cn,
              "  %s &operator += (int v);" % cn, "  int operator * (int v) const;",
              "public:\n  int _value;\n};"]
        X += ["int %s::static_method(int v) { return v * 2; }" % cn, "int %s::get_value() const { return _value; }" % cn,
              "void %s::set_value(int v) { _value = v; }" % cn, "int %s::get_num_items() const { return 3; }" % cn,
              "int %s::get_item(int n) const { return n * n; }" % cn,
              "%s::Inner_part::Inner_part() {}" % cn, "int %s::Inner_part::get_x() const { return 77; }" % cn,
              "int %s::operator + (int v) const { return _value + v; }" % cn, "int %s::operator - () const { return -_value; }" % cn,
              "int %s::operator () (int v) const { return _value * v; }" % cn,
              "bool %s::operator == (const %s &o) const { return _value == o._value; }" % (cn, cn),
              "bool %s::operator < (const %s &o) const { return _value < o._value; }" % (cn, cn),
              "%s &%s::operator += (int v) { _value += v; return *this; }" % (cn, cn),
              "int %s::operator * (int v) const { return _value * v; }" % cn]
        for g in ("static_method", "get_value", "set_value", "get_num_items", "get_item", "get_items"):
            both(pyc, method_name_from_cpp, g)
        sc.update(["value", "read_only_prop", "Inner_mode"])
        for e in ("K_small", "K_very_large", "Inner_part"):
            both(pyc, class_name_from_cpp, e)
        # operators as dunder methods (and what CPython derives from the slots they fill); the
        # comparison dunders exist on every object and are checked by evaluation instead;
        # copy-constructible classes get __copy__ / __deepcopy__
        sc.update(["__add__", "__neg__", "__call__", "__iadd__", "__mul__", "__radd__", "__rmul__",
                   "__copy__", "__deepcopy__"])
        exp[pyc + "." + class_name_from_cpp("Inner_part", False)] = {"get_x", "getX", "__copy__", "__deepcopy__"}
        if ci in (0, 1):
            o = "m.%s()" % pyc
            ev.update({o + " + 5": repr(ci + 5), "-" + o: repr(-ci), o + "(7)": repr(ci * 7), o + " == " + o: "True",
                       o + " * 3": repr(ci * 3), o + " < " + o: "False", o + " != " + o: "False", o + ".get_items()": "(0, 1, 4)", o + ".getItems()": "(0, 1, 4)",
                       o + ".value": repr(ci), o + ".read_only_prop": repr(ci), "m.%s.K_very_large" % pyc: "11",
                       "m.%s.KVeryLarge" % pyc: "11", "m.%s.Inner_mode.IM_a.value" % pyc: "3",
                       "m.%s.Inner_part().get_x()" % pyc: "77", "m.%s.InnerPart().getX()" % pyc: "77",
                       "m.%s.static_method(4)" % pyc: "8", "m.%s.staticMethod(4)" % pyc: "8",
                       "(lambda o: (setattr(o, 'value', 31), o.get_value()))(%s)[1]" % o: "31",
                       "(lambda o: (o.__iadd__(4), o.value))(%s)[1]" % o: repr(ci + 4)})
    # comparison through compare_to, through operator == / <, and char return values
    H += ["class Ver {\nPUBLISHED:\n  explicit Ver(int v);\n  int compare_to(const Ver &o) const;\n  char get_char(int i) const;",
          "  unsigned char get_uchar(int i) const;\n  signed char get_schar(int i) const;\npublic:\n  int _v;\n};",
          "class Eq {\nPUBLISHED:\n  explicit Eq(int v);\n  bool operator == (const Eq &o) const;\n  bool operator < (const Eq &o) const;\npublic:\n  int _v;\n};"]
    X += ["Ver::Ver(int v) : _v(v) {}", "int Ver::compare_to(const Ver &o) const { return _v < o._v ? -1 : (_v > o._v ? 1 : 0); }",
          "char Ver::get_char(int i) const { return (char)i; }", "unsigned char Ver::get_uchar(int i) const { return (unsigned char)i; }",
          "signed char Ver::get_schar(int i) const { return (signed char)i; }", "Eq::Eq(int v) : _v(v) {}",
          "bool Eq::operator == (const Eq &o) const { return _v == o._v; }", "bool Eq::operator < (const Eq &o) const { return _v < o._v; }"]
    exp[""].update(["Ver", "Eq"])
    exp["Ver"] = {"compare_to", "compareTo", "get_char", "getChar", "get_uchar", "getUchar", "get_schar", "getSchar", "__copy__", "__deepcopy__"}
    exp["Eq"] = {"__copy__", "__deepcopy__"}
    ev.update({"m.Ver(5) < m.Ver(6)": "True", "m.Ver(5) >= m.Ver(6)": "False", "m.Ver(5) == m.Ver(5)": "True", "m.Ver(5) != m.Ver(5)": "False",
               "m.Ver(7).compare_to(m.Ver(5))": "1", "m.Ver(5) == 'x'": "False", "m.Ver(5) != 'x'": "True",
               "m.Eq(5) == m.Eq(5)": "True", "m.Eq(5) != m.Eq(6)": "True", "m.Eq(5) < m.Eq(6)": "True", "m.Eq(6) > m.Eq(5)": "True",
               "m.Eq(5) == 'x'": "False", "m.Eq(5) != None": "True", "m.Eq(5) < 'x'": "EXC TypeError",
               "m.Ver(1).get_char(65)": "'A'", "m.Ver(1).get_char(127)": "'\\x7f'", "m.Ver(1).get_uchar(200)": "200",
               "m.Ver(1).get_schar(-5)": "-5"})
    # an incomparable right-hand side must not get an ordering answer (NotImplemented -> TypeError)
    for e in ("m.Ver(5) < 'x'", "m.Ver(5) <= None", "m.Ver(5) > 3.5", "m.Ver(5) >= 'x'"):
        ev[e] = "EXC TypeError"
        EVAL_CLASSES[e] = "C02-compare-to-swallows-typeerror"
    # a char outside ASCII comes back as the one-character string of that code (as it is accepted)
    for e, v in (("m.Ver(1).get_char(128)", "'\\x80'"), ("m.Ver(1).get_char(233)", "'é'")):
        ev[e] = v
        EVAL_CLASSES[e] = "C02-char-return-non-ascii"
    return "\n".join(H) + "\n", "\n".join(X) + "\n", exp, ev


EVAL_CLASSES = {}          # expression of the names library -> finding class (the input is the expression)


def names_check(work, asan=False):
    """returns (list of disagreement texts, number of names compared, number of evaluations)"""
    name = "c02n"
    wd = os.path.join(work, name)
    os.makedirs(wd, exist_ok=True)
    h, x, exp, ev = names_library()
    open(os.path.join(wd, "pub.h"), "w").write(pymod.PUBLISH_PRELUDE)
    open(os.path.join(wd, name + ".h"), "w").write('#pragma once\n#include "pub.h"\n' + h)
    open(os.path.join(wd, name + "_impl.cxx"), "w").write('#include "%s.h"\n' % name + x)
    pymod.build_module(wd, name, [name + ".h"], [name + "_impl.cxx"], asan=asan, jobs=3)
    script = dict(module=name, mode="names", classes=[c for c in exp if c], evals=sorted(ev))
    json.dump(script, open(os.path.join(wd, "script.json"), "w"))
    recs, rc, err = run_driver(wd, os.path.join(wd, "script.json"), os.path.join(wd, "out.ndjson"), asan=asan)
    bad = []
    if rc != 0:
        bad.append("the interpreter died (%s) while inspecting the names module: %s" % (rc, err[-300:]))
        return bad, 0, 0
    names = next(r["names"] for r in recs if "names" in r)
    vals = next(r["evals"] for r in recs if "evals" in r)
    n = 0
    for scope, want in sorted(exp.items()):
        got = names["module"] if scope == "" else names.get(scope)
        if got is None:
            bad.append("class %s is not reachable under its documented name" % scope)
            continue
        got = set(got) - (MODULE_RUNTIME if scope == "" else RUNTIME_NAMES)
        got = {g for g in got if not (scope and g.startswith("__") and g not in want and g in OBJECT_DUNDERS)}
        n += len(want)
        if got != want:
            bad.append("names of %s: missing %s, unexpected %s" % (scope or "the module", sorted(want - got), sorted(got - want)))
    for expr, want in sorted(ev.items()):
        got = vals.get(expr)
        if not (got.startswith(want) if want.startswith("EXC ") and got else got == want):
            bad.append(("%s evaluates to %s, expected %s" % (expr, got, want), expr))
    return bad, n, len(ev)


OBJECT_DUNDERS = set(dir(object)) | {"__dict__", "__module__", "__weakref__", "__doc__", "__getstate__"}


# ---- tiny modules that show a generated-code defect by failing to build ------------------------------
PROBES = {
    "C02-string-manifest-uncompilable": (
        '__begin_publish\n#define names_title "abc"\nint probe_f(int v);\n__end_publish\n',
        "int probe_f(int v) { return v; }\n", {"m.names_title": ("'abc'", "'\"abc\"'"), "m.probe_f(2)": ("2",)}),
    "C02-reference-default-call-uncompilable": (
        "class PA {\nPUBLISHED:\n  PA();\n  static PA &gref();\n  int take(PA &other = PA::gref());\n  int get_v() const;\npublic:\n  int _v;\n};\n",
        "PA::PA() : _v(5) {}\nPA &PA::gref() { static PA x; return x; }\nint PA::take(PA &o) { return o._v; }\nint PA::get_v() const { return _v; }\n",
        {"m.PA().take()": ("5",), "m.PA().take(m.PA())": ("5",)}),
    "C02-char-default-ignored": (
        "class CH {\nPUBLISHED:\n  CH();\n  int f(char c = '\\n');\n  int h(int a, char c = 'x');\n};\n",
        "CH::CH() {}\nint CH::f(char c) { return (int)c; }\nint CH::h(int a, char c) { return (int)c; }\n",
        {"m.CH().f()": ("10",), "m.CH().h(1)": ("120",), "m.CH().f('a')": ("97",)}),
    "C02-scoped-enum-wrong-type-attributeerror": (
        "__begin_publish\nenum class Mode { M_a = 1, M_b = 2 };\n__end_publish\nclass EM {\nPUBLISHED:\n  EM();\n  int take_mode(Mode m) const;\n};\n",
        "EM::EM() {}\nint EM::take_mode(Mode m) const { return (int)m; }\n",
        {"m.EM().take_mode(m.Mode.M_b)": ("2",), "m.EM().take_mode(1)": ("EXC TypeError",), "m.EM().take_mode('x')": ("EXC TypeError",),
         "m.EM().take_mode(None)": ("EXC TypeError",)}),
    "C02-scoped-enum-other-enum-accepted": (
        "__begin_publish\nenum class Mode { M_a = 1, M_b = 2 };\nenum class Other { O_a = 1, O_z = 9 };\n__end_publish\n"
        "class EO {\nPUBLISHED:\n  EO();\n  int take_mode(Mode m) const;\n};\n",
        "EO::EO() {}\nint EO::take_mode(Mode m) const { return (int)m; }\n",
        {"m.EO().take_mode(m.Mode.M_a)": ("1",), "m.EO().take_mode(m.Other.O_z)": ("EXC TypeError",)}),
    "C02-unpublished-scoped-enum-uncompilable": (
        "enum class Mode { M_a = 1, M_b = 2 };\nclass EN {\nPUBLISHED:\n  EN();\n  Mode get_mode() const;\n};\n",
        "EN::EN() {}\nMode EN::get_mode() const { return Mode::M_b; }\n",
        {"int(m.EN().get_mode().value)": ("2",)}),
}


def probe_module(args):
    work, cid = args
    h, x, ev = PROBES[cid]
    name = "c02p" + str(sorted(PROBES).index(cid))
    wd = os.path.join(work, name)
    os.makedirs(wd, exist_ok=True)
    open(os.path.join(wd, "pub.h"), "w").write(pymod.PUBLISH_PRELUDE)
    open(os.path.join(wd, name + ".h"), "w").write('#pragma once\n#include "pub.h"\n' + h)
    open(os.path.join(wd, name + "_impl.cxx"), "w").write('#include "%s.h"\n' % name + x)
    try:
        pymod.build_module(wd, name, [name + ".h"], [name + "_impl.cxx"], jobs=2)
    except pymod.PymodError as e:
        return cid, ["the generated module does not build (%s): %s" % (e.stage, " ".join(e.detail.split())[-400:])], h
    json.dump(dict(module=name, mode="names", classes=[], evals=sorted(ev)), open(os.path.join(wd, "script.json"), "w"))
    recs, rc, err = run_driver(wd, os.path.join(wd, "script.json"), os.path.join(wd, "out.ndjson"))
    if rc != 0:
        return cid, ["the interpreter died (%s): %s" % (rc, err[-300:])], h
    vals = next(r["evals"] for r in recs if "evals" in r)
    ok = lambda got, want: any((got or "").startswith(w) if w.startswith("EXC ") else got == w for w in want)
    return cid, ["%s evaluates to %s, expected one of %s" % (k, (vals.get(k) or "")[:120], v) for k, v in ev.items() if not ok(vals.get(k), v)], h


# ---- selection of the sets that are replayed ---------------------------------------------------------------
def O(p, d=0, k=False):
    return dict(p=list(p), d=d, k=k)


# sets that are always replayed (each anchors one mechanism: the sort ranks, a range check, default
# collapsing, the count switch, const dispatch, derived-to-base ranking)
ANCHORS = [
    dict(kind="method", nm="same", ov=[O(["i32"]), O(["f64"])]),
    dict(kind="method", nm="same", ov=[O(["i32"]), O(["f64"]), O(["str"])]),
    dict(kind="static", nm="same", ov=[O(["u8"]), O(["str"])]),
    dict(kind="method", nm="same", ov=[O(["u8"])]),
    dict(kind="method", nm="same", ov=[O(["u8"], 1)]),
    dict(kind="method", nm="same", ov=[O(["i8"]), O(["f32"])]),
    dict(kind="method", nm="same", ov=[O(["u16"]), O(["cA"])]),
    dict(kind="method", nm="same", ov=[O(["i16", "str"], 1), O(["f64", "cA"], 1)]),
    dict(kind="method", nm="same", ov=[O(["i32", "i32"], 1), O(["str"])]),
    dict(kind="static", nm="same", ov=[O([]), O(["i32", "f64"], 1), O(["str", "str"])]),
    dict(kind="method", nm="same", ov=[O(["cA"]), O(["cB"])]),
    dict(kind="method", nm="same", ov=[O(["rA"]), O(["cB"])]),
    dict(kind="method", nm="same", ov=[O(["rA", "i32"], 1), O(["rB", "i32"], 1)]),
    dict(kind="method", nm="same", ov=[O(["i32"]), O(["i32"], 0, True)]),
    dict(kind="method", nm="same", ov=[O(["i32"], 1), O(["f64"], 1, True)]),
    dict(kind="method", nm="same", ov=[O(["str"], 0, True), O(["rA"])]),
    dict(kind="method", nm="same", ov=[O(["u32"]), O(["f64"])]),
    dict(kind="method", nm="same", ov=[O(["i64"]), O(["str"])]),
    dict(kind="method", nm="same", ov=[O(["u64", "str"]), O(["f64", "f64"])]),
    dict(kind="static", nm="same", ov=[O(["il"]), O(["bool", "bool"])]),
    dict(kind="method", nm="same", ov=[O(["ul"], 1), O(["cB", "str"], 1)]),
    dict(kind="method", nm="same", ov=[O(["f32", "bool"], 1)]),
    dict(kind="method", nm="same", ov=[O(["bool"]), O(["str", "i8"])]),
    # the three-level chain A <- B <- D (each twice: once per class-name family / declaration order)
    dict(kind="method", nm="same", ov=[O(["cB"]), O(["cD"])]),
    dict(kind="static", nm="alt", ov=[O(["cB"]), O(["cD"])]),
    dict(kind="method", nm="same", ov=[O(["cA"]), O(["cB"]), O(["cD"])]),
    dict(kind="static", nm="alt", ov=[O(["cA"]), O(["cB"]), O(["cD"])]),
    dict(kind="method", nm="alt", ov=[O(["rB", "i32"], 1), O(["rD", "i32"], 1)]),
    dict(kind="static", nm="same", ov=[O(["rB", "i32"], 1), O(["rD", "i32"], 1)]),
    dict(kind="static", nm="same", ov=[O(["rA"]), O(["rD"])]),
    dict(kind="method", nm="alt", ov=[O(["rA"]), O(["rD"])]),
    # keyword-capable functions with a one-parameter overload taking an instance
    dict(kind="method", nm="same", ov=[O(["cA"]), O(["i32", "str"])]),
    dict(kind="static", nm="alt", ov=[O(["cA"]), O(["i32", "str"])]),
    dict(kind="method", nm="alt", ov=[O(["rB"]), O(["cA", "f64"], 1)]),
    dict(kind="static", nm="same", ov=[O(["cB"], 1), O(["str", "bool"])]),
    # classes with converting constructors: explicit + implicit, implicit string, only explicit, two
    # implicit ones, by value, by pointer, among other overloads
    dict(kind="static", nm="same", ov=[O(["cM"])]),
    dict(kind="method", nm="same", ov=[O(["cT"])]),
    dict(kind="static", nm="same", ov=[O(["cE"])]),
    dict(kind="method", nm="same", ov=[O(["cW"])]),
    dict(kind="static", nm="same", ov=[O(["pM"])]),
    dict(kind="method", nm="same", ov=[O(["vM"])]),
    dict(kind="static", nm="alt", ov=[O(["cM"]), O(["str"])]),
    dict(kind="method", nm="alt", ov=[O(["cT"]), O(["f64"])]),
    dict(kind="method", nm="same", ov=[O(["cT", "i32"], 1), O(["cM", "str"])]),
    dict(kind="static", nm="alt", ov=[O(["str", "cM"]), O(["cT", "cM"])]),
    dict(kind="method", nm="same", ov=[O(["cW", "i32"], 1), O(["str"])]),
    dict(kind="static", nm="same", ov=[O(["cE"]), O(["cW"])]),
]


def set_key(s):
    return json.dumps(dict(kind=s["kind"], nm=s["nm"], ov=s["ov"]), sort_keys=True)


def signature(s):
    """coarse feature signature used to stratify the selection (input features only)"""
    cats = sorted(set(c for o in s["ov"] for c in o["p"]))
    coarse = sorted(set("int" if c in INTCATS else "flt" if c in ("f32", "f64") else "inst" if c[0] in "rc" and len(c) == 2 else c
                        for c in cats))
    return (s["kind"], s["nm"], len(s["ov"]), tuple(sorted(len(o["p"]) for o in s["ov"])), any(o["d"] for o in s["ov"]),
            any(o["k"] for o in s["ov"]), tuple(coarse))


def select_sets(dumped, cap):
    """ANCHORS first, then round-robin over the feature signatures of the sorted dump (fixed rule,
    independent of the seed)"""
    seen, out = set(), []
    for s in ANCHORS:
        seen.add(set_key(s))
        out.append(dict(kind=s["kind"], nm=s["nm"], ov=s["ov"]))
    buckets = {}
    for s in sorted(dumped, key=set_key):
        if set_key(s) not in seen:
            seen.add(set_key(s))
            buckets.setdefault(signature(s), []).append(s)
    keys = sorted(buckets)
    i = 0
    while len(out) < cap and keys:
        nxt = []
        for k in keys:
            b = buckets[k]
            # spread inside a bucket: take the middle, then the rest alternately
            out.append(b.pop(len(b) // 2))
            if b:
                nxt.append(k)
            if len(out) >= cap:
                break
        keys = nxt
        i += 1
    return out


def pick_native(rec, cap):
    """calls compiled natively for the spec-vs-g++ comparison: all of a small set, else every k-th"""
    n = len(rec["calls"])
    if n <= cap:
        return list(range(n))
    step = -(-n // cap)
    return list(range(0, n, step))


def show_set(rec):
    return rec["kind"] + " f: " + " | ".join(
        "(" + ", ".join(CTYPE[c].replace(" &", "&") + " " + param_name(rec["nm"], j, i) + (" =dflt" if i >= len(o["p"]) - o["d"] else "")
                        for i, c in enumerate(o["p"])) + ")" +
        (" const" if o["k"] else "") for j, o in enumerate(rec["ov"], 1))


ARG_TEXT = {"iM": "M()", "iT": "T()", "iE": "E()", "iW": "W()", "float": "2.5", "bool": "True", "str": "'aéz'", "bytes": "b'by'", "none": "None", "wrong": "object()",
            "iA": "A()", "iB": "B()", "iD": "D()", "iC": "C()", "kA": "A.cref()", "kB": "B.cref()"}


def show_call(call):
    a = ", ".join(((k + "=") if k else "") + (str(INTV[x["v"]]) if x["t"] == "int" else ARG_TEXT[x["t"]])
                  for k, x in zip(call["kw"], call["a"]))
    return {"nc": "obj", "c": "constobj", "na": "Cls"}[call["self"]] + ".f(" + a + ")"


FINDING_CLASSES = ["C02-int-error-ignored", "C02-unsigned-wraps", "C02-bytes-accepted-as-string", "C02-overflow-cleared",
                   "C02-bool-takes-number-overload", "C02-bool-shadows-const-overloads", "C02-longer-overload-first", "C02-extra-arguments-ignored",
                   "C02-convertible-overload-first", "C02-range-check-before-instance-check",
                   "C02-pointer-parameter-coerced", "C02-coercing-overload-first"]


def run_check(ctx):
    build.ensure("hooked")
    tier = ctx.tier
    quick = tier == "quick"
    work = ctx.tmp
    t_start = time.time()
    from concurrent.futures import ThreadPoolExecutor
    pool = ThreadPoolExecutor(max_workers=7)

    # ---- side jobs that do not depend on the dispatch enumeration run in the background -------------
    def objects_job():
        dump = os.path.join(work, "objects.ndjson")
        res = tlc.run("PyObjectsMC", "PyObjects_" + tier, workers=3, env={"VERIF_DUMP": dump}, timeout=1500)
        hists = tlc.read_dump(dump)
        hists.sort(key=lambda r: json.dumps(r, sort_keys=True))
        return res, hists
    def hobjects_job():
        dump = os.path.join(work, "hobjects.ndjson")
        res = tlc.run("PyObjectsHMC", "PyObjectsH_" + tier, workers=2, env={"VERIF_DUMP": dump}, timeout=1500)
        hh = tlc.read_dump(dump)
        hh.sort(key=lambda r: json.dumps(r, sort_keys=True))
        return res, hh
    def eobjects_job():
        dump = os.path.join(work, "eobjects.ndjson")
        res = tlc.run("PyObjectsMC", "PyObjects_empty", workers=2, env={"VERIF_DUMP": dump}, timeout=1500)
        eh = tlc.read_dump(dump)
        eh.sort(key=lambda r: json.dumps(r, sort_keys=True))
        return res, eh
    f_eobj = pool.submit(eobjects_job)
    f_hobj = pool.submit(hobjects_job)
    f_obj = pool.submit(objects_job)
    f_names = pool.submit(names_check, work)
    f_probes = [pool.submit(probe_module, (work, cid)) for cid in sorted(PROBES)]

    # ---- 1. TLC: enumerate the overload sets, check the refinement on every call of every set -------
    dumped = []
    cfgs = ["PyDispatch_quick1", "PyDispatch_quick2", "PyDispatch_quick3", "PyDispatch_quick4", "PyDispatch_quick5"] if quick else \
           ["PyDispatch_thorough1", "PyDispatch_thorough2", "PyDispatch_thorough3", "PyDispatch_quick4", "PyDispatch_quick5"]

    def tlc_job(cfg):
        dump = os.path.join(work, cfg + ".ndjson")
        res = tlc.run("PyDispatchMC", cfg, workers=2 if quick else 4, env=dict(fix_env(), VERIF_DUMP=dump), timeout=2400)
        return res, tlc.read_dump(dump)
    for res, recs in run.pmap(tlc_job, cfgs, workers=5 if quick else 3):
        ctx.add_tlc(res)
        if res.verdict == "invariant":
            raise MachineryError("PyDispatch: %s violated: the mechanism model does not refine the reference outside the "
                                 "listed deviation classes\n%s" % (res.violated, res.out[-2500:]))
        tlc.must_ok(res)
        dumped += recs
    uniq = {set_key(s): s for s in dumped}
    n_sets_enumerated = len(uniq)
    cap = 165 if quick else 1200
    chosen = select_sets(list(uniq.values()), cap)

    # ---- 2. TLC evaluates the spec on the chosen sets: every call with its reference result ---------
    res, ev = eval_sets(work, chosen, workers=6)
    ctx.add_tlc(res)
    if res.verdict == "invariant":
        raise MachineryError("PyDispatchEval: %s violated\n%s" % (res.violated, res.out[-2500:]))
    tlc.must_ok(res)
    if any(not e["calls"] for e in ev):
        raise MachineryError("PyDispatchEval produced no calls for some chosen set")
    ssets = list(enumerate(ev))
    per = 25 if quick else 40
    batches = [ssets[i:i + per] for i in range(0, len(ssets), per)]
    jobs = [(work, bi, b, {sid: pick_native(rec, 120 if quick else 60) for sid, rec in b}, False) for bi, b in enumerate(batches)]
    results = run.pmap(dispatch_batch, jobs, workers=3)

    # ---- 3. judge ------------------------------------------------------------------------------------
    prec = {c: [0, 0] for c in FINDING_CLASSES}
    coarse = {c: [0, 0] for c in FINDING_CLASSES}
    n_calls = n_native = n_claim = 0
    model_miss = []
    distinct = set()
    for r in results:
        b = batches[r["bi"]]
        if "build_error" in r:
            ctx.violation("a generated class library does not build (%s): %s" % r["build_error"],
                          dict(batch=r["bi"], sets=[show_set(rec) for _, rec in b], error=r["build_error"]))
            continue
        if "native_error" in r:
            raise MachineryError("g++ rejects the native sanity program of batch %d:\n%s" % (r["bi"], r["native_error"]))
        for sid, rec in b:
            for n, call in enumerate(rec["calls"]):
                nat = r["native"].get((sid, n))
                if nat is not None:
                    n_native += 1
                    if not native_agrees(call, nat):
                        raise MachineryError("spec != g++: %s ; %s with C++ argument types %s: CppSelect = %s, g++ ran %r" % (
                            show_set(rec), show_call(call), call["ct"], call["cpp"], nat))
        if not r["finished"]:
            at = r.get("last_at")
            where = "step %r of the driver" % (at,)
            if isinstance(at, list):
                rec = dict(b)[at[0]]
                where = "%s ; %s" % (show_set(rec), show_call(rec["calls"][at[1]]))
            ctx.violation("the interpreter died (%s) during %s" % (r["rc"], where),
                          dict(batch=r["bi"], rc=r["rc"], at=at, where=where, stderr=r["stderr"][-1500:]))
            continue
        for sid, rec in b:
            for n, call in enumerate(rec["calls"]):
                o = r["obs"].get((sid, n))
                if o is None:
                    ctx.violation("no observation for %s ; %s" % (show_set(rec), show_call(call)), dict(set=rec["ov"], call=call))
                    continue
                n_calls += 1
                n_claim += call["e"] != "none"
                if call["e"] == "run":
                    distinct.add((set_key(rec), call["self"], json.dumps(call["a"], sort_keys=True)))
                bad = judge_call(sid, rec, call, o, r["ids"][fam_of(sid)])
                # class membership (input only): the call is in a syntactic deviation class of the spec AND
                # the spec's mechanism model, evaluated on the input, does not give the reference result
                cls = call["dev"] if call["dis"] else []
                for c in call["dev"]:
                    coarse[c][1] += 1
                    coarse[c][0] += bool(bad)
                for c in cls:
                    prec[c][1] += 1
                    prec[c][0] += bool(bad)
                for what, det in bad:
                    ctx.violation("%s ; %s : %s" % (show_set(rec), show_call(call), det),
                                  dict(set=rec, call={k: call[k] for k in ("a", "kw", "self", "e", "j", "ct")}, observed=o,
                                       stat_key="%s %s->%s %s" % (what, call["e"], observed_kind(o)[0], call["dev"])),
                                  classes=cls)
                if call["st"] != "gap" and not model_agrees(call, o):
                    model_miss.append("%s ; %s : model %s, observed %s" % (show_set(rec), show_call(call), call["m"], observed_kind(o)))
    # ---- 4. object histories ----------------------------------------------------------------------------
    res, hists = f_obj.result()
    ctx.add_tlc(res)
    if res.verdict == "invariant":
        raise MachineryError("PyObjects: invariant %s violated by the reference model\n%s" % (res.violated, res.out[-2500:]))
    tlc.must_ok(res)
    n_hist_enumerated = len(hists)
    hcap = 300 if quick else 6000
    if len(hists) > hcap:
        step = -(-len(hists) // hcap)
        hists = hists[::step]
        ctx.notes["histories_sampled"] = "every %d-th of the %d sorted complete histories" % (step, n_hist_enumerated)
    hl = list(enumerate(hists))
    n_hist = judge_histories(ctx, work, "c02o", hl, False)
    if not quick:
        dump = os.path.join(work, "objects_sim.ndjson")
        res = tlc.run("PyObjectsMC", "PyObjects_sim", workers=1, env={"VERIF_DUMP": dump}, simulate=1500, depth=26, timeout=1500)
        ctx.add_tlc(res)
        if res.verdict == "invariant":
            raise MachineryError("PyObjects (simulation): invariant %s violated\n%s" % (res.violated, res.out[-2500:]))
        tlc.must_ok(res)
        sim = tlc.read_dump(dump)
        sim.sort(key=lambda r: json.dumps(r, sort_keys=True))
        n_hist += judge_histories(ctx, work, "c02os", list(enumerate(sim[:3000])), False)
        # the same histories with the extension built with -fsanitize=address
        if pymod.asan_runtime():
            n_hist += judge_histories(ctx, work, "c02oa", hl, True)
            ctx.notes["asan"] = "object histories repeated with -fsanitize=address (LD_PRELOAD libasan, detect_leaks=0)"
        else:
            ctx.notes["asan"] = "no libasan.so found: ASan repetition skipped"

    # ---- 4b. helper objects created by the runtime (PyObjectsH) ------------------------------------------
    res, hh = f_hobj.result()
    ctx.add_tlc(res)
    if res.verdict == "invariant":
        raise MachineryError("PyObjectsH: invariant %s violated by the reference model\n%s" % (res.violated, res.out[-2500:]))
    tlc.must_ok(res)
    n_hh_enumerated = len(hh)
    n_hh = judge_hhistories(ctx, work, "c02h", list(enumerate(hh)), False, prec)
    if not quick:
        dump = os.path.join(work, "hobjects_sim.ndjson")
        res = tlc.run("PyObjectsHMC", "PyObjectsH_sim", workers=1, env={"VERIF_DUMP": dump}, simulate=800, depth=24, timeout=1500)
        ctx.add_tlc(res)
        if res.verdict == "invariant":
            raise MachineryError("PyObjectsH (simulation): invariant %s violated\n%s" % (res.violated, res.out[-2500:]))
        tlc.must_ok(res)
        sim = tlc.read_dump(dump)
        sim.sort(key=lambda r: json.dumps(r, sort_keys=True))
        n_hh += judge_hhistories(ctx, work, "c02hs", list(enumerate(sim)), False, prec)
        if pymod.asan_runtime():
            n_hh += judge_hhistories(ctx, work, "c02ha", list(enumerate(hh)), True, prec)
    n_hist += n_hh

    # ---- 4c. wrappers without a C++ object, __init__ run again (PyObjects_empty) -----------------------
    res, eh = f_eobj.result()
    ctx.add_tlc(res)
    if res.verdict == "invariant":
        raise MachineryError("PyObjects (empty wrappers): invariant %s violated by the reference model\n%s" % (res.violated, res.out[-2500:]))
    tlc.must_ok(res)
    n_eh = judge_ehistories(ctx, work, "c02e", list(enumerate(eh)), False, prec)
    if not quick and pymod.asan_runtime():
        n_eh += judge_ehistories(ctx, work, "c02ea", list(enumerate(eh)), True, prec)
    n_hist += n_eh
    ctx.notes.update(empty_wrapper_histories_enumerated=len(eh), empty_wrapper_histories_replayed=n_eh)

    # ---- 4b. item access (spec PySeqItem): o[i], o[i] = v on classes with size()/operator[] and MAKE_SEQ_PROPERTY ----
    from ._c02_seqitem import run_part as seqitem_part
    sq = seqitem_part(ctx, work)
    # ---- 5. names, probes ----------------------------------------------------------------------------------
    try:
        bad, n_names, n_evals = f_names.result()
    except pymod.PymodError as e:
        bad, n_names, n_evals = ["the names library does not build (%s): %s" % (e.stage, e.detail[-800:])], 0, 0
    failed_exprs = set(b[1] for b in bad if isinstance(b, tuple))
    for expr, cid in EVAL_CLASSES.items():
        prec.setdefault(cid, [0, 0])
        prec[cid][1] += 1
        prec[cid][0] += expr in failed_exprs
    for b in bad:
        text, expr = b if isinstance(b, tuple) else (b, None)
        ctx.violation("names: " + text, dict(what=text, stat_key="names"), classes=[EVAL_CLASSES[expr]] if expr in EVAL_CLASSES else [])
    for f in f_probes:
        cid, bad, hdr = f.result()
        prec.setdefault(cid, [0, 0])
        prec[cid][1] += 1
        prec[cid][0] += bool(bad)
        for b in bad:
            ctx.violation("%s: %s" % (cid, b), dict(header=hdr, what=b, stat_key=cid), classes=[cid])
    pool.shutdown()

    ctx.cov["evaluations"] = n_calls + n_hist + n_names + n_evals + sq.get("steps", 0)
    ctx.cov["traces_validated_against_impl"] = n_calls + n_hist + sq.get("histories", 0)
    ctx.cov["distinct_nontrivial"] = len(distinct) + n_hist
    ctx.cov["exhaustive"] = False
    ctx.cov["rule"] = ("TLC enumerates every overload set of the configured alphabets (<= 3 overloads x 1 parameter over all 20 "
                       "parameter categories, <= 2 overloads x 2 parameters and <= 3 x 2 over reduced alphabets; methods, const "
                       "methods, static functions; trailing defaults) and checks PySelect = Expected on every call tuple of "
                       "every set; a fixed stratified selection of the sets is replayed completely on built extension modules; "
                       "distinct = distinct (set, call) pairs on which the property demands a specific overload to run (non-trivial: "
                       "resolution had to pick among overloads or convert), plus replayed object histories (each uses a returned "
                       "wrapper); exhaustive only with respect to TLC, the replay is a selection")
    ctx.notes.update(sets_enumerated=n_sets_enumerated, sets_replayed=len(chosen), modules_built=len(batches) + 2 + len(PROBES),
                     calls_replayed=n_calls, calls_with_claim=n_claim, calls_compiled_natively=n_native,
                     histories_enumerated=n_hist_enumerated, histories_replayed=n_hist,
                     helper_histories_enumerated=n_hh_enumerated, helper_histories_replayed=n_hh, names_compared=n_names,
                     name_evaluations=n_evals, finding_class_failed_of_members=prec,
                     syntactic_class_failed_of_members=coarse,
                     mechanism_model_mismatches=len(model_miss), mechanism_model_mismatch_examples=model_miss[:5])
    for sid, rec in ssets[:: max(1, len(ssets) // 4)][:4]:
        c = next((c for c in rec["calls"] if c["e"] == "run"), rec["calls"][0])
        ctx.sample(dict(overloads=show_set(rec), call=show_call(c), expected=c["e"], overload=c["j"], cpp_types=c["ct"]))
    if hl:
        ctx.sample(dict(history=[[s["op"], s["w"], s["src"]] for s in hl[len(hl) // 2][1]["steps"]]))


def judge_ehistories(ctx, work, name, hl, asan, prec):
    r = objects_batch((work, name, hl, asan, True))
    if "build_error" in r:
        ctx.violation("the object library does not build (%s): %s" % r["build_error"], dict(error=r["build_error"]))
        return 0
    show = lambda h: [[s["op"], s["w"], s["src"]] for s in h["steps"]]
    if not r["finished"]:          # a dead interpreter is never covered by a finding class
        at = r.get("last_at")
        h = dict(hl).get(at[1]) if isinstance(at, list) and len(at) == 2 else None
        ctx.violation("the interpreter died (%s)%s during the history %s (wrappers without a C++ object are probed after every step)" % (
            r["rc"], " under ASan" if asan else "", show(h) if h else at), dict(rc=r["rc"], at=at, stderr=r["stderr"][-2500:], asan=asan))
    n = 0
    for hid, h in hl:
        o = r["obs"].get(hid)
        if o is None:
            continue
        n += 1
        bad = judge_ehistory(h, o)
        failed = set(c for _, cls in bad for c in cls)
        for c in eclasses_of(h):
            prec.setdefault(c, [0, 0])
            prec[c][1] += 1
            prec[c][0] += c in failed
        for b, cls in bad:
            ctx.violation("object history %s: %s" % (show(h), b), dict(history=h["steps"], observed=o, asan=asan, stat_key="empty %s" % cls),
                          classes=cls)
    return n


def judge_hhistories(ctx, work, name, hl, asan, prec):
    r = helpers_batch((work, name, hl, asan))
    if "build_error" in r:
        ctx.violation("the object library with helper-creating properties does not build (%s): %s" % r["build_error"], dict(error=r["build_error"]))
        return 0
    show = lambda h: [[s["op"], s["a"], s["b"]] for s in h["steps"]]
    for cr in r["crashes"]:           # a dead interpreter is never covered by a finding class
        at = cr["at"]
        h = dict(hl).get(at[1]) if isinstance(at, list) and len(at) == 2 else None
        ctx.violation("the interpreter died (%s)%s during the helper history %s" % (cr["rc"], " under ASan" if asan else "", show(h) if h else at),
                      dict(rc=cr["rc"], at=at, stderr=cr["stderr"][-2500:], asan=asan))
    n = 0
    for hid, h in hl:
        o = r["obs"].get(hid)
        if o is None:
            continue
        n += 1
        bad = judge_hhistory(h, o)
        failed = set(c for _, cls in bad for c in cls)
        for c in hclasses_of(h):
            prec.setdefault(c, [0, 0])
            prec[c][1] += 1
            prec[c][0] += c in failed
        for b, cls in bad:
            ctx.violation("helper history %s: %s" % (show(h), b), dict(history=h["steps"], observed=o, asan=asan, stat_key="helpers %s" % cls),
                          classes=cls)
    return n


def judge_histories(ctx, work, name, hl, asan):
    r = objects_batch((work, name, hl, asan))
    if "build_error" in r:
        ctx.violation("the object library does not build (%s): %s" % r["build_error"], dict(error=r["build_error"]))
        return 0
    n = 0
    if not r["finished"]:
        at = r.get("last_at")
        h = dict(hl).get(at[1]) if isinstance(at, list) and len(at) == 2 else None
        ctx.violation("the interpreter died (%s)%s during the history %s" % (
            r["rc"], " under ASan" if asan else "", [[s["op"], s["w"], s["src"]] for s in h["steps"]] if h else at),
            dict(rc=r["rc"], at=at, stderr=r["stderr"][-2500:], asan=asan))
    for hid, h in hl:
        o = r["obs"].get(hid)
        if o is None:
            continue
        n += 1
        for b in judge_history(h, o):
            ctx.violation("object history %s: %s" % ([[s["op"], s["w"], s["src"]] for s in h["steps"]], b),
                          dict(history=h["steps"], observed=o, asan=asan, stat_key="objects"))
    return n


# ---- helper objects (PyObjectsH) ------------------------------------------------------------------------------
DIRECT_KINDS = ("seq", "mseq", "copies", "map", "mmap", "bound", "keys", "mapiter")
H_CLASSES = ["C02-mapping-iter-leaks-owner", "C02-sequence-search-leaks-items", "C02-mapping-setitem-const-owner"]


def hhistory_script(name, hists):
    out = []
    for hid, hst in hists:
        steps = []
        for s in hst["steps"]:
            wr, hp = s["wr"], s["hp"]
            a = s["a"]
            kind = hp[a - 1]["kind"] if s["op"] in ("EvalProperty", "SetItem") and a else None
            uw = ["w%d" % (i + 1) for i, w in enumerate(wr) if w["ptr"] and w["held"] and s["alive"][w["ptr"] - 1]]
            uh = []
            for i, h in enumerate(hp):
                if h["kind"] in ("none", "iter", "mapiter") or not h["held"]:
                    continue
                ow = wr[h["on"] - 1]
                if not (ow["ptr"] and s["alive"][ow["ptr"] - 1]):
                    continue
                uh.append(["h%d" % (i + 1), h["kind"], not (h["kind"] in ("mseq", "mmap") and not ow["const"])])
            pre = "h" if s["op"] in ("EvalProperty", "EvalKeys", "Iter", "IterNext", "SetItem", "DropHelper") else "w"
            bpre = "w" if s["op"] in ("EvalProperty", "ReturnBorrowed", "ReturnConstRef") else "h"
            steps.append(dict(op=s["op"], a="%s%d" % (pre, a), b="%s%d" % (bpre, s["b"]), kind=kind, val=s["val"],
                              usable_w=uw, usable_h=uh))
        out.append(dict(id=hid, steps=steps))
    return dict(module=name, mode="helpers", histories=out)


def judge_hhistory(hst, o):
    """returns [(text, [finding classes from the input])]"""
    bad = []
    ident = {}
    leaky = False          # input predicate: an iterator over a mapping helper was created earlier
    for n, (s, ob) in enumerate(zip(hst["steps"], o["obs"])):
        wr, hp = s["wr"], s["hp"]
        tag = "step %d %s" % (n + 1, s["op"])
        base_cls = ["C02-mapping-iter-leaks-owner"] if leaky else []
        if s["op"] == "Iter" and hp[s["a"] - 1]["kind"] == "mapiter":
            leaky = True           # the leak shows when the iterator goes away: later steps
        want_exc = s["exc"] or None
        if ob["exc"] != want_exc:
            cls = list(base_cls)
            if s["op"] == "SetItem" and hp[s["a"] - 1]["kind"] == "mmap" and wr[hp[s["a"] - 1]["on"] - 1]["const"]:
                cls.append("C02-mapping-setitem-const-owner")      # the assignment itself, not only the probe
            bad.append(("%s: exception %s, expected %s" % (tag, ob["exc"], want_exc), cls))
        if s["op"] == "IterNext" and not s["exc"]:
            it = hp[s["a"] - 1]
            if it["kind"] == "mapiter":
                want = "abc"[s["val"] - 1]
            else:
                under = hp[it["via"] - 1]
                cell = s["cell"][wr[under["on"] - 1]["ptr"] - 1]
                want = "abc"[s["val"] - 1] if under["kind"] == "keys" else [cell, 1001, 1002][s["val"] - 1]
            if ob["val"] != want:
                bad.append(("%s: delivered %r, expected %r" % (tag, ob["val"], want), base_cls))
        if ob["cnt"] != [s["made"], s["died"]]:
            bad.append(("%s: constructed/destroyed %s, expected %s" % (tag, ob["cnt"], [s["made"], s["died"]]), base_cls))
        for i, w in enumerate(wr):
            k = "w%d" % (i + 1)
            if not (w["ptr"] and w["held"] and s["alive"][w["ptr"] - 1]):
                continue
            if k not in ob["w"]:
                bad.append(("%s: wrapper %s not observable" % (tag, k), base_cls))
                continue
            own, const, oid, drc, vals = ob["w"][k]
            cell = s["cell"][w["ptr"] - 1]
            if own != w["mem"] or const != w["const"]:
                bad.append(("%s: %s has this_ownership=%s this_const=%s, expected %s/%s" % (tag, k, own, const, w["mem"], w["const"]), base_cls))
            if ident.setdefault(w["ptr"], oid) != oid:
                bad.append(("%s: %s wraps another instance than before" % (tag, k), base_cls))
            want_rc = sum(1 for h in hp if h["kind"] in DIRECT_KINDS and h["on"] == i + 1)
            if drc != want_rc:
                bad.append(("%s: %d references to %s beyond its variable, %d helpers refer to it" % (tag, drc, k, want_rc), base_cls))
            if vals != [cell, 1001, 1002]:
                bad.append(("%s: %s.get_vals() = %s, expected %s" % (tag, k, vals, [cell, 1001, 1002]), base_cls))
        for i, h in enumerate(hp):
            k = "h%d" % (i + 1)
            if k not in ob["probes"]:
                continue
            r = ob["probes"][k]
            ow = wr[h["on"] - 1]
            cell = s["cell"][ow["ptr"] - 1]
            kind = h["kind"]
            want = {}
            cls = list(base_cls)
            if kind in ("seq", "mseq"):
                want = dict(len=3, items=[cell, 1001, 1002], search=[True, 1, 2], made=0, died=0)
            elif kind == "copies":
                m = 3 + (1 if cell == 0 else 3) + 3 + (1 if cell == 0 else 3)
                want = dict(len=3, items=[cell, 1001, 1002], search=[cell == 0, 1 if cell == 0 else 0, "found" if cell == 0 else "ValueError"],
                            made=m, died=m)
                cls.append("C02-sequence-search-leaks-items")
            elif kind in ("map", "mmap"):
                want = dict(len=3, items=[cell, 1001, 7], has=[True, False], missing="KeyError", made=0, died=0,
                            views=[["a", "b", "c"], [cell, 1001, 1002], [["a", cell], ["b", 1001], ["c", 1002]]])
            elif kind == "keys":
                want = dict(len=3, items=["a", "b", "c"], has=[True, False], made=0, died=0)
            elif kind == "bound":
                want = dict(items=[cell, 1001, 1002], made=0, died=0)
            ro = not (kind in ("mseq", "mmap") and not ow["const"])
            if ro and kind != "bound":
                want["ro"] = "TypeError"
                if kind == "mmap":
                    cls.append("C02-mapping-setitem-const-owner")
            want["drc"] = {q: 0 for q in r.get("drc", {})}
            diff = {q: (r.get(q), v) for q, v in want.items() if r.get(q) != v}
            if "exc" in r:
                diff["exc"] = (r["exc"], None)
            if diff:
                bad.append(("%s: probing helper %s (%s of w%d): observed/expected %s" % (tag, k, kind, h["on"], diff), cls))
    dl = [x for x in o["dlog"].split(",") if x]
    if len(dl) != len(set(dl)):
        bad.append(("an instance was destroyed twice: %s" % dl, []))
    return bad


def hclasses_of(hst):
    """finding classes a history belongs to (input only), for the precision figures"""
    out = set()
    for s in hst["steps"]:
        if s["op"] == "Iter" and s["hp"][s["a"] - 1]["kind"] == "mapiter":
            out.add("C02-mapping-iter-leaks-owner")
        for h in s["hp"]:
            if h["kind"] == "copies" and h["held"]:
                out.add("C02-sequence-search-leaks-items")
            if h["kind"] == "mmap" and h["held"] and s["wr"][h["on"] - 1]["const"]:
                out.add("C02-mapping-setitem-const-owner")
    return out


def helpers_batch(args):
    work, name, hists, asan = args
    res = dict(name=name)
    wd = os.path.join(work, name)
    try:
        build_objects_module(wd, name, asan=asan, helpers=True)
    except pymod.PymodError as e:
        res["build_error"] = (e.stage, e.detail[-3000:])
        return res
    # a history that kills the interpreter is reported and the remaining ones are run in a fresh
    # interpreter (at most a few times), so that one crash does not hide the other observations
    todo, obs, crashes = list(hists), {}, []
    for attempt in range(4):
        json.dump(hhistory_script(name, todo), open(os.path.join(wd, "script.json"), "w"))
        recs, rc, err = run_driver(wd, os.path.join(wd, "script.json"), os.path.join(wd, "out%d.ndjson" % attempt), asan=asan)
        obs.update({r["h"]: r for r in recs if "h" in r})
        if any("done" in r for r in recs):
            break
        at = next((r["at"] for r in reversed(recs) if "at" in r), None)
        crashes.append(dict(rc=rc, at=at, stderr=err))
        ids = [hid for hid, _ in todo]
        if not (isinstance(at, list) and len(at) == 2 and at[1] in ids):
            break
        todo = todo[ids.index(at[1]) + 1:]
        if not todo:
            break
    res.update(obs=obs, crashes=crashes)
    return res
