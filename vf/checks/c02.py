"""C02 — Python-native bindings dispatch, convert and own objects as C++ would.

specs PyDispatch (+MC, +Eval), PyObjects (+MC).  TLC enumerates overload sets and object
histories and carries the reference results; the renderer writes class libraries, vf/pymod builds
one extension module per batch (interrogate -python-native -> interrogate_module -> g++), a child
interpreter (harness/c02_driver.py) performs the calls; g++ compiles the same calls natively to
validate the reference (spec != g++ => MachineryError)."""
import json, os, subprocess, sys, time
from ..common import MachineryError, VERIF, HARNESS, NCPU
from .. import build, tlc, run, pymod

DRIVER = os.path.join(HARNESS, "c02_driver.py")
INTV = [None, -2**63 - 1, -2**63, -2**31 - 1, -2**31, -32769, -32768, -129, -128, -1, 0, 1, 127, 128, 255, 256,
        32767, 32768, 65535, 65536, 2**31 - 1, 2**31, 2**32 - 1, 2**32, 2**63 - 1, 2**63, 2**64 - 1, 2**64]
STR = "aéz"
CTYPE = {"i8": "signed char", "u8": "unsigned char", "i16": "short", "u16": "unsigned short", "i32": "int",
         "u32": "unsigned int", "il": "long", "ul": "unsigned long", "i64": "long long", "u64": "unsigned long long",
         "f32": "float", "f64": "double", "bool": "bool", "str": "const std::string &",
         "rA": "A &", "cA": "const A &", "rB": "B &", "cB": "const B &"}
INTCATS = ("i8", "u8", "i16", "u16", "i32", "u32", "il", "ul", "i64", "u64")
DEFAULT = {"f32": "1.5f", "f64": "1.5", "bool": "true", "str": '"dflt"', "rA": "g_a", "cA": "A::cref()",
           "rB": "g_b", "cB": "B::cref()"}
DEFLOG = {"f32": "1.5", "f64": "1.5", "bool": "T", "str": "dflt", "rA": "A#{A_gref}", "cA": "A#{A_cref}",
          "rB": "B#{B_gref}", "cB": "B#{B_cref}"}
CLASSES = ["A", "B", "D", "C"]          # Probe::live(k) index

COMMON_H = r'''
#include <string>
class Probe {
PUBLISHED:
  static std::string take_log();
  static int live(int k);
public:
  static void log(const std::string &s);
  static int counts[8];
};
class A {
PUBLISHED:
  A(); A(const A &o); virtual ~A();
  int get_id() const;
  static const A &cref();
  static A &gref();
public:
  int _id;
};
class B : public A {
PUBLISHED:
  B(); B(const B &o); virtual ~B();
  static const B &cref();
  static B &gref();
};
class D : public B {
PUBLISHED:
  D(); D(const D &o); virtual ~D();
};
extern A g_a;
extern B g_b;
class C {
PUBLISHED:
  C(); C(const C &o); ~C();
  int get_id() const;
public:
  int _id;
};
'''
COMMON_CXX = r'''
#include <vector>
#include <cstdio>
#include <type_traits>
static std::string the_log;
int Probe::counts[8] = {0};
static int next_id = 1;
void Probe::log(const std::string &s) { the_log += s; the_log += ";"; }
std::string Probe::take_log() { std::string r = the_log; the_log.clear(); return r; }
int Probe::live(int k) { return counts[k]; }
A::A() : _id(next_id++) { ++Probe::counts[0]; }
A::A(const A &o) : _id(next_id++) { ++Probe::counts[0]; }
A::~A() { --Probe::counts[0]; }
int A::get_id() const { return _id; }
const A &A::cref() { static A x; return x; }
A g_a;
B g_b;
A &A::gref() { return g_a; }
B::B() { ++Probe::counts[1]; }
B::B(const B &o) : A(o) { ++Probe::counts[1]; }
B::~B() { --Probe::counts[1]; }
const B &B::cref() { static B x; return x; }
B &B::gref() { return g_b; }
D::D() { ++Probe::counts[2]; }
D::D(const D &o) : B(o) { ++Probe::counts[2]; }
D::~D() { --Probe::counts[2]; }
C::C() : _id(next_id++) { ++Probe::counts[3]; }
C::C(const C &o) : _id(next_id++) { ++Probe::counts[3]; }
C::~C() { --Probe::counts[3]; }
int C::get_id() const { return _id; }
static std::string to_s(bool v) { return v ? "T" : "F"; }
static std::string to_s(double v) { char b[64]; snprintf(b, sizeof b, "%.17g", v); return b; }
static std::string to_s(float v) { return to_s((double)v); }
static std::string to_s(const std::string &v) { return v; }
static std::string to_s(const A &v) { return "A#" + std::to_string(v._id); }
static std::string to_s(const B &v) { return "B#" + std::to_string(v._id); }
template<class T, class = typename std::enable_if<std::is_integral<T>::value>::type>
static std::string to_s(T v) {
  if (std::is_signed<T>::value) return std::to_string((long long)v);
  return std::to_string((unsigned long long)v);
}
'''


def ret_type(o):
    if o["p"] and o["p"][0] in CTYPE and not o["p"][0].startswith(("r", "c")):
        c = o["p"][0]
        return "std::string" if c == "str" else CTYPE[c]
    return "int"


def render_sets(sets):
    """sets: list of (id, rec) with rec = {kind, ov:[{p,d,k}]}.  Returns (header text, source text)."""
    H, X = [], []
    for sid, rec in sets:
        cn = "S%d" % sid
        static = rec["kind"] == "static"
        H.append("class %s {\nPUBLISHED:\n  %s();\n  static const %s &cref();" % (cn, cn, cn))
        X.append("%s::%s() {}\nconst %s &%s::cref() { static %s x; return x; }" % (cn, cn, cn, cn, cn))
        for j, o in enumerate(rec["ov"], 1):
            ps, names = [], []
            np = len(o["p"])
            for i, c in enumerate(o["p"]):
                nm = "ab"[i]
                names.append(nm)
                dflt = ""
                if i >= np - o["d"]:
                    dflt = " = " + DEFAULT.get(c, "7")
                ps.append((CTYPE[c], nm, dflt))
            rt = ret_type(o)
            H.append("  %s%s f(%s)%s;" % ("static " if static else "", rt,
                                          ", ".join("%s %s%s" % (t, n, d) for t, n, d in ps),
                                          " const" if o["k"] else ""))
            logx = ' + "," + '.join("to_s(%s)" % n for n in names) if names else 'std::string()'
            body = 'Probe::log(std::string("%d.%d(") + %s + ")"); return %s;' % (sid, j, logx, ("a" if rt != "int" or (o["p"] and o["p"][0] == "i32") else str(j)))
            X.append("%s %s::f(%s)%s { %s }" % (rt, cn, ", ".join("%s %s" % (t, n) for t, n, d in ps),
                                                " const" if o["k"] else "", body))
        H.append("};")
    return "\n".join(H) + "\n", "\n".join(X) + "\n"


def arg_log(tok, pcat, ids):
    """text the instrumented body logs for Python argument tok received through parameter pcat"""
    t = tok[0]
    if t == "int":
        return str(INTV[tok[1]])
    if t == "bool":
        return "T"
    if t == "float":
        return "2.5"
    if t == "str":
        return STR
    return "%s#%d" % (pcat[1], ids[t])


def expected_log(sid, j, o, argtoks, ids):
    parts = []
    for i, c in enumerate(o["p"]):
        if i < len(argtoks):
            parts.append(arg_log(argtoks[i], c, ids))
        else:
            d = DEFLOG.get(c, "7")
            parts.append(d.format(**ids) if "{" in d else d)
    return "%d.%d(%s);" % (sid, j, ",".join(parts))


def expected_ret(j, o, argtoks):
    if not o["p"]:
        return j
    c = o["p"][0]
    if c in ("rA", "cA", "rB", "cB"):
        return j
    if argtoks:
        t = argtoks[0]
        return {"int": INTV[t[1]] if t[0] == "int" else None, "bool": True, "float": 2.5, "str": STR}[t[0]]
    return {"f32": 1.5, "f64": 1.5, "bool": True, "str": "dflt"}.get(c, 7)


# ---- native (g++) sanity program --------------------------------------------------------------
NATIVE_PRE = r'''
#include <utility>
#include <cstdio>
template<class T, class... Ar> struct CanM {
  template<class U> static auto t(int) -> decltype(std::declval<U>().f(std::declval<Ar>()...), std::true_type());
  template<class U> static std::false_type t(...);
  static const bool value = decltype(t<T>(0))::value;
};
template<class T, class... Ar> struct CanS {
  template<class U> static auto t(int) -> decltype(U::f(std::declval<Ar>()...), std::true_type());
  template<class U> static std::false_type t(...);
  static const bool value = decltype(t<T>(0))::value;
};
template<class T, class... Ar> void call_m(int s, int n, T &&obj, Ar &&... args) {
  if constexpr (CanM<T, Ar...>::value) { obj.f(std::forward<Ar>(args)...); printf("%d %d %s\n", s, n, Probe::take_log().c_str()); }
  else printf("%d %d NOCALL\n", s, n);
}
template<class T, class... Ar> void call_s(int s, int n, T *, Ar &&... args) {
  if constexpr (CanS<T, Ar...>::value) { T::f(std::forward<Ar>(args)...); printf("%d %d %s\n", s, n, Probe::take_log().c_str()); }
  else printf("%d %d NOCALL\n", s, n);
}
'''


def cpp_int(v):
    if v < -2**63 or v >= 2**64:
        return None
    if v == -2**63:
        return "(-9223372036854775807LL-1)"
    return "%dLL" % v if v < 2**63 else "%dULL" % v


def cpp_arg(tok, ct):
    """C++ expression of the argument type the spec assigned (ct), or None when C++ has no such argument"""
    t = tok[0]
    if t == "int":
        lit = cpp_int(INTV[tok[1]])
        if lit is None or ct not in CTYPE or ct not in INTCATS:
            return None
        return "(%s)(%s)" % (CTYPE[ct], lit)
    return {"bool": "true", "float": "2.5", "str": 'std::string("a\\xc3\\xa9z")', "iA": "a_obj", "iB": "b_obj",
            "iD": "d_obj", "iC": "c_obj", "kA": "ka_obj", "kB": "kb_obj"}.get(t)


def native_program(hdr, src, sets, picks):
    """picks: {sid: [call index]}: the calls compiled natively"""
    L = ['#include "%s"' % hdr, '#include "%s"' % src, NATIVE_PRE, "int main() {",
         "  A a_obj; B b_obj; D d_obj; C c_obj; const A &ka_obj = A::cref(); const B &kb_obj = B::cref();",
         "  Probe::take_log();"]
    n_lines = 0
    for sid, rec in sets:
        static = rec["kind"] == "static"
        if not static:
            L.append("  S%d s%d; const S%d &k%d = S%d::cref();" % (sid, sid, sid, sid, sid))
        for n in picks.get(sid, ()):
            call = rec["calls"][n]
            exprs = [cpp_arg(tok, ct) for tok, ct in zip(toks(call), call["ct"])]
            if any(e is None for e in exprs):
                continue
            if static:
                L.append("  call_s(%d, %d, (S%d *)0%s);" % (sid, n, sid, "".join(", " + e for e in exprs)))
            else:
                L.append("  call_m(%d, %d, %s%d%s);" % (sid, n, "s" if call["self"] == "nc" else "k", sid,
                                                      "".join(", " + e for e in exprs)))
            n_lines += 1
    L.append("  return 0;\n}")
    return "\n".join(L) + "\n", n_lines


# ---- building and driving -----------------------------------------------------------------------
def write_batch(work, name, sets):
    os.makedirs(work, exist_ok=True)
    h, x = render_sets(sets)
    open(os.path.join(work, "pub.h"), "w").write(pymod.PUBLISH_PRELUDE)
    open(os.path.join(work, name + ".h"), "w").write('#pragma once\n#include "pub.h"\n' + COMMON_H + h)
    open(os.path.join(work, name + "_impl.cxx"), "w").write('#include "%s.h"\n' % name + COMMON_CXX + x)


def run_driver(moddir, script, outp, asan=False, timeout=600):
    """returns (records, returncode, stderr tail); returncode < 0 = killed by a signal"""
    env = dict(os.environ)
    if asan:
        e = pymod.asan_env()
        if e is None:
            raise MachineryError("no libasan.so for the ASan tier")
        env.update(e)
    cmd = pymod.python_cmd() + [DRIVER, moddir, script, outp]
    try:
        p = subprocess.run(cmd, env=env, stdout=subprocess.PIPE, stderr=subprocess.PIPE, timeout=timeout)
        rc, err = p.returncode, p.stderr.decode("utf-8", "replace")[-3000:]
    except subprocess.TimeoutExpired:
        rc, err = "timeout", ""
    recs = []
    if os.path.exists(outp):
        for line in open(outp):
            try:
                recs.append(json.loads(line))
            except ValueError:
                pass
    return recs, rc, err


def toks(call):
    return [[a["t"], a["v"]] for a in call["a"]]


def dispatch_batch(args):
    """build one module for a batch of evaluated sets, run every call, run the native program.
    Returns dict(bi, obs={(sid, n): rec}, ids, native={(sid, n): log}, crash=...)"""
    work, bi, sets, picks, asan = args
    name = "c02d%d" % bi
    wd = os.path.join(work, name)
    write_batch(wd, name, sets)
    res = dict(bi=bi, name=name, wd=wd)
    t0 = time.time()
    try:
        pymod.build_module(wd, name, [name + ".h"], [name + "_impl.cxx"], asan=asan, jobs=3)
    except pymod.PymodError as e:
        res["build_error"] = (e.stage, e.detail[-3000:])
        return res
    res["t_build"] = time.time() - t0
    script = dict(module=name, mode="dispatch", nclasses=len(CLASSES),
                  sets=[dict(id=sid, kind=rec["kind"], calls=[[c["self"], toks(c)] for c in rec["calls"]])
                        for sid, rec in sets])
    json.dump(script, open(os.path.join(wd, "script.json"), "w"))
    recs, rc, err = run_driver(wd, os.path.join(wd, "script.json"), os.path.join(wd, "out.ndjson"), asan=asan)
    res["rc"], res["stderr"] = rc, err
    res["obs"] = {(r["s"], r["c"]): r for r in recs if "s" in r}
    res["ids"] = next((r["ids"] for r in recs if "ids" in r), None)
    res["last_at"] = next((r["at"] for r in reversed(recs) if "at" in r), None)
    res["finished"] = any("done" in r for r in recs)
    # native sanity
    prog, nl = native_program(name + ".h", name + "_impl.cxx", sets, picks)
    open(os.path.join(wd, "native.cxx"), "w").write(prog)
    t0 = time.time()
    r = subprocess.run(["g++", "-std=c++17", "-O0", "-w", "-I.", "native.cxx", "-o", "native.exe"], cwd=wd,
                       stdout=subprocess.PIPE, stderr=subprocess.PIPE, text=True)
    if r.returncode != 0:
        res["native_error"] = r.stderr[-3000:]
        return res
    out = subprocess.run(["./native.exe"], cwd=wd, stdout=subprocess.PIPE, text=True).stdout
    res["t_native"] = time.time() - t0
    nat = {}
    for line in out.splitlines():
        p = line.split(" ", 2)
        nat[(int(p[0]), int(p[1]))] = p[2] if len(p) > 2 else ""
    res["native"] = nat
    return res


def eval_sets(ctx_tmp, sets, tag="eval", workers=6):
    """phase 2: TLC evaluates the spec on the selected sets; returns the evaluated records in order"""
    sel = os.path.join(ctx_tmp, tag + "_sets.json")
    json.dump(sets, open(sel, "w"))
    dump = os.path.join(ctx_tmp, tag + "_calls.ndjson")
    if os.path.exists(dump):
        os.unlink(dump)
    res = tlc.run("PyDispatchEval", "PyDispatch_eval", workers=workers, env={"VERIF_SETS": sel, "VERIF_DUMP": dump}, timeout=1500)
    out = [dict(kind=s["kind"], ov=s["ov"], calls=[]) for s in sets]
    for r in tlc.read_dump(dump):
        out[r.pop("s") - 1]["calls"].append(r)
    for o in out:      # TLC may evaluate the constraint of a state more than once
        uniq = {json.dumps([c["self"], c["a"]], sort_keys=True): c for c in o["calls"]}
        o["calls"] = [uniq[k] for k in sorted(uniq)]
    return res, out


# ---- judging one call -------------------------------------------------------------------------------
def observed_kind(o):
    """projection of an observation to the spec's result alphabet: (kind, overload index)"""
    ran = [x for x in o["log"].split(";") if x]
    j = int(ran[0].split("(")[0].split(".")[1]) if ran else 0
    if o["exc"] is None:
        return ("run", j) if len(ran) == 1 else ("run%d" % len(ran), j)
    if ran:
        return (o["exc"] + "AfterRun", j)
    return (o["exc"], 0)


def judge_call(sid, rec, call, o, ids):
    """compare one observation with the reference carried by the dump.  Returns a list of
    (what, detail) disagreements (empty = agrees or no claim)."""
    bad = []
    kind, j = observed_kind(o)
    e = call["e"]
    argt = toks(call)
    heap_changed = any(o["dlive"]) or any(o["drc"]) or "own_changed" in o
    if e == "run":
        if (kind, j) != ("run", call["j"]):
            bad.append(("dispatch", "expected overload %d to run, observed %s/%d" % (call["j"], kind, j)))
        else:
            ov = rec["ov"][j - 1]
            want = expected_log(sid, j, ov, argt, ids)
            if o["log"] != want:
                bad.append(("argvalue", "overload %d received %r, expected %r" % (j, o["log"], want)))
            wr = expected_ret(j, ov, argt)
            if o.get("ret") != wr or type(o.get("ret")) is not type(wr):
                bad.append(("retvalue", "returned %r (%s), expected %r" % (o.get("ret"), o.get("rett"), wr)))
            if heap_changed:
                bad.append(("heap", "a plain call changed live counts %s / refcounts %s / ownership" % (o["dlive"], o["drc"])))
    elif e in ("TypeError", "OverflowError", "TypeOrOverflow"):
        allowed = ("TypeError", "OverflowError") if e == "TypeOrOverflow" else (e,)
        if kind not in allowed:
            bad.append(("error", "expected %s, observed %s/%d" % (e, kind, j)))
        elif heap_changed:
            bad.append(("heap", "a rejected call changed live counts %s / refcounts %s / ownership" % (o["dlive"], o["drc"])))
    else:       # no claim about the selection; still nothing may leak or crash
        if heap_changed:
            bad.append(("heap", "call changed live counts %s / refcounts %s / ownership" % (o["dlive"], o["drc"])))
    return bad


def model_agrees(call, o):
    """trace validation of the mechanism: is the observed outcome one the spec's PySelect allows?"""
    kind, j = observed_kind(o)
    for m in call["m"]:
        mk = {"runwrap": "run", "OverflowAfterRun": "OverflowErrorAfterRun"}.get(m["k"], m["k"])
        if mk == kind and (m["j"] == j or kind in ("TypeError", "OverflowError")):
            return True
    return False


def native_agrees(call, nat):
    """spec sanity: g++ selected the overload CppSelect predicts (or rejects the call when it predicts none)"""
    if nat is None:
        return True
    if nat == "NOCALL":
        return call["cpp"] <= 0
    ran = [x for x in nat.split(";") if x]
    return len(ran) == 1 and call["cpp"] == int(ran[0].split("(")[0].split(".")[1])


# ---- object histories (PyObjects) -----------------------------------------------------------------------
NODE_H = r'''
#include <string>
class Probe {
PUBLISHED:
  static std::string take_log();
  static std::string take_dlog();
  static int made();
  static int died();
  static void reset();
};
class Node {
PUBLISHED:
  Node();
  Node(const Node &copy);
  ~Node();
  Node make() const;
  Node *child();
  const Node &cchild() const;
  Node &me();
  static Node *global_ptr();
  void look(const Node *other);
  void touch();
  int peek() const;
  int get_id() const;
  int get_touched() const;
public:
  explicit Node(int is_static);
  int _id;
  int _touched;
  bool _counted;
  mutable Node *_child;
};
'''
NODE_CXX = r'''
static std::string the_log, the_dlog;
static int n_made = 0, n_died = 0, next_id = 1;
std::string Probe::take_log() { std::string r = the_log; the_log.clear(); return r; }
std::string Probe::take_dlog() { std::string r = the_dlog; the_dlog.clear(); return r; }
int Probe::made() { return n_made; }
int Probe::died() { return n_died; }
Node::Node() : _id(next_id++), _touched(0), _counted(true), _child(nullptr) { ++n_made; }
Node::Node(int) : _id(next_id++), _touched(0), _counted(false), _child(nullptr) {}
Node::Node(const Node &copy) : _id(next_id++), _touched(0), _counted(true), _child(nullptr) { ++n_made; }
Node::~Node() { if (_counted) { ++n_died; the_dlog += std::to_string(_id) + ","; } delete _child; _child = nullptr; }
Node Node::make() const { return Node(*this); }
Node *Node::child() { if (!_child) _child = new Node(); return _child; }
const Node &Node::cchild() const { if (!_child) _child = new Node(); return *_child; }
Node &Node::me() { return *this; }
Node *Node::global_ptr() { static Node g(1); return &g; }
void Probe::reset() { Node *g = Node::global_ptr(); g->_touched = 0; delete g->_child; g->_child = nullptr; the_log.clear(); the_dlog.clear(); }
void Node::look(const Node *other) { the_log += "look " + std::to_string(other->_id) + ";"; }
void Node::touch() { ++_touched; }
int Node::peek() const { return _touched; }
int Node::get_id() const { return _id; }
int Node::get_touched() const { return _touched; }
'''


def build_objects_module(work, name, asan=False):
    os.makedirs(work, exist_ok=True)
    open(os.path.join(work, "pub.h"), "w").write(pymod.PUBLISH_PRELUDE)
    open(os.path.join(work, name + ".h"), "w").write('#pragma once\n#include "pub.h"\n' + NODE_H)
    open(os.path.join(work, name + "_impl.cxx"), "w").write('#include "%s.h"\n' % name + NODE_CXX)
    return pymod.build_module(work, name, [name + ".h"], [name + "_impl.cxx"], asan=asan, jobs=3)


def history_script(name, hists):
    out = []
    for hid, h in hists:
        steps = []
        for s in h["steps"]:
            op = s["op"]
            if op in ("PyConstruct", "ReturnStatic"):
                steps.append([op, "w%d" % s["w"]])
            elif op in ("ReturnByValue", "ReturnBorrowed", "ReturnConstRef", "ReturnThis", "PassToCpp"):
                steps.append([op, "w%d" % s["w"], "w%d" % s["src"]])
            else:
                steps.append([op, "w%d" % s["w"]])
            # wrappers whose instance is dead must not be dereferenced, not even to observe them
            steps[-1] = dict(do=steps[-1], usable=["w%d" % (i + 1) for i, w in enumerate(s["wr"])
                                                    if w["ptr"] != 0 and s["alive"][w["ptr"] - 1]])
        out.append(dict(id=hid, steps=steps))
    return dict(module=name, mode="objects", histories=out)


def judge_history(h, o):
    """compare the observations of one history with the state the spec carries after every step"""
    bad = []
    ident = {}        # spec instance index -> observed id
    for n, (s, ob) in enumerate(zip(h["steps"], o["obs"])):
        want_exc = s["exc"] or None
        if ob["exc"] != want_exc:
            bad.append("step %d %s: exception %s, expected %s" % (n + 1, s["op"], ob["exc"], want_exc))
        if ob["made"] != s["made"] or ob["died"] != s["died"]:
            bad.append("step %d %s: constructed/destroyed %d/%d, expected %d/%d" % (n + 1, s["op"], ob["made"], ob["died"], s["made"], s["died"]))
        want_w = {"w%d" % (i + 1): w for i, w in enumerate(s["wr"]) if w["ptr"] != 0}
        if set(want_w) != set(ob["w"]):
            bad.append("step %d %s: live wrappers %s, expected %s" % (n + 1, s["op"], sorted(ob["w"]), sorted(want_w)))
            continue
        for k, w in want_w.items():
            own, const, oid, touched = ob["w"][k]
            if own != w["mem"] or const != w["const"]:
                bad.append("step %d %s: %s has this_ownership=%s this_const=%s, expected %s/%s" % (
                    n + 1, s["op"], k, own, const, w["mem"], w["const"]))
            if oid is None:         # dangling wrapper: only its own bits are observed
                continue
            if ident.setdefault(w["ptr"], oid) != oid:
                bad.append("step %d %s: %s wraps instance id %d, expected the instance with id %d" % (n + 1, s["op"], k, oid, ident[w["ptr"]]))
            if touched != s["touched"][w["ptr"] - 1]:
                bad.append("step %d %s: instance of %s was modified %d times, expected %d" % (n + 1, s["op"], k, touched, s["touched"][w["ptr"] - 1]))
        if len(set(ident.values())) != len(ident):
            bad.append("step %d %s: two instances of the history share one C++ object %s" % (n + 1, s["op"], ident))
    dl = [x for x in o["dlog"].split(",") if x]
    if len(dl) != len(set(dl)):
        bad.append("an instance was destroyed twice: %s" % dl)
    return bad


def objects_batch(args):
    work, name, hists, asan = args
    res = dict(name=name)
    try:
        build_objects_module(os.path.join(work, name), name, asan=asan)
    except pymod.PymodError as e:
        res["build_error"] = (e.stage, e.detail[-3000:])
        return res
    wd = os.path.join(work, name)
    json.dump(history_script(name, hists), open(os.path.join(wd, "script.json"), "w"))
    recs, rc, err = run_driver(wd, os.path.join(wd, "script.json"), os.path.join(wd, "out.ndjson"), asan=asan)
    res.update(rc=rc, stderr=err, obs={r["h"]: r for r in recs if "h" in r},
               last_at=next((r["at"] for r in reversed(recs) if "at" in r), None),
               finished=any("done" in r for r in recs))
    return res
