"""C06, class-template instantiation with NON-TYPE parameters: spec TemplNonType (TLC enumerates programs = default
arguments + member typedefs of three stratified class templates S<int N, class T>, W<class T, int N, int M>, U<int K>
+ namespace-scope typedefs of closed template-ids + one closed query such as W<char, left::width>::m2::m1;
Norm = the C++ rule: a non-type argument is its value, an array bound is a value > 0).  For every program and query:
  (0) spec sanity: g++ -std=c++17 -pedantic-errors confirms  is_same<query, Norm(query)>  — else exit 2;
  (1) parse_file must accept the templates (zero errors);
  (2) the type parse_file resolves the query to (its -p query interface), compiled by g++ at global scope,
      must be the same type as the query (the tool prints  S< (3 + 1), int >: g++ decides, never a string compare);
  (3) the prototype interrogate records in the database for  `query r();` / `query &r();` / `query *r();`  likewise.
The renderer varies what the spec is indifferent to: parameter names (distinct per template / the same N, T in all),
forward declarations carrying the default arguments, the named constants' namespaces.
Development driver: harness/c06_templnt_dev.py."""
import os, re, subprocess, random
from ..common import MachineryError
from .. import tlc, run, idb

KINDS = {"S": "ic", "W": "cii", "U": "i"}
ORDER = "SWU"
# parameter names per template; scheme 0 all distinct, 1 the same names in all templates (as real code does),
# 2 the same names at other positions (W's N is its third parameter, its M the second)
SCHEMES = [{"S": ("N", "T"), "W": ("A", "I", "J"), "U": ("K",)},
           {"S": ("N", "T"), "W": ("T", "N", "M"), "U": ("N",)},
           {"S": ("N", "T"), "W": ("T", "M", "N"), "U": ("M",)}]
# the named constants of the spec (ConstVal); cfg::N has the simple name of S's own parameter in every scheme
CONSTS = {"lw": "left%d::width", "rw": "right%d::width", "ld": "left%d::depth", "rd": "right%d::depth",
          "cn": "cfg%d::N", "sz": "sizeof(char)"}
PRELUDE = ("namespace left%d { const int width = 2; enum Side { depth = 3 }; } "
           "namespace right%d { const int width = 5; enum Side { depth = 1 }; } "
           "namespace cfg%d { const int N = 3; }")
ERRLINE = re.compile(r"^[^:\s]+:(\d+):\d+: error", re.M)
EXPR = ("k", "cst", "add", "sub", "mul", "neg")
OPS = {"add": "+", "sub": "-", "mul": "*"}


def scheme_of(n):
    return n % 3


def force_fwd(n):
    return (n // 3) % 2 == 0


def PNn(n):
    return SCHEMES[scheme_of(n)]


def gxx_bad_lines(work, fn, strict=False):
    """strict: ISO C++ only (-pedantic-errors; -w would silence those again): the spec's programs must be valid without
    extensions (g++ accepts char [0] otherwise)"""
    r = subprocess.run(["g++", "-std=c++17", "-fsyntax-only", "-fmax-errors=0"] + (["-pedantic-errors"] if strict else ["-w"]) + [fn], cwd=work,
                       stdout=subprocess.PIPE, stderr=subprocess.PIPE, text=True)
    if r.returncode == 0:
        return set(), ""
    return set(int(x) for x in ERRLINE.findall(r.stderr)), r.stderr


def rx(e, n, pn=None, top=True):
    """C++ text of an integer expression"""
    k = e[0]
    if k == "k":
        return str(e[1]) if (top or e[1] >= 0) else "(%d)" % e[1]
    if k == "p":
        return pn[e[1] - 1]
    if k == "cst":
        c = CONSTS[e[1]]
        return c % n if "%d" in c else c
    if k == "neg":
        return "-" + rx(e[1], n, pn, False)
    if k in OPS:
        s = "%s %s %s" % (rx(e[1], n, pn, False), OPS[k], rx(e[2], n, pn, False))
        return s if top else "(" + s + ")"
    raise MachineryError("unknown expression %r" % (e,))


def qual(t, n, pn, body):
    """text of a template-id / typedef name / projection chain (no typename)"""
    k = t[0]
    if k == "t":
        args = [rx(a, n, pn) if KINDS[t[1]][i] == "i" else rt(a, n, pn, body) for i, a in enumerate(t[2])]
        return "%s%d< %s >" % (t[1], n, ", ".join(args))
    if k == "g":
        return "g%d_%d" % (n, t[1])
    if k == "m":
        return qual(t[1], n, pn, body) + "::" + t[2]
    raise MachineryError("projection out of %r" % (t,))


def rd(t, n, pn=None, inner="", body=False):
    """C++ declaration of `inner` (a declarator core: a name, or empty for a type-id) with type t"""
    k = t[0]
    if k in ("b", "p", "own", "t", "g", "m"):
        if k == "b":
            s = t[1]
        elif k == "p":
            s = pn[t[1] - 1]
        elif k == "own":
            s = t[1]
        elif k == "m":
            s = ("typename " if body else "") + qual(t, n, pn, body)
        else:
            s = qual(t, n, pn, body)
        return (s + " " + inner).rstrip()
    if k == "ptr":
        return rd(t[1], n, pn, "*" + inner, body)
    if k == "ref":
        return rd(t[1], n, pn, "&" + inner, body)
    if k in ("arr", "fn"):
        if inner[:1] in ("*", "&"):
            inner = "(" + inner + ")"
        if k == "arr":
            return rd(t[1], n, pn, inner + "[" + rx(t[2], n, pn) + "]", body)
        return rd(t[1], n, pn, inner + "(" + rd(t[2], n, pn, "", body) + ")", body)
    raise MachineryError("unknown term %r" % (t,))


def rt(t, n, pn=None, body=False):
    return rd(t, n, pn, "", body)


def tmpls(t):
    """templates named in a term"""
    k = t[0]
    if k in ("ptr", "ref", "m", "neg"):
        return tmpls(t[1])
    if k in ("arr", "fn", "add", "sub", "mul"):
        return tmpls(t[1]) | tmpls(t[2])
    if k == "t":
        out = {t[1]}
        for a in t[2]:
            out |= tmpls(a)
        return out
    return set()


def has_dflt(dflt):
    return any(d[0] != "none" for T in dflt for d in dflt[T])


def render_prog(n, prog):
    dflt, defs, uses = prog
    PN = PNn(n)
    need_fwd = force_fwd(n)
    for T in ORDER:
        for s in ("m1", "m2"):
            b = defs[T][s]
            if b[0] != "none" and any(ORDER.index(V) > ORDER.index(T) for V in tmpls(b)):
                need_fwd = True
        for d in dflt[T]:
            if d[0] != "none" and tmpls(d):
                need_fwd = True

    def head(T, with_dflt):
        ps = []
        for i, kd in enumerate(KINDS[T]):
            d = dflt[T][i]
            dtxt = ""
            if with_dflt and d[0] != "none":
                dtxt = " = " + (rx(d, n, PN[T]) if kd == "i" else rt(d, n, PN[T], True))
            ps.append(("int " if kd == "i" else "class ") + PN[T][i] + dtxt)
        return "template<%s> struct %s%d" % (", ".join(ps), T, n)
    out = [PRELUDE % (n, n, n)]
    if need_fwd:
        # the default arguments are on the first declaration; one that names a template needs that one declared first
        for T in ORDER:
            if any(d[0] != "none" and tmpls(d) for d in dflt[T]):
                for V in ORDER:
                    if V != T:
                        out.append("template<%s> struct %s%d;" % (", ".join("int" if kd == "i" else "class" for kd in KINDS[V]), V, n))
        for T in ORDER:
            out.append(head(T, True) + ";")
    for T in ORDER:
        body = " ".join("typedef %s;" % rd(defs[T][s], n, PN[T], s, True) for s in ("m1", "m2") if defs[T][s][0] != "none")
        out.append("%s { %s };" % (head(T, not need_fwd), body))
    for i, u in enumerate(uses):
        out.append("typedef %s g%d_%d;" % (rt(u, n), n, i + 1))
    return out


# ---------------------------------------------------------------------------------------------------------
# a mirror of the spec's Norm (call by value, without the well-formedness side conditions: the spec has established
# them) that records which member definitions the evaluation of a query expands, in order — for the finding classes

def expansions(prog, q, want_insts=False):
    dflt, defs, uses = prog
    order = []
    insts = []
    CV = dict(lw=2, rw=5, ld=3, rd=1, cn=3, sz=1)

    def ev(e):
        k = e[0]
        if k == "k":
            return e[1]
        if k == "cst":
            return CV[e[1]]
        if k == "neg":
            return -ev(e[1])
        a, b = ev(e[1]), ev(e[2])
        return a + b if k == "add" else a - b if k == "sub" else a * b

    def subst(t, T, args):
        k = t[0]
        if k in ("b", "k", "cst", "g"):
            return t
        if k == "p":
            return args[t[1] - 1]
        if k in ("ptr", "ref", "neg"):
            return [k, subst(t[1], T, args)]
        if k in ("arr", "fn", "add", "sub", "mul"):
            return [k, subst(t[1], T, args), subst(t[2], T, args)]
        if k == "t":
            return ["t", t[1], [subst(a, T, args) for a in t[2]]]
        if k == "m":
            return ["m", subst(t[1], T, args), t[2]]
        if k == "own":
            return subst(defs[T][t[1]], T, args)
        raise MachineryError("term %r" % (t,))

    def norm(t):
        k = t[0]
        if k == "b":
            return t
        if k in ("ptr", "ref"):
            return [k, norm(t[1])]
        if k == "arr":
            return ["arr", norm(t[1]), ["k", ev(t[2])]]
        if k == "fn":
            return ["fn", norm(t[1]), norm(t[2])]
        if k == "t":
            a = [["k", ev(x)] if KINDS[t[1]][i] == "i" else norm(x) for i, x in enumerate(t[2])]
            while len(a) < len(KINDS[t[1]]):
                x = subst(dflt[t[1]][len(a)], t[1], a)
                a.append(["k", ev(x)] if KINDS[t[1]][len(a)] == "i" else norm(x))
            return ["t", t[1], a]
        if k == "g":
            return norm(uses[t[1] - 1])
        if k == "m":
            nn = norm(t[1])
            order.append((nn[1], t[2]))
            insts.append((nn[1], repr(nn[2])))
            return norm(subst(defs[nn[1]][t[2]], nn[1], nn[2]))
        raise MachineryError("term %r" % (t,))
    res = norm(q)
    if want_insts:
        return order, insts
    return order, res


def params_of(t):
    k = t[0]
    if k == "p":
        return {t[1] - 1}
    if k in ("ptr", "ref", "m", "neg"):
        return params_of(t[1])
    if k in ("arr", "fn", "add", "sub", "mul"):
        return params_of(t[1]) | params_of(t[2])
    if k == "t":
        out = set()
        for a in t[2]:
            out |= params_of(a)
        return out
    return set()


def shared_name_uses(n, prog):
    """The input predicate of C06-templ-shared-parameter-name (see _c06_templ.py shared_name_uses) for these templates.
    CLASS template parameters are one object per (name, default) for all templates (CPPType::new_type interns
    CPPClassTemplateParameter); non-type parameters are one CPPInstance per declaration and are NOT shared.  So the only
    shared pair here is S's T and W's T, when both are spelled the same and S's T has no default argument: a use, in the
    body of one of the two, of the other one's template-id with a type argument that mentions that parameter."""
    dflt, defs, uses = prog
    PN = PNn(n)
    hits = []

    def cls_params(T):
        return [i for i, kd in enumerate(KINDS[T]) if kd == "c"]

    def walk(t, T, slot):
        k = t[0]
        if k in ("ptr", "ref", "m"):
            walk(t[1], T, slot)
        elif k in ("arr", "fn"):
            walk(t[1], T, slot)
            if k == "fn":
                walk(t[2], T, slot)
        elif k == "t":
            V = t[1]
            if V != T:
                ident = len(t[2]) == len(KINDS[V]) and all(a[0] == "p" and PN[T][a[1] - 1] == PN[V][i] for i, a in enumerate(t[2]))
                for ai, a in enumerate(t[2]):
                    if KINDS[V][ai] != "c":
                        continue
                    for j in params_of(a):
                        if KINDS[T][j] != "c" or dflt[T][j][0] != "none":
                            continue
                        for i in cls_params(V):
                            if PN[T][j] == PN[V][i] and dflt[V][i][0] == "none":
                                hits.append((T, V, "all" if ident else i, slot))
            for ai, a in enumerate(t[2]):
                if KINDS[V][ai] == "c":
                    walk(a, T, slot)
    for T in ORDER:
        for s in ("m1", "m2"):
            if defs[T][s][0] != "none":
                walk(defs[T][s], T, s)
    return hits


def own_resolved(defs, T, s):
    b = defs[T][s]
    return defs[T][b[1]] if b[0] == "own" else b


def chain_of(prog, q):
    """the query's own projections  root::s1::s2...: [(template, slot)] — the instantiation each ::s looks into"""
    slots = []
    t = q
    while t[0] == "m":
        slots.append(t[2])
        t = t[1]
    slots.reverse()
    out = []
    cur = t
    for s in slots:
        _, res = expansions(prog, cur)
        out.append((res[1], s))
        cur = ["m", cur, s]
    return out


def ssubst(t, args):
    """symbolic substitution (nothing is evaluated)"""
    k = t[0]
    if k == "p":
        return args[t[1] - 1]
    if k in ("b", "k", "cst", "g"):
        return t
    if k in ("ptr", "ref", "neg"):
        return [k, ssubst(t[1], args)]
    if k in ("arr", "fn", "add", "sub", "mul"):
        return [k, ssubst(t[1], args), ssubst(t[2], args)]
    if k == "t":
        return ["t", t[1], [ssubst(a, args) for a in t[2]]]
    if k == "m":
        return ["m", ssubst(t[1], args), t[2]]
    raise MachineryError("term %r" % (t,))


def tids_in(t):
    """the template-ids in a type term (outermost first)"""
    k = t[0]
    out = []
    if k in ("ptr", "ref", "m"):
        out += tids_in(t[1])
    elif k in ("arr", "fn"):
        out += tids_in(t[1]) + tids_in(t[2])
    elif k == "t":
        out.append(t)
        for i, a in enumerate(t[2]):
            if KINDS[t[1]][i] == "c":
                out += tids_in(a)
    return out


def value_only(t, T):
    """t mentions no TYPE parameter of template T: the parser takes such a template-id for fully specified (a non-type
    template parameter counts as specified) and instantiates it at once"""
    return not (params_of(t) & set(x for x, kd in enumerate(KINDS[T]) if kd == "c"))


def incomplete_instantiation(prog, q):
    """Input predicate of C06-templ-nontype-instantiation-cycle: a template-id that mentions no TYPE parameter is
    instantiated as soon as it is read, even when the template it names is only declared so far or is the one whose body
    is being read; the half-built instantiation stays in the cache.  Two shapes, both upper bounds (what the half-built
    B<...> answers depends on the scopes that happen to enclose it):
    (1) while the body of B is read, a member of B names A<e> (A defined earlier) without any type parameter of B, and a
        member of A is a template-id B<e'> that, with e substituted, mentions no type parameter of B either; the
        evaluation of the query expands such a member of B, later that member of A, and later again looks into B<...>;
    (2) a member of A is a template-id B<e'> without any type parameter of A, B defined later than A; the evaluation
        expands that member of A and later looks into B<...>."""
    dflt, defs, uses = prog
    order, _ = expansions(prog, q)
    for k2 in range(len(order)):
        A, s = order[k2]
        b = own_resolved(defs, A, s)
        if b[0] == "t" and ORDER.index(b[1]) > ORDER.index(A) and value_only(b, A) \
                and any(order[k3][0] == b[1] for k3 in range(k2 + 1, len(order))):
            return True
    for k1, (B, m) in enumerate(order):
        for tA in tids_in(own_resolved(defs, B, m)):
            A = tA[1]
            if ORDER.index(A) >= ORDER.index(B) or not value_only(tA, B):
                continue
            args = list(tA[2])
            while len(args) < len(KINDS[A]):
                args.append(ssubst(dflt[A][len(args)], args))
            for k2 in range(k1 + 1, len(order)):
                if order[k2][0] != A:
                    continue
                b = own_resolved(defs, A, order[k2][1])
                if b[0] != "t" or b[1] != B or not value_only(ssubst(b, args), B):
                    continue
                if any(order[k3][0] == B for k3 in range(k2 + 1, len(order))):
                    return True
    return False


def shared_name_query(n, prog, q):
    """C06-templ-shared-parameter-name, for a query: its evaluation expands a member of T whose definition IS a
    template-id V<...> hit by shared_name_uses, V defined before T (a V that is only declared stays unresolved until T is
    instantiated, which is right), and later looks into a member of V<...> that mentions V's shared parameter."""
    dflt, defs, uses = prog
    tainted = {}
    for T, V, i, s in shared_name_uses(n, prog):
        if ORDER.index(V) < ORDER.index(T):
            tainted.setdefault((T, s), set()).add(V)
    if not tainted:
        return False
    order, _ = expansions(prog, q)
    # (an upper bound: expanding a tainted definition at all puts the query in the class — the result of such an
    # expansion can be that of another instantiation made earlier in the same run, see DESIGN.md §13)
    if any(d in tainted for d in order):
        return True
    for i, (T, s) in enumerate(order[:-1]):
        if (T, s) not in tainted:
            continue
        b = own_resolved(defs, T, s)
        if b[0] != "t":
            continue          # typename V<...>::m in the body is resolved when T is instantiated (fixed: C06-templ-dependent-member)
        for T2, s2 in order[i + 1:]:
            cls = set(j for j, kd in enumerate(KINDS[T2]) if kd == "c")
            if T2 == b[1] and params_of(own_resolved(defs, T2, s2)) & cls:
                return True
    return False


def templ_classes(n, prog, q):
    """finding classes of (case number, program, query) — input predicates only"""
    out = []
    if q is None:
        if shared_name_uses(n, prog):
            out.append("C06-templ-shared-parameter-name")
        return out
    if shared_name_query(n, prog, q):
        out.append("C06-templ-shared-parameter-name")
    if incomplete_instantiation(prog, q):
        out.append("C06-templ-nontype-instantiation-cycle")
    return out


def feats(prog, q):
    """feature tags of a (program, query) for triage statistics"""
    dflt, defs, uses = prog
    f = set()

    def walk(t, where):
        k = t[0]
        if k in ("ptr", "ref", "neg"):
            walk(t[1], where)
        elif k in ("add", "sub", "mul"):
            f.add("expr-arg" if where == "arg" else "expr-bound")
            walk(t[1], where)
        elif k == "arr":
            f.add("array-dep-elem" if params_of(t[1]) else "array-indep-elem")
            walk(t[1], where)
            walk(t[2], "bound")
        elif k == "fn":
            f.add("fnptr")
            walk(t[1], where)
            walk(t[2], where)
        elif k == "t":
            if len(t[2]) < len(KINDS[t[1]]):
                f.add("defaults-%d" % (len(KINDS[t[1]]) - len(t[2])))
            for a in t[2]:
                walk(a, "arg")
        elif k == "m":
            f.add("projection-in-body" if where != "query" else "projection")
            walk(t[1], where)
        elif k == "own":
            f.add("own-member")
        elif k == "cst":
            f.add("const-" + t[1])
        elif k == "g":
            f.add("via-typedef")
    for T in ORDER:
        for s in ("m1", "m2"):
            if defs[T][s][0] != "none":
                walk(defs[T][s], "body")
    walk(q, "query")
    for u in uses:
        walk(u, "use")
    order, _ = expansions(prog, q)
    f.add("depth%d" % len(order))
    return sorted(f)


# ---------------------------------------------------------------------------------------------------------
# Member FUNCTION signatures that name a larger instantiation of their own template.  The spec's programs keep to member
# typedefs (naming a template-id does not instantiate it, and the parser is lazy there, too); interrogate however
# describes every class reachable from an exported signature completely, so a signature that names P<N + 1> from P<N>
# makes it instantiate without bound.  A handful of fixed inputs, each with a control that differs in one respect.
GROWING = [
    dict(name="nontype-grow", grows=True,
         header="template<int N> struct G%d { G%d<N + 1> *next() const; };\ntypedef G%d<0> g%d_t;"),
    dict(name="mixed-grow", grows=True,
         header="template<class A, class B, int N> struct G%d { G%d<B, A, N + 1> *swap() const; };\ntypedef G%d<int, char, 0> g%d_t;"),
    dict(name="type-grow", grows=True,
         header="template<class A> struct G%d { G%d<A *> *deeper() const; };\ntypedef G%d<int> g%d_t;"),
    dict(name="nontype-same", grows=False,                  # control: the same instantiation
         header="template<int N> struct G%d { G%d<N> *self() const; };\ntypedef G%d<0> g%d_t;"),
    dict(name="nontype-typedef", grows=False,               # control: a member typedef instead of a signature
         header="template<int N> struct G%d { typedef G%d<N + 1> nxt; int f() const; };\ntypedef G%d<0> g%d_t;"),
    dict(name="nontype-bounded", grows=False,               # control: the chain ends (a specialisation-free bound: the argument does not grow)
         header="template<int N, int M> struct G%d { G%d<M, N> *flip() const; };\ntypedef G%d<0, 1> g%d_t;"),
]


def growing_classes(probe):
    """input predicate of C06-templ-self-growing-signature: the flag is part of the probe's definition (a member function
    signature of class template G names G< e > where e is a strictly larger term of G's own parameter: N + 1, A *)"""
    return ["C06-templ-self-growing-signature"] if probe["grows"] else []


def growing_probes(ctx, work):
    def one(arg):
        i, pr = arg
        fn = "grow%d.h" % i
        src = (pr["header"] % (i, i, i, i)).replace("{ ", "{\n__published:\n  ", 1)
        open(os.path.join(work, fn), "w").write(src + "\n")
        r = subprocess.run(["g++", "-std=c++17", "-pedantic-errors", "-fsyntax-only", "-x", "c++", "-D__published=public", fn], cwd=work,
                           stdout=subprocess.PIPE, stderr=subprocess.PIPE, text=True)
        if r.returncode != 0:
            return ("sanity", pr["name"] + ": " + r.stderr[:500])
        rr = run.run_tool("interrogate", ["-od", "grow%d.in" % i, "-oc", "grow%d.cxx" % i, "-module", "m", "-library", "l", "-c", "-fnames", fn],
                          cwd=work, timeout=8 if ctx.tier == "quick" else 20, monitor=False)
        return ("ok", pr, src, rr.rc, rr.timed_out, rr.stderr[-200:])
    n = 0
    members = ctx.notes.setdefault("finding_class_failed_of_members", {})
    for res in run.pmap(one, list(enumerate(GROWING))):
        if res[0] == "sanity":
            raise MachineryError("self-growing probe rejected by g++: %s" % res[1])
        _, pr, src, rc, timed_out, err = res
        n += 1
        failed = timed_out or rc != 0
        for c in growing_classes(pr):
            m = members.setdefault(c, [0, 0, 0])
            m[1] += 1
            m[0] += failed
        if failed:
            ctx.violation("interrogate does not finish (timeout=%s rc=%s) on a valid class template whose member function names an instantiation of its own template: %s" % (
                timed_out, rc, " ".join(src.split())), dict(header=src, rc=rc, timed_out=timed_out, stderr=err, stat_key="templnt-growing " + pr["name"]),
                classes=growing_classes(pr))
    return n


def ret_form(n, r):
    """how the query type is returned by the exported function (an array cannot be returned by value)"""
    if r[0] == "arr":
        return "&" if n % 2 == 0 else "*"
    return ""


def templ_nontype(ctx, work, caps=None):
    if ctx.tier == "quick":
        cfgs = [("TemplNonType_quick", None)]
    else:
        cfgs = [("TemplNonType_thorough", None), ("TemplNonType_sim", 12000), ("TemplNonType_sim2", 12000)]
    if os.environ.get("TEMPLNT_CFGS"):            # development aid:  cfg[:simulated traces],...
        cfgs = [(c.split(":")[0], int(c.split(":")[1]) if ":" in c else None) for c in os.environ["TEMPLNT_CFGS"].split(",")]
    progs = {}
    for cfg, sim in cfgs:
        dump = os.path.join(work, "templnt_%s.ndjson" % cfg)
        if os.path.exists(dump):
            os.unlink(dump)
        res = tlc.run("TemplNonTypeMC", cfg, env={"VERIF_DUMP": dump}, timeout=3000, workers=12 if not sim else 8,
                      simulate=sim, depth=12 if sim else None, coverage=(not sim and ctx.tier != "quick"))
        ctx.add_tlc(res)
        tlc.must_ok(res)
        for r in tlc.read_dump(dump):
            key = repr((r["dflt"], sorted(r["defs"].items()), r["uses"]))
            p = progs.setdefault(key, ((r["dflt"], r["defs"], r["uses"]), {}))
            p[1][repr(r["q"])] = (r["q"], r["r"])
    for k in progs:
        progs[k] = (progs[k][0], list(progs[k][1].values()))
    plist = [progs[k] for k in sorted(progs)]
    for p in plist:
        p[1].sort(key=repr)
    cap_p, cap_q = caps or ((9000, 10) if ctx.tier == "quick" else (40000, 24))
    rng = random.Random(6)
    ctx.notes["templnt_programs_enumerated"] = len(plist)
    ctx.notes["templnt_queries_enumerated"] = sum(len(p[1]) for p in plist)
    if len(plist) > cap_p:
        plist = rng.sample(plist, cap_p)
        ctx.notes["templnt_sampled_programs"] = cap_p
    cases = []                       # (n, prog, [(q, r)])
    for n, (prog, qs) in enumerate(plist):
        if len(qs) > cap_q:
            qs = rng.sample(qs, cap_q)
        cases.append((n, prog, qs))
    B = 100
    batches = [cases[i:i + B] for i in range(0, len(cases), B)]

    def one(arg):
        bi, batch = arg
        hdr = "nt%03d.h" % bi
        src = []
        for n, prog, qs in batch:
            src += render_prog(n, prog)
        open(os.path.join(work, hdr), "w").write("\n".join(src) + "\n")
        # (0) spec sanity
        lines = ["#include <type_traits>", '#include "%s"' % hdr]
        for n, prog, qs in batch:
            for q, r in qs:
                lines.append("static_assert(std::is_same<%s, %s>::value, \"\");" % (rt(q, n), rt(r, n)))
        open(os.path.join(work, "nt%03d_orig.cxx" % bi), "w").write("\n".join(lines) + "\n")
        bad, err = gxx_bad_lines(work, "nt%03d_orig.cxx" % bi, strict=True)
        if bad or err:
            ln = sorted(bad)[0] if bad else 0
            return ("sanity", "line %d: %s\n%s" % (ln, lines[ln - 1] if 0 < ln <= len(lines) else "?", err[:1500]))
        # (1)+(2) parse_file -p, with batch isolation
        answers, rejected = {}, []
        cnt = [0]

        def ask(group):
            cnt[0] += 1
            fn = "nt%03d_g%04d.h" % (bi, cnt[0])
            src2 = []
            for n, prog, qs in group:
                src2 += render_prog(n, prog)
            open(os.path.join(work, fn), "w").write("\n".join(src2) + "\n")
            qlist = [(n, qi) for n, prog, qs in group for qi in range(len(qs))]
            stdin = "".join(rt(qs[qi][0], n) + "\n" for n, prog, qs in group for qi in range(len(qs)))
            rr = run.run_tool("parse_file", ["-p", fn], cwd=work, timeout=600, stdin=stdin.encode())
            ok = rr.rc == 0 and not rr.timed_out and "rror" not in rr.stderr
            if ok:
                chunks = rr.stdout.split("Enter an expression or type name:\n")[1:]
                if len(chunks) < len(qlist):
                    ok = False
                else:
                    for (n, qi), ch in zip(qlist, chunks):
                        m = re.search(r"^Type: (.*)$", ch, re.M)
                        answers[(n, qi)] = m.group(1).strip() if m else ("?", ch.strip().split("\n")[0][:200])
            if not ok and len(group) == 1:
                rejected.append((group[0][0], "rc=%s signal=%s timeout=%s %s" % (rr.rc, rr.signal, rr.timed_out, rr.stderr.strip()[-300:])))
            return ok
        run.isolate(batch, ask, max_singletons=40)
        rej = set(n for n, _ in rejected)
        lines = ["#include <type_traits>", '#include "%s"' % hdr]
        owner, bad_cases = {}, {}
        compared = 0
        for n, prog, qs in batch:
            if n in rej:
                continue
            for qi, (q, r) in enumerate(qs):
                a = answers.get((n, qi))
                if not isinstance(a, str):
                    bad_cases[(n, qi)] = a
                    continue
                lines.append("static_assert(std::is_same<%s, %s>::value, \"\");" % (rt(q, n), a))
                owner[len(lines)] = (n, qi)
                compared += 1
        open(os.path.join(work, "nt%03d_printed.cxx" % bi), "w").write("\n".join(lines) + "\n")
        badl, err = gxx_bad_lines(work, "nt%03d_printed.cxx" % bi)
        for l in badl:
            if l in owner:
                bad_cases[owner[l]] = answers[owner[l]]
            else:
                return ("sanity", "printed-type TU fails outside any case:\n" + err[:1500])
        # (3) database prototypes (up to three queries per program)
        pub = []
        byn = dict((c[0], c) for c in batch)
        for n, prog, qs in batch:
            if n in rej:
                continue
            for qi in range(min(3, len(qs))):
                pub.append((n, qi))
        decls = ["%s %sr%d_%d();" % (rt(byn[n][2][qi][0], n), ret_form(n, byn[n][2][qi][1]), n, qi) for n, qi in pub]
        fn = "nq%03d.h" % bi
        open(os.path.join(work, fn), "w").write('#include "%s"\n__begin_publish\n%s\n__end_publish\n' % (hdr, "\n".join(decls)))
        protos = {}
        dbfail = None
        refused = {}                      # declarations interrogate rejects: reported per case, then left out
        if pub and not rej:
            for attempt in range(12):
                rr = run.run_tool("interrogate", ["-od", "nq%03d.in" % bi, "-oc", "nq%03d.cxx" % bi, "-module", "m", "-library", "l",
                                                  "-c", "-fnames", fn], cwd=work, timeout=600)
                named = set((int(a), int(b)) for a, b in re.findall(r"\br(\d+)_(\d+)\(", rr.stderr)) & set(pub)
                if rr.rc == 0 or rr.timed_out or not named:
                    break
                for k in named:
                    refused[k] = "rejected: " + " ".join(rr.stderr.split())[:300]
                pub = [k for k in pub if k not in named]
                decls = ["%s %sr%d_%d();" % (rt(byn[n][2][qi][0], n), ret_form(n, byn[n][2][qi][1]), n, qi) for n, qi in pub]
                open(os.path.join(work, fn), "w").write('#include "%s"\n__begin_publish\n%s\n__end_publish\n' % (hdr, "\n".join(decls)))
            if rr.rc != 0:
                dbfail = "rc=%s signal=%s timeout=%s %s" % (rr.rc, rr.signal, rr.timed_out, rr.stderr[-400:])
            else:
                db = idb.dump([os.path.join(work, "nq%03d.in" % bi)])
                if "functions" not in db:
                    dbfail = "database unreadable: %r" % (db,)
                for f in db.get("functions", {}).values():
                    m = re.match(r"r(\d+)_(\d+)$", f["name"])
                    if m:
                        protos[(int(m.group(1)), int(m.group(2)))] = " ".join(f["prototype"].split())
        # the recorded prototype, declared in a side namespace, must declare a function of the same type
        lines = ["#include <type_traits>", '#include "%s"' % hdr] + decls
        owner3, bad3, missing3 = {}, {}, []
        for n, qi in pub:
            p = protos.get((n, qi))
            if p is None:
                if not dbfail and not rej:
                    missing3.append((n, qi))
                continue
            lines.append("namespace db { %s%s }" % (p, "" if p.endswith(";") else ";"))
            owner3[len(lines)] = (n, qi)
            lines.append("static_assert(std::is_same<decltype(::r%d_%d), decltype(db::r%d_%d)>::value, \"\");" % (n, qi, n, qi))
            owner3[len(lines)] = (n, qi)
        open(os.path.join(work, "nt%03d_db.cxx" % bi), "w").write("\n".join(lines) + "\n")
        badl, err = gxx_bad_lines(work, "nt%03d_db.cxx" % bi)
        for l in badl:
            if l in owner3:
                bad3[owner3[l]] = protos[owner3[l]]
            else:
                return ("sanity", "database TU fails outside any case:\n" + err[:1500])
        bad3.update(refused)
        return ("ok", batch, rejected, bad_cases, compared, bad3, missing3, dbfail, (len(pub) - len(missing3) if not dbfail else 0) + len(refused))

    total = 0
    stats = {}
    members = ctx.notes.setdefault("finding_class_failed_of_members", {})
    distinct = set()
    all_bad, all_bad3 = set(), set()
    for res in run.pmap(one, list(enumerate(batches))):
        if res[0] == "sanity":
            raise MachineryError("TemplNonType spec != g++: %s" % res[1])
        _, batch, rejected, bad_cases, compared, bad3, missing3, dbfail, n3 = res
        byn = dict((c[0], c) for c in batch)
        total += compared + len(rejected) + n3
        all_bad.update(bad_cases)
        all_bad3.update(bad3)
        for n, info in rejected:
            prog = byn[n][1]
            ctx.violation("valid class templates (non-type parameters) rejected by parse_file (%s): %s" % (info, " ".join(render_prog(n, prog)[1:])),
                          dict(program=render_prog(n, prog), info=info, stat_key="templnt-reject"),
                          classes=templ_classes(n, prog, None))
        for (n, qi), a in sorted(bad_cases.items()):
            prog, (q, r) = byn[n][1], byn[n][2][qi]
            ctx.violation("template instantiation (non-type arguments) resolves to another type: %s   %s  is printed as `%s` (spec = g++: %s)" % (
                " ".join(render_prog(n, prog)[1:]), rt(q, n), a, rt(r, n)),
                dict(program=render_prog(n, prog), query=rt(q, n), printed=a, expected=rt(r, n), view="parse_file",
                     stat_key="templnt " + " ".join(feats(prog, q))),
                classes=templ_classes(n, prog, q))
        for (n, qi), a in sorted(bad3.items()):
            prog, (q, r) = byn[n][1], byn[n][2][qi]
            ctx.violation("database prototype of a function returning a template member type (non-type arguments) differs: %s   %s %sr();  is recorded as `%s` (spec = g++: %s)" % (
                " ".join(render_prog(n, prog)[1:]), rt(q, n), ret_form(n, r), a, rt(r, n)),
                dict(program=render_prog(n, prog), query=rt(q, n), prototype=a, expected=rt(r, n), view="database",
                     stat_key="templnt-db " + " ".join(feats(prog, q))),
                classes=templ_classes(n, prog, q))
        stats["db_missing"] = stats.get("db_missing", 0) + len(missing3)
        if dbfail:
            ctx.violation("interrogate failed on templates parse_file accepts: %s" % dbfail[-300:], dict(stat_key="templnt-interrogate-fail", info=dbfail))
        for n, prog, qs in batch:
            for qi, (q, r) in enumerate(qs):
                distinct.add(repr(r))
                cl = templ_classes(n, prog, q)
                for c in cl:
                    m = members.setdefault(c + " (non-type part)", [0, 0, 0])
                    m[1] += 1
                    if (n, qi) in bad_cases:
                        m[0] += 1
                        if len(cl) > 1:
                            m[2] += 1          # also a member of another class
    if os.environ.get("TEMPLNT_TRIAGE"):          # development aid: one line per case with its verdict
        import json
        with open(os.environ["TEMPLNT_TRIAGE"], "w") as f:
            for n, prog, qs in cases:
                for qi, (q, r) in enumerate(qs):
                    f.write(json.dumps(dict(n=n, prog=prog, q=q, r=r, bad=(n, qi) in all_bad, bad_db=(n, qi) in all_bad3)) + "\n")
    ctx.notes["templnt_programs"] = len(cases)
    ctx.notes["templnt_queries"] = sum(len(c[2]) for c in cases)
    ctx.notes["templnt_distinct_results"] = len(distinct)
    ctx.notes["templnt_db_functions_absent"] = stats.get("db_missing", 0)
    if cases:
        n, prog, qs = cases[len(cases) // 2]
        ctx.sample(dict(program=render_prog(n, prog), query=rt(qs[0][0], n), result=rt(qs[0][1], n)))
    total += growing_probes(ctx, work)
    return total
