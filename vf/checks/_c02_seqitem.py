"""C02, item access (spec PySeqItem): every history of o[i] / o[i] = v over lengths 0..3 and every class of
index around both ends, replayed on a built -python-native module in three access styles:
  opidx   - class with size(), `int operator[](int) const` and `int &operator[](int)` (sq_item + sq_ass_item; a class with
            the non-const form alone only gets a __setitem__ method: interrogate's convention, not judged here)
  roidx   - class with size() and `int operator[](int) const` (sq_item only: assignment must raise TypeError)
  seqprop - MAKE_SEQ_PROPERTY(cells, get_num_cells, get_cell, set_cell) (the sequence-property wrapper)
The C++ objects keep three guard cells below and above their items; after every step all cells are read back
through a plain accessor, so a write outside the items is seen even when nothing crashes."""
import json, os
from ..common import MachineryError
from .. import tlc, pymod, run, build

HDR = r"""
class IVec {
PUBLISHED:
  explicit IVec(int n);
  int size() const;
  int operator [] (int i) const;
  int &operator [] (int i);
  int get_num_cells() const;
  int get_cell(int i) const;
  void set_cell(int i, int v);
  void remove_cell(int i);
  MAKE_SEQ_PROPERTY(cells, get_num_cells, get_cell, set_cell, remove_cell);
  int raw(int k) const;
public:
  int _n;
  int _c[16];
};
class RVec {
PUBLISHED:
  explicit RVec(int n);
  int size() const;
  int operator [] (int i) const;
  int raw(int k) const;
public:
  int _n;
  int _c[16];
};
"""
CXX = r"""
static void fill(int *c, int n) { for (int k = 0; k < 16; ++k) c[k] = -1; for (int k = 0; k < n; ++k) c[4 + k] = 10 + k; }
IVec::IVec(int n) : _n(n) { fill(_c, n); }
int IVec::size() const { return _n; }
int IVec::operator [] (int i) const { return _c[4 + i]; }
int &IVec::operator [] (int i) { return _c[4 + i]; }
int IVec::get_num_cells() const { return _n; }
int IVec::get_cell(int i) const { return _c[4 + i]; }
void IVec::set_cell(int i, int v) { _c[4 + i] = v; }
void IVec::remove_cell(int i) { for (int k = i; k < _n - 1; ++k) _c[4 + k] = _c[4 + k + 1]; _c[4 + _n - 1] = -1; --_n; }
int IVec::raw(int k) const { return _c[4 + k]; }
RVec::RVec(int n) : _n(n) { fill(_c, n); }
int RVec::size() const { return _n; }
int RVec::operator [] (int i) const { return _c[4 + i]; }
int RVec::raw(int k) const { return _c[4 + k]; }
"""
KINDS = ["opidx", "seqprop", "roidx"]


def expected(h, kind):
    """the observation the spec demands: per step [result, cells -3 .. n+2]"""
    n, out = h["n0"], []
    init = [-1] * 3 + [10 + k for k in range(n)] + [-1] * 3
    for op in h["ops"]:
        if kind == "roidx":
            # no item assignment on this class: TypeError, nothing changes; reads as the reference
            if op["op"] == "set":
                out.append(["EXC TypeError", init])
            else:
                out.append([("EXC IndexError" if op["r"] == -99 else init[3 + (op["i"] % n if n else 0)]), init])
            continue
        r = "EXC IndexError" if op["r"] == -99 else op["r"]
        out.append([r, [-1] * 3 + list(op["a"]) + [-1] * (3 + n - len(op["a"]))])
    return out


def run_part(ctx, work, asan=False):
    tier = ctx.tier
    wd = os.path.join(work, "seqitem")
    os.makedirs(wd, exist_ok=True)
    dump = os.path.join(wd, "hist.ndjson")
    res = tlc.run("PySeqItemMC", "PySeqItem_" + tier, workers=2, env={"VERIF_DUMP": dump}, timeout=900)
    ctx.add_tlc(res)
    if res.verdict == "invariant":
        raise MachineryError("PySeqItem: model invariant %s violated\n%s" % (res.violated, res.out[-2000:]))
    tlc.must_ok(res)
    # vacuity guard: the wrapper without its lower bound must NOT refine the reference
    bad = tlc.run("PySeqItemMC", "PySeqItem_nolower", workers=1, timeout=300)
    if bad.verdict != "invariant" or bad.violated != "Refines":
        raise MachineryError("PySeqItem_nolower: expected Refines to be violated, got %s %s" % (bad.verdict, bad.violated))
    hists = sorted({json.dumps(r, sort_keys=True) for r in tlc.read_dump(dump)})
    hists = [dict(h, n0=h["n"]) for h in map(json.loads, hists)]
    # histories with deletions (del o.items[i]; only the MAKE_SEQ_PROPERTY style has a remover)
    ddump = os.path.join(wd, "hist_del.ndjson")
    dres = tlc.run("PySeqItemMC", "PySeqItem_del", workers=2, env={"VERIF_DUMP": ddump}, timeout=900)
    ctx.add_tlc(dres)
    if dres.verdict == "invariant":
        raise MachineryError("PySeqItem_del: model invariant %s violated\n%s" % (dres.violated, dres.out[-2000:]))
    tlc.must_ok(dres)
    dh = [json.loads(x) for x in sorted({json.dumps(r, sort_keys=True) for r in tlc.read_dump(ddump)})]
    dh = [dict(h, n0=h["n"] + sum(1 for o in h["ops"] if o["op"] == "del" and o["r"] == 0)) for h in dh
          if any(o["op"] == "del" for o in h["ops"])]
    if not dh:
        raise MachineryError("PySeqItem_del: no history with a deletion dumped")
    if not hists:
        raise MachineryError("PySeqItem: no history dumped")
    if len(hists) > 45000:       # thorough: a fixed stratified cut of the sorted histories (independent of the seed)
        step = -(-len(hists) // 45000)
        ctx.notes["seqitem_sampled"] = "every %d-th of %d sorted histories" % (step, len(hists))
        hists = hists[::step]
    name = "c02s"
    open(os.path.join(wd, "pub.h"), "w").write(pymod.PUBLISH_PRELUDE)
    open(os.path.join(wd, name + ".h"), "w").write('#pragma once\n#include "pub.h"\n' + HDR)
    open(os.path.join(wd, name + "_impl.cxx"), "w").write('#include "%s.h"\n' % name + CXX)
    try:
        pymod.build_module(wd, name, [name + ".h"], [name + "_impl.cxx"], asan=asan, jobs=3)
    except pymod.PymodError as e:
        ctx.violation("[seqitem] the module with size()/operator[]/MAKE_SEQ_PROPERTY classes does not build (%s)" % e.stage,
                      dict(stage=e.stage, detail=e.detail[-1500:], header=HDR))
        return dict(histories=0)
    from .c02 import run_driver       # the driver runner of the C02 check (child interpreter, flushes before each step)
    cases = [dict(h, kind=k) for k in KINDS for h in hists] + [dict(h, kind="seqprop") for h in dh]
    sp, op = os.path.join(wd, "script.json"), os.path.join(wd, "out.ndjson")
    got, died, start, rc = {}, [], 0, 0
    for attempt in range(12):            # a history that kills the interpreter is reported and the rest is run again
        json.dump(dict(module=name, mode="seqitem", hists=cases[start:]), open(sp, "w"))
        recs, rc, err = run_driver(wd, sp, op, asan=asan, timeout=600)
        last_at = None
        for rec in recs:
            if isinstance(rec.get("at"), int):
                last_at = rec["at"]
            if "h" in rec:
                got[start + rec["h"]] = rec
        if any(r.get("done") for r in recs) or last_at is None:
            break
        died.append((start + last_at, rc, err[-400:]))
        start += last_at + 1
        if start >= len(cases):
            break
    died_at = {d[0]: d for d in died}
    n_steps = n_viol = 0
    seen_classes = set()
    for hi, c in enumerate(cases):
        o = got.get(hi)
        if o is None:
            if hi in died_at:
                ctx.violation("[seqitem %s] the interpreter died (driver exit %s) during a history of item accesses" % (c["kind"], died_at[hi][1]),
                              dict(n=c["n"], ops=[[x["op"], x["i"], x["v"]] for x in c["ops"]], stderr=died_at[hi][2]))
                n_viol += 1
            continue
        exp = expected(c, c["kind"])
        if o["len"] != c["n0"]:
            ctx.violation("[seqitem %s] len() of a sequence of %d items is %r" % (c["kind"], c["n0"], o["len"]), dict(n=c["n0"]))
        for k, (e, g) in enumerate(zip(exp, o["steps"])):
            n_steps += 1
            x = c["ops"][k]
            seen_classes.add((c["kind"], x["op"], "in" if x["r"] != -99 else ("below" if x["i"] < 0 else "above")))
            if e != g and n_viol < 40:
                n_viol += 1
                what = "o[%d]" % x["i"] if x["op"] == "get" else ("del o[%d]" % x["i"] if x["op"] == "del" else "o[%d] = %d" % (x["i"], x["v"]))
                ctx.violation("[seqitem %s] step %d `%s` on a sequence of %d items: result / cells (-3 .. n+2) %r, Python semantics demand %r"
                              % (c["kind"], k + 1, what, c["n0"], g, e),
                              dict(kind=c["kind"], n=c["n"], ops=[[y["op"], y["i"], y["v"]] for y in c["ops"]], observed=o["steps"], expected=exp))
    if len(got) + len(died) < len(cases):
        raise MachineryError("seqitem: %d of %d histories have no observation (driver exit %s)" % (len(cases) - len(got) - len(died), len(cases), rc))
    want = {(k, op, cl) for k in KINDS for op in ("get", "set") for cl in ("in", "below", "above")}
    if not want <= seen_classes:
        raise MachineryError("seqitem: index classes never exercised: %s" % sorted(want - seen_classes))
    info = dict(histories=len(cases), steps=n_steps, kinds=KINDS, lengths=sorted({h["n0"] for h in hists}), histories_with_deletion=len(dh))
    ctx.notes["seqitem_part"] = info
    ctx.sample(dict(part="seqitem", kind=cases[-1]["kind"], n=cases[-1]["n"], ops=[[x["op"], x["i"], x["v"]] for x in cases[-1]["ops"]]))
    return info
