"""Shared by c13.py and c11.py: the idbm_tool driver, the database-file writer (text format of
InterrogateDatabase::write), the canonical projection, and the generator of small C++ libraries."""
import json, os, re, subprocess
from ..common import MachineryError, REPO
from .. import harness, run, build

FRESH_BIT = {"tn": 1, "tsn": 2, "ttn": 4, "mn": 8, "en": 16, "esn": 32}


def tool():
    return harness.ensure("idbm_tool", ["idbm_tool.cxx"], flags=["-fno-access-control"], link_idb=True)


# ---------------------------------------------------------------------------------------------
# database file writer: the text format read by InterrogateDatabase::read_new
def _s(x, ws=" "):
    return "%d%s" % (len(x), ws) + (x + ws if x else "")


def _v(xs):
    return "%d " % len(xs) + "".join("%d " % x for x in xs)


def _comp(name):
    return _s(name) + "0 "


def write_idb(path, lib, fj, module="m", ident=0):
    """fj: {"w":[{"i":..,"r":{...}}], "f":..., "t":..., "m":..., "e":..., "s":...} as dumped by IdbMC (record
    fields of specs/IdbDB.tla).  Records are written in ascending index order, like InterrogateDatabase::write."""
    out = ["%d\n3 3\n" % ident, _s(lib), _s("H" + lib[:3]), _s(module), "\n"]

    def recs(k):
        return sorted(((x["i"], x["r"]) for x in fj[k]), key=lambda p: p[0])
    fs = recs("f")
    out.append("%d\n" % len(fs))
    for i, r in fs:
        name = r["n"]
        flags = (1 if r["gl"] else 0) | (4 if r.get("method") else 0) | (0x10 if r.get("isget") else 0) | (0x20 if r.get("isset") else 0)
        out.append("%d %s%d %d %s%s%s%s%s\n" % (i, _comp(name), flags, r["cls"], _s(r["sn"]), _v(r["cw"]), _v(r["pw"]),
                                              _s("", "\n"), _s("", "\n")))
    ws = recs("w")
    out.append("%d\n" % len(ws))
    for i, r in ws:
        flags = 2 | (4 if r["n"] else 0)
        params = "%d " % len(r["ps"]) + "".join("%s%d %d  " % (_s("p%d" % k), 1, t) for k, t in enumerate(r["ps"]))
        out.append("%d %s%d %d %d %d %s%s%s\n" % (i, _comp(r["n"]), flags, r["fn"], r["ret"], r["rvd"], _s(r["un"]), _s(""), params))
    ts = recs("t")
    out.append("%d\n" % len(ts))
    for i, r in ts:
        flags = (1 if r["gl"] else 0) | (0x2000 if r["fd"] else 0)
        if r["wrapped"]:
            flags |= 0x180
        elif r["outer"]:
            flags |= 0x40000 | 0x800
        else:
            flags |= 0x800
        derivs = "%d " % len(r["derivs"]) + "".join("%d %d %d %d " % (1 if d["up"] else 0, d["base"], d["up"], d["down"]) for d in r["derivs"])
        out.append("%d %s%d %s%s%d %d %d %s%d %s%s%s%s%s%s%s%s\n" % (
            i, _comp(r["n"]), flags, _s(r["sn"]), _s(r["tn"]), r["outer"], 0, r["wrapped"],
            _v(r["ctors"]), r["dtor"], _v(r["elems"]), _v(r["methods"]), _v(r["mseqs"]), _v(r["casts"]),
            derivs, "0 ", _v(r["nested"]), _s("", "\n")))
    ms = recs("m")
    out.append("%d\n" % len(ms))
    for i, r in ms:
        out.append("%d %s%d %d %d %d %s\n" % (i, _comp(r["n"]), 1 if r["type"] else 0, 0, r["type"], r["getter"], _s("1")))
    es = recs("e")
    out.append("%d\n" % len(es))
    for i, r in es:
        flags = ((1 if r["gl"] else 0) | (2 if r["getter"] else 0) | (4 if r["setter"] else 0) | (8 if r["has"] else 0)
                 | (0x10 if r["clear"] else 0) | (0x20 if r["del"] else 0) | (0x100 if r["ins"] else 0) | (0x200 if r["getkey"] else 0))
        out.append("%d %s%d %d %d %d %d %d %d %d %d %d %s%s\n" % (
            i, _comp(r["n"]), flags, r["type"], r["getter"], r["setter"], r["has"], r["clear"], r["del"], r["len"],
            r["ins"], r["getkey"], _s(r["sn"]), _s("", "\n")))
    ss = recs("s")
    out.append("%d\n" % len(ss))
    for i, r in ss:
        out.append("%d %s%d %d %s%s\n" % (i, _comp(r["n"]), r["lenf"], r["elemf"], _s(r["sn"]), _s("", "\n")))
    with open(path, "w") as f:
        f.write("".join(out))


# ---------------------------------------------------------------------------------------------
# canonical projection: byte-identical to what `idbm_tool ... proj` prints after "P":
def _q(s):
    return json.dumps(s)


def _b(x):
    return "1" if x in (True, 1) else "0"


def _ks(xs):
    return "[" + ",".join(_q(x) for x in xs) + "]"


def _wrec(w):
    if "bad" in w:
        return _q(w["bad"])
    return '{"n":%s,"lib":%s,"fn":%s,"ret":%s,"rvd":%s,"ps":%s}' % (_q(w["n"]), _q(w["lib"]), _q(w["fn"]), _q(w["ret"]),
                                                                   _q(w["rvd"]), _ks(w["ps"]))


def _join(v):
    return "[" + ",".join(sorted(v)) + "]"


def canon_proj(p):
    T = ['{"tn":%s,"n":%s,"sn":%s,"lib":%s,"fd":%s,"gl":%s,"outer":%s,"wrapped":%s,"ctors":%s,"dtor":%s,"elems":%s,'
         '"methods":%s,"mseqs":%s,"casts":%s,"derivs":[%s],"nested":%s}' % (
             _q(t["tn"]), _q(t["n"]), _q(t["sn"]), _q(t["lib"]), _b(t["fd"]), _b(t["gl"]), _q(t["outer"]), _q(t["wrapped"]),
             _ks(t["ctors"]), _q(t["dtor"]), _ks(t["elems"]), _ks(t["methods"]), _ks(t["mseqs"]), _ks(t["casts"]),
             ",".join("[%s,%s,%s]" % (_q(d[0]), _q(d[1]), _q(d[2])) for d in t["derivs"]), _ks(t["nested"]))
         for t in p["T"]]
    F = ['{"lib":%s,"sn":%s,"cls":%s,"cw":[%s],"pw":[%s]}' % (
        _q(f["lib"]), _q(f["sn"]), _q(f["cls"]), ",".join(_wrec(w) for w in f["cw"]), ",".join(_wrec(w) for w in f["pw"]))
        for f in p["F"]]
    E = ['{"lib":%s,"sn":%s,"gl":%s,"type":%s,"getter":%s,"setter":%s,"has":%s,"clear":%s,"del":%s,"ins":%s,"getkey":%s,"len":%s}' % (
        _q(e["lib"]), _q(e["sn"]), _b(e["gl"]), _q(e["type"]), _q(e["getter"]), _q(e["setter"]), _q(e["has"]), _q(e["clear"]),
        _q(e["del"]), _q(e["ins"]), _q(e["getkey"]), _q(e["len"])) for e in p["E"]]
    M = ['{"lib":%s,"n":%s,"type":%s,"getter":%s}' % (_q(m["lib"]), _q(m["n"]), _q(m["type"]), _q(m["getter"])) for m in p["M"]]
    S = ['{"lib":%s,"sn":%s,"lenf":%s,"elemf":%s}' % (_q(s["lib"]), _q(s["sn"]), _q(s["lenf"]), _q(s["elemf"])) for s in p["S"]]
    return ('{"T":%s,"F":%s,"E":%s,"M":%s,"S":%s,"allT":%s,"globT":%s,"allF":%s,"globF":%s,"globM":%s,"globE":%s,'
            '"nw":%d,"nt":%d,"nf":%d,"ne":%d,"nm":%d,"ns":%d}' % (
                _join(T), _join(F), _join(E), _join(M), _join(S),
                _join(_q(x) for x in p["allT"]), _join(_q(x) for x in p["globT"]), _join(_q(x) for x in p["allF"]),
                _join(_q(x) for x in p["globF"]), _join(_q(x) for x in p["globM"]), _join(_q(x) for x in p["globE"]),
                p["nw"], p["nt"], p["nf"], p["ne"], p["nm"], p["ns"]))


# ---------------------------------------------------------------------------------------------
def run_script(script_lines, workdir, name, trace=None, timeout=600):
    """Run one batch script; returns {case id: [step dict,...]} where a proj step has keys
    'P' (canonical string, unparsed) and the scalar fields; plus {'exit':..,'sig':..} as last element."""
    spath = os.path.join(workdir, name + ".script")
    opath = os.path.join(workdir, name + ".out")
    with open(spath, "w") as f:
        f.write("\n".join(script_lines) + "\n")
    if os.path.exists(opath):
        os.unlink(opath)
    r = run.run_tool(tool(), ["batch", spath, opath], cwd=workdir, trace=trace, timeout=timeout, monitor=False)
    if r.rc != 0 or r.timed_out:
        raise MachineryError("idbm_tool batch failed rc=%s: %s" % (r.rc, r.stderr[-500:]))
    res = {}
    with open(opath) as f:
        for line in f:
            line = line.rstrip("\n")
            if not line:
                continue
            head, sep, tail = line.partition(',"P":')
            if sep:
                d = json.loads(head + "}")
                d["P"] = tail[:-1]
            else:
                d = json.loads(line)
            res.setdefault(d["case"], []).append(d)
    return res, r.stderr


def content_key(content):
    return json.dumps(content, sort_keys=True)


# ---------------------------------------------------------------------------------------------
# generated C++ libraries (real producer: `interrogate`)
_MACROS = ("MAKE_PROPERTY", "MAKE_PROPERTY2", "MAKE_SEQ", "MAKE_SEQ_PROPERTY", "MAKE_MAP_PROPERTY", "MAKE_MAP_KEYS_SEQ")
VDEFS = ("#ifndef VDEFS_H\n#define VDEFS_H\n#ifdef CPPPARSER\n#define PUBLISHED __published\n"
         "#define BEGIN_PUBLISH __begin_publish\n#define END_PUBLISH __end_publish\n#define EXTENSION(x) __extension x\n"
         + "".join("#define %s(n, ...) __%s(n, __VA_ARGS__)\n" % (m, m.lower()) for m in _MACROS)
         + "#else\n#undef PUBLISHED\n#undef BEGIN_PUBLISH\n#undef END_PUBLISH\n#undef EXTENSION\n"
         + "".join("#undef %s\n" % m for m in _MACROS)
         + "#define PUBLISHED public\n#define BEGIN_PUBLISH\n#define END_PUBLISH\n#define EXTENSION(x) x\n"
         + "".join("#define %s(n, ...)\n" % m for m in _MACROS)
         + "#endif\n#endif\n")


def _hdr(name, body, includes=()):
    g = name.upper() + "_H"
    inc = "".join('#include "%s.h"\n' % i for i in includes)
    return "#ifndef %s\n#define %s\n#include \"vdefs.h\"\n%s%s\n#endif\n" % (g, g, inc, body)


def single_headers():
    """~30 small self-contained headers: name -> text."""
    H = {}
    atoms = [("int", "float", "bool"), ("double", "unsigned int", "char"), ("long", "short", "unsigned char"),
             ("long long", "unsigned short", "double")]
    for k, (a, b, c) in enumerate(atoms):
        H["cls%d" % k] = _hdr("cls%d" % k, """
class Cls%(k)d {
PUBLISHED:
  Cls%(k)d();
  Cls%(k)d(%(a)s x, %(b)s y = 2);
  explicit Cls%(k)d(const Cls%(k)d *other, %(c)s flag);
  %(a)s get_a() const;
  void set_a(%(a)s v);
  %(b)s combine(%(a)s x, %(b)s y, %(c)s z = 1) const;
  %(b)s combine(%(a)s x) const;
  static Cls%(k)d *make(%(a)s x);
  static int count();
  const Cls%(k)d &self() const;
  Cls%(k)d copy() const;
  void take(Cls%(k)d *p, const Cls%(k)d &r, Cls%(k)d v);
public:
  int hidden();
};
""" % dict(k=k, a=a, b=b, c=c))
    H["inh0"] = _hdr("inh0", """
class Animal {
PUBLISHED:
  Animal();
  virtual ~Animal();
  virtual int legs() const;
  virtual const Animal *parent() const;
  int age;
};
class Dog : public Animal {
PUBLISHED:
  Dog();
  virtual int legs() const;
  void bark(int times = 1);
  Animal *as_animal();
};
class Puppy : public Dog {
PUBLISHED:
  Puppy(Dog *mother);
  Dog *get_mother() const;
  MAKE_PROPERTY(mother, get_mother);
};
""")
    H["inh1"] = _hdr("inh1", """
class Shape {
PUBLISHED:
  virtual ~Shape();
  virtual double area() const = 0;
  virtual Shape *clone() const = 0;
  double scaled(double f) const;
};
class Circle : public Shape {
PUBLISHED:
  explicit Circle(double r);
  virtual double area() const;
  virtual Shape *clone() const;
  double r;
};
class Square final : public Shape {
PUBLISHED:
  Square(double s = 1.0);
  virtual double area() const;
  virtual Shape *clone() const;
};
""")
    H["minh0"] = _hdr("minh0", """
class Left { PUBLISHED: Left(); int left() const; };
class Right { PUBLISHED: Right(); int right() const; virtual ~Right(); };
class Both : public Left, public Right {
PUBLISHED:
  Both();
  int both() const;
  Left *as_left();
  Right *as_right();
};
""")
    H["minh1"] = _hdr("minh1", """
class Top { PUBLISHED: Top(); virtual ~Top(); int top() const; };
class MidA : virtual public Top { PUBLISHED: MidA(); int a() const; };
class MidB : virtual public Top { PUBLISHED: MidB(); int b() const; };
class Bottom : public MidA, public MidB {
PUBLISHED:
  Bottom();
  int bottom() const;
};
""")
    H["nest0"] = _hdr("nest0", """
class Outer {
PUBLISHED:
  Outer();
  enum Kind { K_none, K_some = 3, K_all };
  class Inner {
  PUBLISHED:
    Inner();
    int value() const;
    class Deep { PUBLISHED: Deep(); int d; };
    Deep *deep();
  };
  typedef Inner InnerAlias;
  Inner *inner();
  Kind kind() const;
  void set_kind(Kind k);
  InnerAlias *alias();
};
""")
    H["nest1"] = _hdr("nest1", """
struct Parent {
PUBLISHED:
  struct InlineChild { PUBLISHED: int member; };
  struct OutOfLineChild;
  struct IncompleteChild;
  enum class Tag { one = 1, two };
  Tag tag;
  InlineChild child;
  OutOfLineChild *other();
};
struct Parent::OutOfLineChild { PUBLISHED: int member; Parent *up; };
""")
    H["enum0"] = _hdr("enum0", """
enum Color { C_red, C_green = 5, C_blue };
enum class Level : int { low = -1, mid, high = 10 };
enum { anonymous_value = 7 };
class UsesEnums {
PUBLISHED:
  UsesEnums();
  Color get_color() const;
  void set_color(Color c = C_green);
  Level bump(Level l) const;
  static bool is_high(Level l);
};
""")
    H["enum1"] = _hdr("enum1", """
namespace cfg {
  enum Flags { F_a = 1, F_b = 2, F_c = 4, F_all = F_a | F_b | F_c };
  class Options {
  PUBLISHED:
    Options(int flags = F_all);
    enum Mode { M_read, M_write };
    Mode mode;
    bool has(Flags f) const;
  };
}
""")
    H["tdef0"] = _hdr("tdef0", """
typedef int Handle;
typedef unsigned long Size;
class Item { PUBLISHED: Item(); Handle handle() const; };
typedef Item *ItemPtr;
typedef const Item *ConstItemPtr;
typedef Item Thing;
class Registry {
PUBLISHED:
  Registry();
  ItemPtr find(Handle h) const;
  ConstItemPtr peek(Size n) const;
  Size size() const;
  void add(Thing *t);
};
""")
    H["tdef1"] = _hdr("tdef1", """
template<class T> class Box {
PUBLISHED:
  Box();
  T get() const;
  void set(T v);
};
typedef Box<int> IntBox;
typedef Box<double> DoubleBox;
class BoxUser { PUBLISHED: BoxUser(); IntBox *ints(); void take(const DoubleBox &b); };
""")
    H["data0"] = _hdr("data0", """
class Point {
PUBLISHED:
  Point();
  int x;
  int y;
  float weight;
  const int id;
  static int instances;
  unsigned char mask;
};
class Segment {
PUBLISHED:
  Segment();
  Point a;
  Point b;
  Point *extra;
  double length() const;
  MAKE_PROPERTY(len, length);
};
""")
    H["data1"] = _hdr("data1", """
class Account {
PUBLISHED:
  Account();
  int get_balance() const;
  void set_balance(int b);
  bool has_owner() const;
  const char *get_owner() const;
  void set_owner(const char *o);
  void clear_owner();
  MAKE_PROPERTY(balance, get_balance, set_balance);
  MAKE_PROPERTY(readonly_balance, get_balance);
  long long big;
  bool open;
};
extern int global_counter;
extern Account *default_account;
""")
    H["data2"] = _hdr("data2", """
class Temp {
PUBLISHED:
  Temp();
  double get_celsius() const;
  void set_celsius(double c);
  double get_kelvin() const;
  MAKE_PROPERTY(celsius, get_celsius, set_celsius);
  MAKE_PROPERTY(kelvin, get_kelvin);
};
class Sensor {
PUBLISHED:
  Sensor();
  Temp current;
  const Temp &get_min() const;
  MAKE_PROPERTY(min, get_min);
};
""")
    H["seq0"] = _hdr("seq0", """
class Node {
PUBLISHED:
  Node();
  int get_num_children() const;
  Node *get_child(int n) const;
  MAKE_SEQ(get_children, get_num_children, get_child);
  int get_num_tags() const;
  int get_tag(int n) const;
  MAKE_SEQ(get_tags, get_num_tags, get_tag);
};
""")
    H["ops0"] = _hdr("ops0", """
class Num {
PUBLISHED:
  Num(int v = 0);
  Num operator + (const Num &o) const;
  Num operator - (const Num &o) const;
  Num operator - () const;
  Num &operator += (const Num &o);
  bool operator == (const Num &o) const;
  bool operator != (const Num &o) const;
  bool operator < (const Num &o) const;
  int operator [] (int i) const;
  int operator () (int a, int b) const;
  operator int () const;
  operator bool () const;
  Num &operator = (const Num &o);
};
""")
    H["ops1"] = _hdr("ops1", """
class Mat;
class Vec2 {
PUBLISHED:
  Vec2(float x = 0, float y = 0);
  Vec2 operator * (float s) const;
  float operator * (const Vec2 &o) const;
  Vec2 operator / (float s) const;
  Vec2 &operator *= (float s);
  float &operator [] (int i);
  float operator [] (int i) const;
  operator const float * () const;
};
""")
    H["ns0"] = _hdr("ns0", """
namespace geo {
  class Pt { PUBLISHED: Pt(); int x() const; };
  namespace detail {
    class Impl { PUBLISHED: Impl(); Pt *origin(); };
  }
  BEGIN_PUBLISH
  int distance(const Pt &a, const Pt &b);
  END_PUBLISH
}
namespace util {
  class Pt { PUBLISHED: Pt(); double y() const; };
  using geo::detail::Impl;
}
""")
    H["ns1"] = _hdr("ns1", """
namespace a { namespace b { namespace c {
  enum E { e0, e1 };
  struct S { PUBLISHED: S(); E e; int f(E x = e1) const; };
}}}
namespace a { typedef b::c::S Short; class UsesShort { PUBLISHED: UsesShort(); Short *s(); }; }
""")
    H["glob0"] = _hdr("glob0", """
#define UNPUBLISHED_CONSTANT 9
class Ctx { PUBLISHED: Ctx(); };
BEGIN_PUBLISH
#define VERSION_MAJOR 3
#define VERSION_STRING "3.1"
#define SCALE 2.5
#define HALF (1.0 / 2)
#define ENABLED
int add(int a, int b = 1);
double add(double a, double b);
Ctx *current(int idx);
void reset();
bool check(const Ctx *c, unsigned int flags = 0);
extern int verbosity;
extern const double pi_value;
END_PUBLISH
int not_published(int);
""")
    H["glob1"] = _hdr("glob1", """
struct Rec { PUBLISHED: int a; short b; char c; };
BEGIN_PUBLISH
#define MAX_ITEMS 16
#define MASK 0xff
#define RATIO 0.25f
Rec make_rec(int a, short b, char c);
int sum(const Rec &r);
long long wide(long long v, unsigned long long u);
float ratio(float a, float b = 2.0f);
extern Rec shared_rec;
END_PUBLISH
""")
    H["str0"] = _hdr("str0", """
#include <string>
class Named {
PUBLISHED:
  Named(const std::string &name);
  std::string get_name() const;
  void set_name(const std::string &n);
  const std::string &ref() const;
  MAKE_PROPERTY(name, get_name, set_name);
  std::string label;
};
""")
    H["abs0"] = _hdr("abs0", """
class Iface {
PUBLISHED:
  virtual int run(int n) = 0;
  virtual ~Iface();
};
class Impl1 : public Iface {
PUBLISHED:
  Impl1();
  virtual int run(int n);
};
class Locked {
PUBLISHED:
  static Locked *get();
  int v() const;
protected:
  Locked();
  ~Locked();
};
class NoCopy {
PUBLISHED:
  NoCopy();
  int v;
private:
  NoCopy(const NoCopy &);
  void operator = (const NoCopy &);
};
""")
    H["mix0"] = _hdr("mix0", """
class Engine;
class Part {
PUBLISHED:
  Part(Engine *e);
  Engine *engine() const;
  enum State { S_new, S_used };
  State state;
};
class Engine {
PUBLISHED:
  Engine();
  int get_num_parts() const;
  Part *get_part(int i) const;
  MAKE_SEQ(get_parts, get_num_parts, get_part);
  Part *first() const;
  MAKE_PROPERTY(first_part, first);
  void attach(Part *p, Part::State s = Part::S_new);
};
""")
    H["mix1"] = _hdr("mix1", """
struct Color4 { PUBLISHED: Color4(float r = 0, float g = 0, float b = 0, float a = 1); float r, g, b, a; };
class Material {
PUBLISHED:
  Material();
  const Color4 &get_diffuse() const;
  void set_diffuse(const Color4 &c);
  bool has_diffuse() const;
  void clear_diffuse();
  MAKE_PROPERTY(diffuse, get_diffuse, set_diffuse);
  Color4 ambient;
  static const Material *get_default();
  Material *copy() const;
  bool operator == (const Material &o) const;
};
""")
    H["ptr0"] = _hdr("ptr0", """
class Buf {
PUBLISHED:
  Buf(int n);
  int size() const;
  const Buf *next() const;
  Buf *next();
  void link(Buf *n, const Buf *prev = 0);
  int sum(const int *data, int n) const;
  void fill(int *out, int n);
  void swap(Buf &other);
  double mean(const double *v, unsigned int n) const;
};
""")
    H["over0"] = _hdr("over0", """
class Over {
PUBLISHED:
  Over();
  int f(int a);
  int f(double a);
  int f(int a, int b);
  int f(const Over &o);
  int f(const Over *o, int extra = 0);
  int g(int a = 1, int b = 2, int c = 3);
  static int h(bool b);
  static int h(char c);
  static int h(unsigned int u, long l = 0);
};
""")
    H["map0"] = _hdr("map0", """
class Dict {
PUBLISHED:
  Dict();
  int get_num_keys() const;
  int get_key(int n) const;
  bool has_value(int key) const;
  double get_value(int key) const;
  void set_value(int key, double v);
  void clear_value(int key);
  double lookup(int key) const;
  int size() const;
  MAKE_MAP_PROPERTY(values, has_value, get_value, set_value, clear_value);
  MAKE_MAP_KEYS_SEQ(values, get_num_keys, get_key);
  MAKE_MAP_PROPERTY(table, lookup);
  MAKE_MAP_PROPERTY(ro_values, has_value, get_value);
  MAKE_MAP_PROPERTY(rw_values, has_value, get_value, set_value);
  MAKE_MAP_KEYS_SEQ(rw_values, size, get_key);
};
""")
    H["seqp0"] = _hdr("seqp0", """
class Lst {
PUBLISHED:
  Lst();
  int get_num_items() const;
  int get_item(int n) const;
  void set_item(int n, int v);
  void remove_item(int n);
  void insert_item(int n, int v);
  int count() const;
  int peek(int n) const;
  MAKE_SEQ_PROPERTY(items, get_num_items, get_item, set_item, remove_item, insert_item);
  MAKE_SEQ_PROPERTY(ro_items, count, peek);
  MAKE_SEQ_PROPERTY(rw_items, get_num_items, get_item, set_item);
  MAKE_SEQ_PROPERTY(rwd_items, count, get_item, set_item, remove_item);
  MAKE_SEQ(get_items, get_num_items, get_item);
  MAKE_SEQ(peek_all, count, peek);
};
""")
    H["prop2"] = _hdr("prop2", """
class Opt {
PUBLISHED:
  Opt();
  bool has_color() const;
  int get_color() const;
  void set_color(int c);
  void clear_color();
  bool has_size() const;
  float get_size() const;
  void set_size(float s);
  void clear_size();
  MAKE_PROPERTY2(color, has_color, get_color, set_color, clear_color);
  MAKE_PROPERTY2(ro_color, has_color, get_color);
  MAKE_PROPERTY2(size, has_size, get_size, set_size, clear_size);
  MAKE_PROPERTY(plain_size, get_size, set_size);
  class Sub {
  PUBLISHED:
    Sub();
    int get_v() const;
    void set_v(int v);
    MAKE_PROPERTY(v, get_v, set_v);
  };
};
""")
    # types the builder starts to define and then removes again (function types), so that the index space has
    # holes: function-pointer typedefs, data members, globals, parameters, return types, pointers to members
    H["fnptr0"] = _hdr("fnptr0", """
class Target { PUBLISHED: Target(); int v; int method(int a); };
typedef void (*Callback)(int);
typedef int (*BinOp)(int, int);
typedef int (Target::*MemFn)(int);
typedef int Target::*MemPtr;
class Handler {
PUBLISHED:
  Handler();
  Callback on_event;
  int (*filter)(double);
  BinOp op;
  MemFn member_fn;
  MemPtr member_ptr;
  int level;
  void set_callback(Callback cb);
  Callback get_callback() const;
  void with_fn(int (*fn)(int, int));
  void with_mem(MemFn f);
  int (*fetch_filter() const)(double);
  int get_priority() const;
  void set_priority(int p);
  MAKE_PROPERTY(prio, get_priority, set_priority);
};
BEGIN_PUBLISH
extern Callback global_cb;
extern int (*global_fp)(int);
int run_handlers(int n, Callback cb = 0);
END_PUBLISH
""")
    H["odd0"] = _hdr("odd0", """
class Incomplete;
class Payload { PUBLISHED: Payload(); int v; };
template<class T> struct Slot { PUBLISHED: Slot(); T value; T *ptr; T get() const; void set(const T &v); };
typedef Slot<int> IntSlot;
typedef Slot<Payload> PayloadSlot;
class Odd {
PUBLISHED:
  Odd();
  unsigned int bits : 3;
  int small : 5;
  int table[4];
  Payload items[2];
  struct { int ax; int ay; } anon_struct;
  union { int ui; float uf; } anon_union;
  Incomplete *inc_ptr;
  IntSlot slot;
  PayloadSlot *pslot;
  int priority;
  void with_ref(Incomplete &r);
  void with_cref(const Incomplete &r);
  void with_rref(Payload &&t);
  void with_arr(int arr[], int n);
  void with_arr2(const Payload arr[2]);
  Incomplete &get_inc();
  const Incomplete *get_cinc() const;
  decltype(priority) get_priority() const;
  auto get_auto() const -> int;
  Payload &&steal();
  IntSlot *get_slot();
};
""")
    H["ext0"] = _hdr("ext0", """
class Ext {
PUBLISHED:
  Ext();
  EXTENSION(int ext(int v));
  EXTENSION(static Ext *make_ext());
  int plain(int v);
  EXTENSION(int plain(double v));
};
""")
    H["minh2"] = _hdr("minh2", """
class Engine { PUBLISHED: Engine(); virtual ~Engine(); int power() const; };
class Radio { PUBLISHED: Radio(); virtual ~Radio(); int volume() const; };
class Seat { PUBLISHED: Seat(); int rows() const; };
class Car : public Engine, public Radio, public Seat { PUBLISHED: Car(); int wheels() const; };
class Truck : public Seat, public Engine { PUBLISHED: Truck(); int axles() const; };
class Vehicle { PUBLISHED: Vehicle(); virtual ~Vehicle(); int id() const; };
class Boat { PUBLISHED: Boat(); virtual ~Boat(); int draft() const; };
class Amph : public Boat, virtual public Vehicle, public Seat { PUBLISHED: Amph(); int mode() const; };
class Hover : virtual public Vehicle, public Radio { PUBLISHED: Hover(); };
""")
    # declarations the builder rejects (unsuitable getter): nothing of them may be left in the class's lists
    H["bad0"] = _hdr("bad0", """
class Bar {
PUBLISHED:
  Bar();
  int get_num_xs() const;
  int get_x(float f) const;
  MAKE_SEQ(get_xs, get_num_xs, get_x);
  int get_y(int a, int b) const;
  MAKE_PROPERTY(y, get_y);
  int get_num_zs() const;
  int get_z(int i) const;
  MAKE_SEQ(get_zs, get_num_zs, get_z);
  int get_w() const;
  MAKE_PROPERTY(w, get_w);
};
""")
    H["stat0"] = _hdr("stat0", """
class Counter {
PUBLISHED:
  static int get_count();
  static void set_count(int c);
  static Counter *global_ptr();
  static int total;
  static const int limit = 10;
  Counter();
  int inc(int by = 1);
};
""")
    return H


def library_sets():
    """Sets of libraries whose headers include each other (through -I, so a type of another library is
    referenced, not owned).  Each set: list of (library name, header name, header text)."""
    S = {}
    S["chain"] = [
        ("liba", "sa", _hdr("sa", """
class Base {
PUBLISHED:
  Base();
  virtual ~Base();
  int get_x() const;
  void set_x(int x);
  MAKE_PROPERTY(x, get_x, set_x);
  enum Color { red, green = 5 };
  class Inner { PUBLISHED: Inner(); int v; };
  Inner *inner();
  int get_num_items() const;
  int get_item(int n) const;
  MAKE_SEQ(get_items, get_num_items, get_item);
};
""")),
        ("libb", "sb", _hdr("sb", """
class Derived : public Base {
PUBLISHED:
  Derived();
  Base *as_base();
  Base::Color color() const;
  int use(const Base &b, Base::Inner *i = 0);
};
class Holder { PUBLISHED: Holder(); Base *held; Derived d; };
// a class without published members in the middle of a published hierarchy: recorded as not fully defined, but
// it carries its base-class list (a cross reference into the other library that every merge has to carry over)
class Quiet : public Base { public: int hidden() const; };
class Loud : public Quiet { PUBLISHED: Loud(); int loud() const; };
""", includes=["sa"])),
        ("libc", "sc", _hdr("sc", """
class MoreDerived : public Derived {
PUBLISHED:
  MoreDerived();
  Derived *up();
  Base *top();
  void take(Holder *h, Base::Color c = Base::green);
};
""", includes=["sa", "sb"])),
    ]
    S["diamond"] = [
        ("libtop", "dtop", _hdr("dtop", """
class Top { PUBLISHED: Top(); virtual ~Top(); int top() const; };
""")),
        ("libmida", "dmida", _hdr("dmida", """
class MidA : virtual public Top { PUBLISHED: MidA(); int a() const; Top *t(); };
""", includes=["dtop"])),
        ("libmidb", "dmidb", _hdr("dmidb", """
class MidB : virtual public Top { PUBLISHED: MidB(); int b() const; const Top &ct() const; };
""", includes=["dtop"])),
        ("libbot", "dbot", _hdr("dbot", """
class Bottom : public MidA, public MidB { PUBLISHED: Bottom(); int bottom() const; MidA *ma(); MidB *mb(); Top *tt(); };
""", includes=["dtop", "dmida", "dmidb"])),
    ]
    S["nsenum"] = [
        ("libmath", "nmath", _hdr("nmath", """
enum Axis { AX_x, AX_y, AX_z };
struct Vec {
PUBLISHED:
  Vec(float x = 0, float y = 0);
  float x, y;
  float dot(const Vec &o) const;
  Vec operator + (const Vec &o) const;
  float operator [] (int i) const;
  operator bool () const;
};
typedef Vec Point;
#define MATH_VERSION 2
""")),
        ("libphys", "nphys", _hdr("nphys", """
class Body {
PUBLISHED:
  Body();
  Vec get_pos() const;
  void set_pos(const Vec &p);
  MAKE_PROPERTY(pos, get_pos, set_pos);
  Point *anchor();
  float along(Axis a) const;
  enum Kind { K_static, K_dynamic };
  Kind kind;
};
#define PHYS_VERSION 3
BEGIN_PUBLISH
Body *nearest(const Vec &p);
END_PUBLISH
""", includes=["nmath"])),
        ("libgame", "ngame", _hdr("ngame", """
class Player : public Body {
PUBLISHED:
  Player();
  Vec aim;
  Body *target();
  void face(Axis a = AX_z);
  Body::Kind wanted() const;
  int get_num_foes() const;
  Body *get_foe(int n) const;
  MAKE_SEQ(get_foes, get_num_foes, get_foe);
};
""", includes=["nmath", "nphys"])),
    ]
    S["pair"] = [
        ("libone", "pone", _hdr("pone", """
class One { PUBLISHED: One(); int v() const; operator int () const; bool operator == (const One &o) const; };
typedef One *OnePtr;
BEGIN_PUBLISH
One *make_one(int v = 1);
END_PUBLISH
""")),
        ("libtwo", "ptwo", _hdr("ptwo", """
class Two { PUBLISHED: Two(One *o); OnePtr one() const; int sum(const One &a, const One &b) const; One first; };
BEGIN_PUBLISH
int total(const One *a, const Two *b);
END_PUBLISH
""", includes=["pone"])),
    ]
    # a class one library only forward-declares and another defines, with derivation / nested / outer links
    S["fwd"] = [
        ("libshape", "fshape", _hdr("fshape", """
class Circle;
class Shape {
PUBLISHED:
  Shape();
  virtual ~Shape();
  bool overlaps(const Circle *other) const;
  Circle *as_circle();
  int get_id() const;
  class Style { PUBLISHED: Style(); int width; };
  Style *style();
};
""")),
        ("libcircle", "fcircle", _hdr("fcircle", """
class Circle : public Shape {
PUBLISHED:
  Circle(double radius = 1.0);
  double get_radius() const;
  Shape *as_shape();
  Shape::Style *get_style();
  class Arc { PUBLISHED: Arc(); double get_angle() const; Circle *owner(); };
  Arc *arc();
};
class Ring : public Circle { PUBLISHED: Ring(); Circle::Arc *outer(); };
""", includes=["fshape"])),
    ]
    # the same class owned (fully defined and exported) by two libraries: both name the shared header on
    # their command line
    shared = _hdr("xshared", """
class Shared { PUBLISHED: Shared(); int id() const; void set_id(int i); MAKE_PROPERTY(id, id, set_id); enum Kind { k0, k1 }; };
""")
    S["conflict"] = [
        ("libx1", "x1", _hdr("x1", """
class UsesA { PUBLISHED: UsesA(); Shared *s(); Shared::Kind k; };
""", includes=["xshared"]), {"xshared": shared}),
        ("libx2", "x2", _hdr("x2", """
class UsesB : public Shared { PUBLISHED: UsesB(); const Shared &cs() const; };
""", includes=["xshared"]), {"xshared": shared}),
        ("libx3", "x3", _hdr("x3", """
class UsesC { PUBLISHED: UsesC(); int f(int a); };
"""), {}),
    ]
    return S


def interrogate(workdir, header, lib, outbase, backend="-python-native", opts=("-fnames",), incdirs=(), extra_headers=(),
                trace=None, string=True, nodb=False):
    """Run the built interrogate on <workdir>/<header>.h (+ extra headers named on the command line)."""
    args = ["-DCPPPARSER", "-od", outbase + ".in", "-oc", outbase + ".cxx", "-module", "m", "-library", lib, backend]
    args += list(opts)
    if string:
        args.append("-string")
    if nodb:
        args.append("-nodb")
    args += ["-S" + os.path.join(REPO, "parser-inc")]
    for d in incdirs:
        args.append("-I" + d)
    args += [h + ".h" for h in extra_headers] + [header + ".h"]
    r = run.run_tool("interrogate", args, cwd=workdir, trace=trace, timeout=120, outputs=[outbase + ".in", outbase + ".cxx"])
    return r, args


# ---------------------------------------------------------------------------------------------
def raw_to_model(raw):
    """A raw-index dump of idbm_tool -> the database record format of specs/IdbDB.tla (as JSON)."""
    def rec(k, conv):
        return [{"i": x["i"], "r": conv(x)} for x in raw[k]]
    return {
        "w": rec("w", lambda x: dict(n=x["n"], un=x["un"], lib=x["lib"], fn=x["fn"], ret=x["ret"], rvd=x["rvd"], ps=x["ps"],
                                     this=bool(x["pf"] and (x["pf"][0] & 2)))),
        "f": rec("f", lambda x: dict(sn=x["sn"], n=x["n"], isget=bool(x["fl"] & 0x10), isset=bool(x["fl"] & 0x20),
                                     lib=x["lib"], gl=bool(x["fl"] & 1), method=bool(x["fl"] & 4), cls=x["cls"],
                                     cw=x["cw"], pw=x["pw"])),
        "t": rec("t", lambda x: dict(tn=x["tn"], n=x["n"], cn=x["n"].split("<")[0].strip(), sn=x["sn"], lib=x["lib"],
                                     ptr=bool(x["fl"] & 0x100), cst=bool(x["fl"] & 0x200), fd=bool(x["fd"]), gl=bool(x["gl"]),
                                     outer=x["outer"], wrapped=x["wrapped"], ctors=x["ctors"], dtor=x["dtor"], elems=x["elems"],
                                     methods=x["methods"], mseqs=x["mseqs"], casts=x["casts"],
                                     derivs=[dict(base=d["base"], up=d["up"], down=d["down"], nodown=bool(d["fl"] & 4))
                                             for d in x["derivs"]],
                                     nested=x["nested"])),
        "m": rec("m", lambda x: dict(n=x["n"], lib=x["lib"], type=x["type"], getter=x["getter"])),
        "e": rec("e", lambda x: dict(sn=x["sn"], n=x["n"], lib=x["lib"], gl=bool(x["gl"]), type=x["type"], getter=x["getter"],
                                     setter=x["setter"], has=x["has"], clear=x["clear"], **{"del": x["del"]}, ins=x["ins"],
                                     getkey=x["getkey"], len=x["len"])),
        "s": rec("s", lambda x: dict(sn=x["sn"], n=x["n"], lib=x["lib"], lenf=x["lenf"], elemf=x["elemf"])),
        "allT": raw["allT"], "globT": raw["globT"], "allF": raw["allF"], "globF": raw["globF"],
        "globM": raw["globM"], "globE": raw["globE"], "next": raw["next"],
    }


def model_files(mdb):
    """The maps of a database in model format = the `file` argument of ReadNewDB."""
    return {k: mdb[k] for k in ("w", "f", "t", "m", "e", "s")}


def eval_states(states, workdir, name, timeout=900):
    """states: list of dicts for IdbState (id, first, single, db[, singles]).  Returns {id: verdict}."""
    from .. import tlc
    sp = os.path.join(workdir, name + ".states.ndjson")
    vp = os.path.join(workdir, name + ".verdicts.ndjson")
    with open(sp, "w") as f:
        for s in states:
            f.write(json.dumps(s) + "\n")
    if os.path.exists(vp):
        os.unlink(vp)
    r = tlc.run("IdbState", "IdbState", workers=1, env={"VERIF_STATES": sp, "VERIF_DUMP": vp}, timeout=timeout)
    tlc.must_ok(r, "IdbState")
    out = {}
    for v in tlc.read_dump(vp):
        out[v["id"]] = v
    if len(out) != len(states):
        raise MachineryError("IdbState evaluated %d of %d databases" % (len(out), len(states)))
    return out, r


# ---------------------------------------------------------------------------------------------
# port of InterrogateBuilder::hash_string (src/interrogate/interrogateBuilder.cxx); every run asserts that
# it reproduces the wrapper names interrogate assigns to a control library (c11.py: hash_control)
def hash_string(name, shift_offset):
    h, shift = 0, 0
    for c in name.encode():
        sc = (c << shift) & 0xffffff
        if shift > 16:
            sc |= (c >> (24 - shift)) & 0xff
        h = (h + sc) & 0xffffff
        shift = (shift + shift_offset) % 24
    product = h * 4999
    h = (product ^ (product >> 24)) & 0xffffff
    out = ""
    for _ in range(4):
        v = h & 0x3f
        h >>= 6
        out += (chr(65 + v) if v < 26 else chr(97 + v - 26) if v < 52 else chr(48 + v - 52) if v < 62 else "_")
    return out


# ---------------------------------------------------------------------------------------------
# ground truth of a header: what its MAKE_* declarations say, by name
_FORMS = {
    # macro -> {number of function arguments: fields in argument order}
    "MAKE_PROPERTY": {1: ["getter"], 2: ["getter", "setter"], 3: ["getter", "setter", "del"]},
    "MAKE_PROPERTY2": {2: ["has", "getter"], 4: ["has", "getter", "setter", "clear"]},
    "MAKE_SEQ_PROPERTY": {2: ["len", "getter"], 3: ["len", "getter", "setter"], 4: ["len", "getter", "setter", "del"],
                          5: ["len", "getter", "setter", "del", "ins"]},
    "MAKE_MAP_PROPERTY": {1: ["getter"], 2: ["has", "getter"], 3: ["has", "getter", "setter"],
                          4: ["has", "getter", "setter", "del"]},
    "MAKE_MAP_KEYS_SEQ": {2: ["len", "getkey"]},
    "MAKE_SEQ": {2: ["lenf", "elemf"]},
}
_EFIELDS = ["getter", "setter", "has", "clear", "del", "ins", "getkey", "len"]
_TOK = re.compile(r"\b(class|struct|namespace|enum)\b[^;{}()]*\{|\{|\}|\b(%s)\s*\(([^)]*)\)\s*;" % "|".join(_FORMS))


def header_truth(text):
    """[{k:'e'|'s', sn, f, fn}]: for every element / make_seq declared with a MAKE_* macro in a (possibly nested)
    class of the header, the function each link field must name ('' = the field must be empty)."""
    scope, props, seqs, bases = [], {}, {}, []
    for m in _TOK.finditer(text):
        tok = m.group(0)
        if tok == "}":
            if scope:
                scope.pop()
        elif tok == "{":
            scope.append(None)
        elif m.group(1):
            nm = re.match(r"(class|struct|namespace|enum)\s+(?:class\s+)?(\w+)", tok)
            kind = m.group(1)
            scope.append((kind, nm.group(2)) if nm and kind in ("class", "struct", "namespace") else None)
            colon = re.search(r"(?<!:):(?!:)", tok)
            if nm and kind in ("class", "struct") and colon and all(x and x[0] != "namespace" for x in scope):
                heads = tok[colon.end():].rstrip("{").split(",")
                if not any("<" in h or "::" in h for h in heads):
                    cls = "::".join(x[1] for x in scope)
                    for i, h in enumerate(heads):
                        words = h.split()
                        if "private" in words or "protected" in words:
                            break
                        bases.append(dict(k="b", sn=cls, idx=i + 1, base=words[-1], virt=1 if "virtual" in words else 0))
        else:
            if any(x is None or x[0] == "namespace" for x in scope) or not scope:
                continue            # not exported / not in a class
            cls = "::".join(x[1] for x in scope)
            args = [a.strip() for a in m.group(3).split(",")]
            name, fns = args[0], args[1:]
            form = _FORMS[m.group(2)].get(len(fns))
            if form is None:
                continue
            tgt = seqs if m.group(2) == "MAKE_SEQ" else props
            ent = tgt.setdefault(cls + "::" + name, {})
            for f, fn in zip(form, fns):
                ent[f] = cls + "::" + fn
    out = []
    for sn, ent in sorted(props.items()):
        for f in _EFIELDS:
            out.append(dict(k="e", sn=sn, f=f, fn=ent.get(f, "")))
    for sn, ent in sorted(seqs.items()):
        for f in ("lenf", "elemf"):
            out.append(dict(k="s", sn=sn, f=f, fn=ent[f]))
    return out + bases


# every index-valued field of every record kind: (label, kind, test on a raw record)
INDEX_FIELDS = (
    [("element." + f, "e", (lambda r, f=f: r[f] != 0)) for f in ("type", "getter", "setter", "has", "clear", "del", "ins", "getkey", "len")]
    + [("make_seq." + f, "s", (lambda r, f=f: r[f] != 0)) for f in ("lenf", "elemf")]
    + [("type." + f, "t", (lambda r, f=f: r[f] != 0)) for f in ("dtor", "outer", "wrapped")]
    + [("type." + f, "t", (lambda r, f=f: len(r[f]) > 0)) for f in ("ctors", "casts", "methods", "elems", "mseqs", "nested")]
    + [("type.derivation.base", "t", lambda r: any(d["base"] for d in r["derivs"])),
       ("type.derivation.upcast", "t", lambda r: any(d["up"] for d in r["derivs"])),
       ("type.derivation.downcast", "t", lambda r: any(d["down"] for d in r["derivs"])),
       ("type.enum_values", "t", lambda r: r["nev"] > 0)]
    + [("wrapper." + f, "w", (lambda r, f=f: r[f] != 0)) for f in ("fn", "ret", "rvd")]
    + [("wrapper.parameter_types", "w", lambda r: len(r["ps"]) > 0)]
    + [("function.cls", "f", lambda r: r["cls"] != 0), ("function.c_wrappers", "f", lambda r: len(r["cw"]) > 0),
       ("function.python_wrappers", "f", lambda r: len(r["pw"]) > 0)]
    + [("manifest.type", "m", lambda r: r["type"] != 0), ("manifest.getter", "m", lambda r: r["getter"] != 0)]
)


def field_coverage(raws):
    """label -> number of databases in which the field is non-zero in at least one record."""
    cov = {lab: 0 for lab, _, _ in INDEX_FIELDS}
    for raw in raws:
        for lab, kind, test in INDEX_FIELDS:
            if any(test(r) for r in raw[kind] if "null" not in r):
                cov[lab] += 1
    return cov


# the header whose known finding C11-wstring-atomic-string it reproduces; generated only once the finding is listed
WSTR0 = _hdr("wstr0", """
class Wide {
PUBLISHED:
  Wide();
  void take(const wchar_t *w, const char *s);
  const wchar_t *give() const;
  int plain(const char *s);
};
""")
