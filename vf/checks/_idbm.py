"""Shared by c13.py and c11.py: the idbm_tool driver, the database-file writer (text format of
InterrogateDatabase::write), the canonical projection, and the generator of small C++ libraries."""
import json, os, subprocess
from ..common import MachineryError, REPO
from .. import harness, run, build

FRESH_BIT = {"tn": 1, "tsn": 2, "ttn": 4, "mn": 8, "en": 16, "esn": 32}


def tool():
    return harness.ensure("idbm_tool", ["idbm_tool.cxx"], flags=["-fno-access-control"], link_idb=True)


# ---------------------------------------------------------------------------------------------
# database file writer: the text format read by InterrogateDatabase::read_new
def _s(x, ws=" "):
    return "%d%s" % (len(x), ws) + (x + ws if x else "")


def _v(xs):
    return "%d " % len(xs) + "".join("%d " % x for x in xs)


def _comp(name):
    return _s(name) + "0 "


def write_idb(path, lib, fj, module="m", ident=0):
    """fj: {"w":[{"i":..,"r":{...}}], "f":..., "t":..., "m":..., "e":..., "s":...} as dumped by IdbMC (record
    fields of specs/IdbDB.tla).  Records are written in ascending index order, like InterrogateDatabase::write."""
    out = ["%d\n3 3\n" % ident, _s(lib), _s("H" + lib[:3]), _s(module), "\n"]

    def recs(k):
        return sorted(((x["i"], x["r"]) for x in fj[k]), key=lambda p: p[0])
    fs = recs("f")
    out.append("%d\n" % len(fs))
    for i, r in fs:
        name = r["sn"].split("::")[-1]
        flags = (1 if r["gl"] else 0) | (4 if r.get("method") else 0)
        out.append("%d %s%d %d %s%s%s%s%s\n" % (i, _comp(name), flags, r["cls"], _s(r["sn"]), _v(r["cw"]), _v(r["pw"]),
                                              _s("", "\n"), _s("", "\n")))
    ws = recs("w")
    out.append("%d\n" % len(ws))
    for i, r in ws:
        flags = 2 | (4 if r["n"] else 0)
        params = "%d " % len(r["ps"]) + "".join("%s%d %d  " % (_s("p%d" % k), 1, t) for k, t in enumerate(r["ps"]))
        out.append("%d %s%d %d %d %d %s%s%s\n" % (i, _comp(r["n"]), flags, r["fn"], r["ret"], r["rvd"], _s(r["un"]), _s(""), params))
    ts = recs("t")
    out.append("%d\n" % len(ts))
    for i, r in ts:
        flags = (1 if r["gl"] else 0) | (0x2000 if r["fd"] else 0)
        if r["wrapped"]:
            flags |= 0x180
        elif r["outer"]:
            flags |= 0x40000 | 0x800
        else:
            flags |= 0x800
        derivs = "%d " % len(r["derivs"]) + "".join("%d %d %d %d " % (1 if d["up"] else 0, d["base"], d["up"], d["down"]) for d in r["derivs"])
        out.append("%d %s%d %s%s%d %d %d %s%d %s%s%s%s%s%s%s%s\n" % (
            i, _comp(r["n"]), flags, _s(r["sn"]), _s(r["tn"]), r["outer"], 0, r["wrapped"],
            _v(r["ctors"]), r["dtor"], _v(r["elems"]), _v(r["methods"]), _v(r["mseqs"]), _v(r["casts"]),
            derivs, "0 ", _v(r["nested"]), _s("", "\n")))
    ms = recs("m")
    out.append("%d\n" % len(ms))
    for i, r in ms:
        out.append("%d %s%d %d %d %d %s\n" % (i, _comp(r["n"]), 1 if r["type"] else 0, 0, r["type"], r["getter"], _s("1")))
    es = recs("e")
    out.append("%d\n" % len(es))
    for i, r in es:
        flags = (1 if r["gl"] else 0) | (2 if r["getter"] else 0) | (4 if r["setter"] else 0)
        out.append("%d %s%d %d %d %d %d %d %d %d %d %d %s%s\n" % (
            i, _comp(r["n"]), flags, r["type"], r["getter"], r["setter"], r["has"], r["clear"], r["del"], r["len"],
            r["ins"], r["getkey"], _s(r["sn"]), _s("", "\n")))
    ss = recs("s")
    out.append("%d\n" % len(ss))
    for i, r in ss:
        out.append("%d %s%d %d %s%s\n" % (i, _comp(r["n"]), r["lenf"], r["elemf"], _s(r["sn"]), _s("", "\n")))
    with open(path, "w") as f:
        f.write("".join(out))


# ---------------------------------------------------------------------------------------------
# canonical projection: byte-identical to what `idbm_tool ... proj` prints after "P":
def _q(s):
    return json.dumps(s)


def _b(x):
    return "1" if x in (True, 1) else "0"


def _ks(xs):
    return "[" + ",".join(_q(x) for x in xs) + "]"


def _wrec(w):
    if "bad" in w:
        return _q(w["bad"])
    return '{"n":%s,"lib":%s,"fn":%s,"ret":%s,"rvd":%s,"ps":%s}' % (_q(w["n"]), _q(w["lib"]), _q(w["fn"]), _q(w["ret"]),
                                                                   _q(w["rvd"]), _ks(w["ps"]))


def _join(v):
    return "[" + ",".join(sorted(v)) + "]"


def canon_proj(p):
    T = ['{"tn":%s,"n":%s,"sn":%s,"lib":%s,"fd":%s,"gl":%s,"outer":%s,"wrapped":%s,"ctors":%s,"dtor":%s,"elems":%s,'
         '"methods":%s,"mseqs":%s,"casts":%s,"derivs":[%s],"nested":%s}' % (
             _q(t["tn"]), _q(t["n"]), _q(t["sn"]), _q(t["lib"]), _b(t["fd"]), _b(t["gl"]), _q(t["outer"]), _q(t["wrapped"]),
             _ks(t["ctors"]), _q(t["dtor"]), _ks(t["elems"]), _ks(t["methods"]), _ks(t["mseqs"]), _ks(t["casts"]),
             ",".join("[%s,%s,%s]" % (_q(d[0]), _q(d[1]), _q(d[2])) for d in t["derivs"]), _ks(t["nested"]))
         for t in p["T"]]
    F = ['{"lib":%s,"sn":%s,"cls":%s,"cw":[%s],"pw":[%s]}' % (
        _q(f["lib"]), _q(f["sn"]), _q(f["cls"]), ",".join(_wrec(w) for w in f["cw"]), ",".join(_wrec(w) for w in f["pw"]))
        for f in p["F"]]
    E = ['{"lib":%s,"sn":%s,"gl":%s,"type":%s,"getter":%s,"setter":%s,"has":%s,"clear":%s,"del":%s,"ins":%s,"getkey":%s,"len":%s}' % (
        _q(e["lib"]), _q(e["sn"]), _b(e["gl"]), _q(e["type"]), _q(e["getter"]), _q(e["setter"]), _q(e["has"]), _q(e["clear"]),
        _q(e["del"]), _q(e["ins"]), _q(e["getkey"]), _q(e["len"])) for e in p["E"]]
    M = ['{"lib":%s,"n":%s,"type":%s,"getter":%s}' % (_q(m["lib"]), _q(m["n"]), _q(m["type"]), _q(m["getter"])) for m in p["M"]]
    S = ['{"lib":%s,"sn":%s,"lenf":%s,"elemf":%s}' % (_q(s["lib"]), _q(s["sn"]), _q(s["lenf"]), _q(s["elemf"])) for s in p["S"]]
    return ('{"T":%s,"F":%s,"E":%s,"M":%s,"S":%s,"allT":%s,"globT":%s,"allF":%s,"globF":%s,"globM":%s,"globE":%s,'
            '"nw":%d,"nt":%d,"nf":%d,"ne":%d,"nm":%d,"ns":%d}' % (
                _join(T), _join(F), _join(E), _join(M), _join(S),
                _join(_q(x) for x in p["allT"]), _join(_q(x) for x in p["globT"]), _join(_q(x) for x in p["allF"]),
                _join(_q(x) for x in p["globF"]), _join(_q(x) for x in p["globM"]), _join(_q(x) for x in p["globE"]),
                p["nw"], p["nt"], p["nf"], p["ne"], p["nm"], p["ns"]))


# ---------------------------------------------------------------------------------------------
def run_script(script_lines, workdir, name, trace=None, timeout=600):
    """Run one batch script; returns {case id: [step dict,...]} where a proj step has keys
    'P' (canonical string, unparsed) and the scalar fields; plus {'exit':..,'sig':..} as last element."""
    spath = os.path.join(workdir, name + ".script")
    opath = os.path.join(workdir, name + ".out")
    with open(spath, "w") as f:
        f.write("\n".join(script_lines) + "\n")
    if os.path.exists(opath):
        os.unlink(opath)
    r = run.run_tool(tool(), ["batch", spath, opath], cwd=workdir, trace=trace, timeout=timeout, monitor=False)
    if r.rc != 0 or r.timed_out:
        raise MachineryError("idbm_tool batch failed rc=%s: %s" % (r.rc, r.stderr[-500:]))
    res = {}
    with open(opath) as f:
        for line in f:
            line = line.rstrip("\n")
            if not line:
                continue
            head, sep, tail = line.partition(',"P":')
            if sep:
                d = json.loads(head + "}")
                d["P"] = tail[:-1]
            else:
                d = json.loads(line)
            res.setdefault(d["case"], []).append(d)
    return res, r.stderr


def content_key(content):
    return json.dumps(content, sort_keys=True)
