"""C05 — the database describes every exported entity truthfully.

CppLib is the ground-truth model held by the generator that writes the header.  ExportDescMC enumerates
libraries whose entities carry the facts to be described (member functions of every role with ordered
parameters, default arguments, unnamed parameters, class types by value / pointer / reference; operators,
typecast, data members, destructors, enums; base lists with virtual / multiple / protected bases;
documentation comments) and dumps, with each library, the description the model demands (wrapper variants
with optional flags, `this`, return type, caller-owns, roles, up/down-cast availability, comments).
CommentAttach is the comment-placement machine (all line sequences of length <= 5).  Every library is
rendered, run through interrogate, and the -od database read through the query interface is compared
entity by entity with the model (objective facts only; never index numbers or order)."""
import json, os, subprocess
from ..common import MachineryError, NCPU
from .. import build, tlc, run, idb, cpplib

BATCH = 150
QUICK = ["ExportDesc_sig", "ExportDesc_roles", "ExportDesc_ops", "ExportDesc_enums", "ExportDesc_redecl", "ExportDesc_props", "ExportDesc_props2",
         "ExportDesc_bases", "ExportDesc_defbase", "ExportDesc_virt", "ExportDesc_virt2",
         "ExportDesc_copy", "ExportDesc_nest", "ExportDesc_tops"]
THOROUGH = [c + "_t" for c in QUICK]
GXX = ["g++", "-std=c++17", "-fsyntax-only", "-w", "-D__published=public", "-D__begin_publish=", "-D__end_publish=", "-D__make_property(...)=", "-D__make_seq(...)=",
       "-I.", "-Isub", "-Iinc", "-Isys"]


# ---- comparison of one library with the database ---------------------------------------------------
def variant_key(cs, v):
    """expected wrapper variant -> tuple of (name | None, type name, is_this, is_optional)"""
    out = []
    for p in v:
        name = "this" if p["this"] else ("p%d" % p["idx"] if p["named"] else None)
        out.append((name, cs.dbtype(p["t"]), bool(p["this"]), bool(p["opt"])))
    return tuple(out)


def wrapper_key(db, w):
    return tuple((p["name"] if p["has_name"] else None, db.tyname(p["type"]), bool(p["is_this"]), bool(p["is_optional"]))
                 for p in w["parameters"])


def decl_comments(cs, cms, name):
    """texts of the comments of the declarations of one function: the first declaration documents `name`, the r-th
    later one `name_r<r>`"""
    return [cs.doc(st, name if r == 0 else "%s_r%d" % (name, r)) for r, st in enumerate(cms)]


def expected_fn_comments(texts):
    """(function comment, wrapper comment): the function collects the comments of all its declarations, in order; a
    wrapper shows the longest of them (the first among equally long ones) - both documented in get_function"""
    some = [t for t in texts if t]
    fc = "\n\n".join(some)
    wc, wl = "", 0
    for t in some:
        n = len(t) + (1 if t.startswith("//") else 0)      # the raw text of a // comment ends with its newline
        if n > wl:
            wc, wl = t, n
    return fc, wc


def compare_case(cs, db):
    """list of (what, expected, observed) mismatches"""
    bad = []
    d = cs.rec["desc"]

    def chk(what, e, o):
        if e != o:
            bad.append((what, e, o))

    # function identity: the members the model groups under one identity are ONE function of the database
    groups = {}
    for f in d["fns"]:
        fid = f.get("fid") or dict(name="", unary=f["flags"]["unary"], anon=f["i"])
        groups.setdefault((f["c"], fid["name"], bool(fid["unary"]), fid["anon"]), []).append(f)
    for (c, _n, unary, _a), fs in sorted(groups.items(), key=lambda x: str(x[0])):
        f0 = fs[0]
        C = cs.cscoped(c)
        isctor = f0["flags"]["ctor"]
        sc = C + "::" + (cs.cname(c) if isctor else cs.dbname(c, f0["i"]))
        tag = "%s (%s)" % (sc, " ".join(cs.member_text(c, f["i"]) for f in fs))
        fns = [x for x in db.funcs.get(sc, []) if bool(x["is_unary_op"]) == unary]
        if len(fns) != 1:
            bad.append(("function records (unary=%s) for %s" % (unary, tag), 1,
                        [(x["scoped_name"], bool(x["is_unary_op"]), sorted(wrapper_key(db, w) for w in db.wrappers(x)))
                         for x in db.funcs.get(sc, [])]))
            continue
        fn = fns[0]
        ws = db.wrappers(fn)
        if isctor:
            ws = [w for w in ws if not w["is_copy_constructor"]]       # the implicit copy constructor shares the name
        chk("class of " + tag, C, db.tyname(fn["class"]))
        e_r = dict(method=True, virtual=any(f["flags"]["virtual"] for f in fs), constructor=isctor, destructor=False,
                   unary_op=unary, operator_typecast=f0["flags"]["typecast"])
        o_r = dict(method=bool(fn["is_method"]), virtual=bool(fn["is_virtual"]), constructor=bool(fn["is_constructor"]),
                   destructor=bool(fn["is_destructor"]), unary_op=bool(fn["is_unary_op"]),
                   operator_typecast=bool(fn["is_operator_typecast"]))
        if e_r != o_r:          # an overload set of which some, not all, members are virtual: "virtual" = some overload is
            mixed = len({bool(f["flags"]["virtual"]) for f in fs}) > 1
            bad.append(("roles of " + tag, e_r, o_r, ["C05-overload-virtual-first"] if mixed else []))
        e_v = sorted((variant_key(cs, v) for f in fs for v in f["variants"]), key=str)
        o_v = sorted((wrapper_key(db, w) for w in ws), key=str)
        if e_v != o_v:
            bad.append(("wrapper variants (ordered parameters: name, type, this, optional) of " + tag, e_v, o_v,
                        ["C05-redecl-param-names"] if any(late_names(cs.cls[c - 1]["members"][f["i"] - 1]) for f in fs) else []))
        for f in fs:
            r = f["ret"]
            mine = {variant_key(cs, v) for v in f["variants"]}
            fc, wc = expected_fn_comments(decl_comments(cs, f.get("cms") or [f["cm"]], cs.mname(c, f["i"])))
            for w in ws:
                if wrapper_key(db, w) not in mine:
                    continue
                chk("return of " + tag, (bool(r["has"]), cs.dbtype(r["t"]), bool(r["owns"])),
                    (bool(w["has_return_value"]), db.tyname(w["return_type"]), bool(w["caller_manages_return_value"])))
                chk("wrapper comment of " + tag, wc, w["comment"] if w["has_comment"] else "")
            if len(fs) == 1 and fc != (fn["comment"] if fn["has_comment"] else ""):
                named_by_prop = cs.cls[c - 1]["members"][f["i"] - 1]["k"] == "getter" and \
                    any(m["k"] in ("mprop", "mseq") and m["gi"] == f["i"] for m in cs.cls[c - 1]["members"])
                bad.append(("comment of " + tag, fc, fn["comment"] if fn["has_comment"] else "",
                            ["C05-accessor-comment-repeated"] if named_by_prop and fc else []))
    # namespace-scope functions declared several times
    for f in d.get("topfns", []):
        n = cs.tname(f["t"])
        tag = "%s (%s)" % (n, cs.top_text(f["t"]).replace("\n", " "))
        fns = db.funcs.get(n, [])
        if len(fns) != 1:
            bad.append(("function records for " + tag, 1, len(fns)))
            continue
        ws = db.wrappers(fns[0])
        e_v = sorted((variant_key(cs, v) for v in f["variants"]), key=str)
        o_v = sorted((wrapper_key(db, w) for w in ws), key=str)
        if e_v != o_v:
            bad.append(("wrapper variants (ordered parameters: name, type, this, optional) of " + tag, e_v, o_v,
                        ["C05-redecl-param-names"] if late_names(cs.tops[f["t"] - 1]) else []))
        fc, wc = expected_fn_comments(decl_comments(cs, f["cms"], n))
        chk("comment of " + tag, fc, fns[0]["comment"] if fns[0]["has_comment"] else "")
        for w in ws:
            chk("wrapper comment of " + tag, wc, w["comment"] if w["has_comment"] else "")
    # constructors: declared ones with their copy-constructor flag, and the implicit ones [class.copy.ctor] leaves
    for e in d.get("ctors", []):
        c = e["c"]
        C = cs.cscoped(c)
        sc = C + "::" + cs.cname(c)
        fns = db.funcs.get(sc, [])
        decl = sorted(e["declared"], key=lambda x: x["i"])
        tag = "%s (%s)" % (sc, " ".join(cs.member_text(c, x["i"]) for x in decl) or "none declared")
        exp = [(variant_key(cs, v), bool(x["copy"])) for x in decl for v in x["variants"]]
        if e["implicitCopy"]:
            exp.append((((None, C + " const *", False, False),), True))
        if e["implicitDefault"]:
            exp.append(((), False))
        obs = [(wrapper_key(db, w), bool(w["is_copy_constructor"])) for f in fns for w in db.wrappers(f)]
        if sorted(exp, key=str) != sorted(obs, key=str) or len(fns) > 1:
            K = cs.cls[c - 1]["members"]
            fc = []
            if any(K[x["i"] - 1]["k"] == "ctorof" for x in decl):
                fc.append("C05-copy-ctor-same-name")
            # a constructor that is a copy constructor only thanks to default arguments
            if copy_by_defaults(cs.rec):
                fc.append("C05-copy-ctor-extra-defaults")
            bad.append(("constructors (parameters, is copy constructor) of " + tag, sorted(exp, key=str), sorted(obs, key=str), fc))
    # properties and sequences
    for e in d.get("props", []):
        c, i = e["c"], e["i"]
        C, n = cs.cscoped(c), cs.mname(c, i)
        tag = "%s::%s (%s)" % (C, n, cs.member_text(c, i))
        g = cs.mname(c, e["g"])
        want = cs.doc(e["cm"], n) or cs.doc(e["gcm"], g)      # its own comment, else the accessor's (get_make_property)
        if e["seq"]:
            sq = db.seqs.get(C + "::" + n)
            if not sq:
                bad.append(("sequence record of " + tag, 1, 0))
                continue
            chk("sequence " + tag, (n, g + "n", g), (sq["seq_name"], sq["num_name"], sq["element_name"]))
        else:
            el = db.elems.get(C + "::" + n)
            if not el:
                bad.append(("element record of " + tag, 1, 0))
                continue
            chk("property " + tag, (n, True, False, C + "::" + g), (el["name"], bool(el["has_getter"]), bool(el["has_setter"]),
                                                             (db.fn(el["getter"]) or {}).get("scoped_name")))
            chk("comment of property " + tag, want, el["comment"] if el["has_comment"] else "")
    for e in d.get("nprops", []):
        t = db.types.get(cs.cscoped(e["c"]))
        if t:
            e_n = (e["elements"], e["seqs"], False)
            o_n = (len(t["elements"]), len(t["make_seqs"]), 0 in t["elements"] + t["make_seqs"] + t["methods"] + t["constructors"]
                   + t["casts"] + t["nested_types"])
            if e_n != o_n:
                bad.append(("elements / sequences listed by %s (no null entries)" % cs.cscoped(e["c"]), e_n, o_n,
                            []))
    for e in d["data"]:
        c, i = e["c"], e["i"]
        C, n = cs.cscoped(c), cs.mname(c, i)
        tag = "%s::%s (%s)" % (C, n, cs.member_text(c, i))
        el = db.elems.get(C + "::" + n)
        if not el:
            bad.append(("element record of " + tag, 1, 0))
            continue
        chk("element name of " + tag, n, el["name"])
        chk("element type of " + tag, "int", (db.tyname(el["type"]) or "").replace(" const", ""))
        chk("accessors of " + tag, (True, bool(e["setter"])), (bool(el["has_getter"]), bool(el["has_setter"])))
        chk("comment of " + tag, cs.doc(e["cm"], n), el["comment"] if el["has_comment"] else "")
        this_c = () if e["static"] else (("this", C + " const *", True, False),)
        this_m = () if e["static"] else (("this", C + " *", True, False),)
        g = db.fn(el["getter"]) if el["has_getter"] else None
        if g:
            ws = db.wrappers(g)
            chk("getter of " + tag, [this_c], [wrapper_key(db, w) for w in ws])
            chk("getter return of " + tag, [(True, "int", False)],
                [(bool(w["has_return_value"]), db.tyname(w["return_type"]), bool(w["caller_manages_return_value"])) for w in ws])
            chk("getter class of " + tag, C, db.tyname(g["class"]))
        s = db.fn(el["setter"]) if el["has_setter"] else None
        if s:
            ws = db.wrappers(s)
            chk("setter of " + tag, [this_m + (("value", "int", False, False),)], [wrapper_key(db, w) for w in ws])
    for e in d["dtors"]:
        c = e["c"]
        C = cs.cscoped(c)
        t = db.types.get(C)
        fn = db.fn(t["get_destructor"]) if t and t["has_destructor"] else None
        if not fn:
            bad.append(("destructor of " + C, 1, 0))
            continue
        O = cs.cscoped(e["owner"])        # the class whose destructor function is recorded (inherited virtual destructor)
        virt = bool(fn["is_virtual"]) if e["vclaim"] else bool(e["virtual"])
        chk("destructor roles of " + C, (True, bool(e["virtual"]), O + "::~" + cs.cname(e["owner"]), bool(e["inherited"])),
            (bool(fn["is_destructor"]), virt, fn["scoped_name"], bool(t["destructor_is_inherited"])))
    for k in d["classes"]:
        c = k["c"]
        C = cs.cscoped(c)
        t = db.types.get(C)
        if not t:
            bad.append(("type record of " + C, 1, 0))
            continue
        chk("kind of " + C, cs.cls[c - 1]["key"], "class" if t["is_class"] else "struct" if t["is_struct"] else "?")
        chk("name of " + C, cs.cname(c), t["name"])
        if "nmethods" in k:
            chk("number of member functions / typecast operators listed by " + C, (k["nmethods"], k["ncasts"]),
                (len(t["methods"]), len(t["casts"])))
        chk("nesting of " + C, (bool(k["nested"]), cs.cscoped(k["outer"]) if k["outer"] else None),
            (bool(t["is_nested"]), db.tyname(t["outer_class"]) if t["is_nested"] else None))
        chk("comment of " + C, cs.doc(k["cm"], cs.cname(c)), t["comment"] if t["has_comment"] else "")
        exp = sorted((cs.cscoped(x["base"]), bool(x["up"]), bool(x["down"]), bool(x["impossible"])) for x in k["derivations"])
        obs = sorted((db.tyname(x["base"]), bool(x["has_upcast"]), bool(x["has_downcast"]), bool(x["downcast_is_impossible"]))
                     for x in t["derivations"])
        if exp != obs:
            K = cs.cls[c - 1]
            bad.append(("bases of %s (base, upcast, downcast, downcast impossible)" % C, exp, obs,
                        ["C05-default-base-access"] if any(b["acc"] == "default" and cs.cls[b["c"] - 1]["key"] != K["key"]
                                                           for b in K["bases"]) else []))
        for x in t["derivations"]:
            B = db.tyname(x["base"])
            if x["has_upcast"]:
                u = db.fn(x["upcast"])
                ws = db.wrappers(u) if u else []
                chk("upcast function %s -> %s" % (C, B), (C, [((("this", C + " *", True, False),), B + " *")]),
                    (db.tyname(u["class"]) if u else None, [(wrapper_key(db, w), db.tyname(w["return_type"])) for w in ws]))
            if x["has_downcast"]:
                u = db.fn(x["downcast"])
                ws = db.wrappers(u) if u else []
                chk("downcast function %s -> %s" % (B, C), (B, [((("this", B + " *", True, False),), C + " *")]),
                    (db.tyname(u["class"]) if u else None, [(wrapper_key(db, w), db.tyname(w["return_type"])) for w in ws]))
    for e in d["enums"]:
        c, i = e["c"], e["i"]
        sc = cs.cscoped(c) + "::" + cs.ename(c, i)
        t = db.types.get(sc)
        if not t:
            bad.append(("enum record of " + sc, 1, 0))
            continue
        n = cs.mname(c, i)
        kind = e.get("k", "enum")
        vscope = sc if kind == "senum" else cs.cscoped(c)        # values of a scoped enum live in the enum's own scope
        vals = [(n + "v", vscope + "::" + n + "v", 0, "")]
        if kind == "enumc":                                       # enum E { v, /* about w */ w };
            vals.append((n + "w", vscope + "::" + n + "w", 1, "/* about %sw */" % n))
        if kind == "enumz":                                       # enum E { v = sizeof(int), w };  (values: C07's subject)
            vals = [(n + "v", vscope + "::" + n + "v", None, ""), (n + "w", vscope + "::" + n + "w", None, "")]
        fcls = ["C05-enum-inline-comment"] if kind == "enumc" else []
        if kind in ("enum1", "enumc") and e["cm"]:
            fcls.append("C05-enum-oneline-doc")
        e_e = (True, True, kind == "senum", cs.cscoped(c), [v[:3] for v in vals])
        o_e = (bool(t["is_enum"]), bool(t["is_nested"]), bool(t["is_scoped_enum"]), db.tyname(t["outer_class"]),
               [(v["name"], v["scoped_name"], None if kind == "enumz" else v["value"]) for v in t["enum_values"]])
        if e_e != o_e:
            bad.append(("enum " + sc, e_e, o_e, ["C05-scoped-enum-value-scope"] if kind == "senum" else
                        ["C05-enum-unevaluated-initialiser"] if kind == "enumz" else []))
        e_c = (cs.doc(e["cm"], cs.mname(c, i)), [v[3] for v in vals])
        o_c = (t["comment"] if t["has_comment"] else "", [v["comment"] for v in t["enum_values"]])
        if kind == "enumz":
            fcls.append("C05-enum-unevaluated-initialiser")
        if e_c != o_c:
            bad.append(("comments of enum %s and its values" % sc, e_c, o_c, fcls))
    for e in d.get("typedefs", []):
        n = cs.tname(e["t"])
        t = db.types.get(n)
        if not t:
            bad.append(("typedef record of " + n, 1, 0))
            continue
        chk("typedef " + n, (True, n, cs.cscoped(e["target"])), (bool(t["is_typedef"]), t["name"], db.tyname(t["wrapped_type"])))
    for e in d["tops"]:
        t = e["t"]
        n, k = cs.tname(t), cs.tops[t - 1]["k"]
        want = cs.doc(e["cm"], n)
        if k == "func":
            fns = db.funcs.get(n, [])
            if len(fns) != 1:
                bad.append(("function records for " + n, 1, len(fns)))
                continue
            chk("roles of " + n, (False, False), (bool(fns[0]["is_method"]), bool(fns[0]["is_constructor"])))
            chk("comment of " + n, want, fns[0]["comment"] if fns[0]["has_comment"] else "")
            chk("wrappers of " + n, [()], [wrapper_key(db, w) for w in db.wrappers(fns[0])])
        elif k == "var":
            el = db.elems.get(n)
            if not el:
                bad.append(("element record of " + n, 1, 0))
                continue
            chk("comment of " + n, want, el["comment"] if el["has_comment"] else "")
            chk("type of " + n, "int", db.tyname(el["type"]))
        elif k == "macro":
            mf = db.manifests.get(n)
            if not mf:
                bad.append(("manifest record of " + n, 1, 0))
                continue
            chk("manifest " + n, ("7", 7), (mf["definition"], mf["get_int_value"] if mf["has_int_value"] else None))
    return bad


def lib_classes(cs):
    """finding classes of a library: predicates over the INPUT only"""
    out = []
    return out


def input_classes(rec):
    """every finding class whose INPUT predicate holds for the library (used to measure how exact the predicates are:
    libraries in the class vs. libraries of the class that actually fail)"""
    out = set()
    lib = rec["lib"]
    if copy_by_defaults(rec):
        out.add("C05-copy-ctor-extra-defaults")
    for d in lib["tops"]:
        if d["k"] == "sig" and late_names(d):
            out.add("C05-redecl-param-names")
    for k in lib["classes"]:
        K = k["members"]
        for j, m in enumerate(K, 1):
            if m["k"] == "sig" and late_names(m):
                out.add("C05-redecl-param-names")
            if m["k"] == "getter" and m["cm"] and any(x["k"] in ("mprop", "mseq") and x["gi"] == j for x in K):
                out.add("C05-accessor-comment-repeated")
            if m["k"] == "enumz":
                out.add("C05-enum-unevaluated-initialiser")
            if m["k"] == "enumc":
                out.add("C05-enum-inline-comment")
            if m["k"] in ("enum1", "enumc") and m["cm"]:
                out.add("C05-enum-oneline-doc")
    return out


def late_names(m):
    """input predicate: the first declaration leaves a parameter unnamed and a later declaration names it"""
    return any(not p["n"] for p in m["sig"]["ps"]) and any(r["n"] for r in m.get("re", []))


def copy_by_defaults(rec):
    """input predicate: a constructor whose first parameter is a reference to its class and whose further parameters
    (at least one) all have default arguments - a copy / move constructor only thanks to the defaults"""
    for c, k in enumerate(rec["lib"]["classes"], 1):
        for m in k["members"]:
            ps = m["sig"]["ps"]
            if m["k"] == "sig" and m["sig"]["role"] == "ctor" and len(ps) >= 2 and ps[0]["t"]["b"] == "cls" \
                    and ps[0]["t"]["c"] == c and ps[0]["t"]["m"] in ("cref", "ref", "rref") and all(p["d"] for p in ps[1:]):
                return True
    return False


def run_batch(a):
    tmp, b, recs = a
    work = os.path.join(tmp, "b%d" % b)
    os.makedirs(work)
    cpplib.make_tree(work)
    batch = [cpplib.Case(i, rec) for i, rec in recs]
    args = []
    for cs in batch:
        args += cs.write(work)
    open(os.path.join(work, "tu.cxx"), "w").write("".join('#include "%s"\n' % x for x in args))
    g = subprocess.run(GXX + ["tu.cxx"], cwd=work, stdout=subprocess.PIPE, stderr=subprocess.PIPE, text=True)
    if g.returncode != 0:
        return dict(b=b, gxx_error=g.stderr[:3000])
    opts = ["-od", "x.in", "-oc", "x.cxx", "-module", "m", "-library", "l%d" % b, "-c"]
    r = run.run_tool("interrogate", opts + cpplib.INCLUDE_ARGS + args, cwd=work, timeout=300)
    res = dict(b=b, rc=r.rc, err=r.stderr[-1500:], cmd="interrogate " + " ".join(opts + cpplib.INCLUDE_ARGS) + " <files>")
    if r.rc != 0:
        return res
    d = idb.dump([os.path.join(work, "x.in")])
    if "types" not in d:
        res["rc"] = "dump:%s" % d.get("crashed")
        return res
    db = cpplib.DB(d)
    res["bad"] = {cs.i: compare_case(cs, db) for cs in batch}
    return res


# ---- comment placement sweep -------------------------------------------------------------------------
def comment_classes(lines, i):
    """finding classes of the declaration on line i (1-based): predicates over the input lines only"""
    out = []
    if i >= 2 and lines[i - 1] == "decl" and lines[i - 2] == "cdecl":
        out.append("C05-comment-shared-line")
    return out


def enum_classes(lines, i):
    """finding classes of the enumerator on line i (1-based) of an enumerator list"""
    out = comment_classes(lines, i)
    # a trailing // comment and the // lines that follow it are merged into one block by the lexer
    if lines[i - 1] == "declt" and i < len(lines) and lines[i] == "cpp":
        out.append("C05-enum-trailing-merge")
    j = i - 1
    while j >= 1 and lines[j - 1] == "cpp":
        j -= 1
    if j < i - 1 and j >= 1 and lines[j - 1] == "declt":
        out.append("C05-enum-trailing-merge")
    return out


def render_seq(s, lines, enum=False):
    """one line sequence -> text lines; the declaration on line i is the function (enumerator) q<s>_<i>"""
    L = []
    for i, k in enumerate(lines, 1):
        c = "c%d_%d" % (s, i)
        f = ("q%d_%d," if enum else "void q%d_%d();") % (s, i)
        L.append({"cpp": "// " + c, "c": "/* " + c + " */", "blank": "", "decl": f, "cdecl": "/* " + c + " */ " + f,
                  "declt": f + " // " + c}[k])
    return L


def expected_comment(s, lines, attach):
    if not attach:
        return ""
    parts = []
    for j in sorted(attach):
        c = "c%d_%d" % (s, j)
        parts.append("// " + c if lines[j - 1] in ("cpp", "declt") else "/* " + c + " */")
    return "\n".join(parts)


def run_comment_batch(a):
    tmp, b, seqs, enum = a
    work = os.path.join(tmp, "cm%d%s" % (b, "e" if enum else ""))
    os.makedirs(work)
    L = ["__begin_publish"]
    for s, rec in seqs:
        if enum:
            L += ["enum Q%d {" % s] + render_seq(s, rec["lines"], True) + ["};", ""]
        else:
            L += render_seq(s, rec["lines"])
            L += ["void sep%d();" % s, ""]          # a declaration and an empty line isolate the sequences
    L.append("__end_publish")
    open(os.path.join(work, "c.h"), "w").write("\n".join(L) + "\n")
    g = subprocess.run(GXX + ["-x", "c++", "c.h"], cwd=work, stdout=subprocess.PIPE, stderr=subprocess.PIPE, text=True)
    if g.returncode != 0:
        return dict(b=b, gxx_error=g.stderr[:2000])
    r = run.run_tool("interrogate", ["-od", "x.in", "-oc", "x.cxx", "-module", "m", "-library", "c%d" % b, "-c", "c.h"],
                     cwd=work, timeout=300)
    if r.rc != 0:
        return dict(b=b, rc=r.rc, err=r.stderr[-1000:])
    d = idb.dump([os.path.join(work, "x.in")])
    if "functions" not in d:
        return dict(b=b, rc="dump:%s" % d.get("crashed"), err="")
    got = {}
    if enum:
        for t in d["types"].values():
            for v in t["enum_values"]:
                got[v["name"]] = (v["comment"], {v["comment"]})
        return dict(b=b, rc=0, got=got)
    for f in d["functions"].values():
        wc = {d["wrappers"][str(w)]["comment"] for w in f["c_wrappers"]}
        got[f["name"]] = (f["comment"] if f["has_comment"] else "", wc)
    return dict(b=b, rc=0, got=got)


def run_check(ctx):
    build.ensure("hooked")
    quick = ctx.tier == "quick"
    cfgs = [("ExportDescMC", c) for c in (QUICK if quick else THOROUGH)]
    cfgs.append(("CommentAttachMC", "CommentAttach_quick" if quick else "CommentAttach_thorough"))
    cfgs.append(("CommentAttachMC", "CommentAttach_enum" if quick else "CommentAttach_enum_thorough"))
    if os.environ.get("C05_CFGS"):          # development aid
        cfgs = [(("CommentAttachMC" if c.startswith("Comment") else "ExportDescMC"), c) for c in os.environ["C05_CFGS"].split(",")]

    def one(sc):
        spec, cfg = sc
        dump = os.path.join(ctx.tmp, cfg + ".ndjson")
        return cfg, dump, tlc.run(spec, cfg, workers=4, env={"VERIF_DUMP": dump}, timeout=2400, xmx="3g")
    libs, seqs, eseqs = [], [], []
    for cfg, dump, res in run.pmap(one, cfgs, workers=6 if quick else 2):
        ctx.add_tlc(res)
        if res.verdict == "invariant":
            raise MachineryError("%s: model invariant %s violated\n%s" % (cfg, res.violated, res.out[-3000:]))
        tlc.must_ok(res, cfg)
        got = sorted({json.dumps(r, sort_keys=True) for r in tlc.read_dump(dump)})
        if cfg.startswith("ExportDesc_props2"):
            # the members of these libraries are named by position only: the same simple names in both classes
            got = [json.dumps(dict(r, lib=dict(r["lib"], samename=True)), sort_keys=True) for r in map(json.loads, got)]
        ctx.notes.setdefault("cases_per_cfg", {})[cfg] = len(got)
        (eseqs if cfg.startswith("CommentAttach_enum") else seqs if cfg.startswith("Comment") else libs).extend(json.loads(x) for x in got)

    # ---- libraries ----
    cases = list(enumerate(libs))
    # libraries of a class known to abort the tool run alone, so that a batch is never lost to them
    alone = [x for x in cases if copy_by_defaults(x[1])]
    rest = [x for x in cases if not copy_by_defaults(x[1])]
    batches = [(ctx.tmp, b, rest[k:k + BATCH]) for b, k in enumerate(range(0, len(rest), BATCH))]
    batches += [(ctx.tmp, len(batches) + j, [x]) for j, x in enumerate(alone)]
    n_facts = 0
    exact = ctx.notes.setdefault("finding_exactness_failing_of_in_class", {})
    for res, ba in zip(run.pmap(run_batch, batches, workers=min(NCPU, 10)), batches):
        if "gxx_error" in res:
            raise MachineryError("g++ rejects a rendered library (spec WF too weak): %s" % res["gxx_error"])
        if res["rc"] != 0:
            one = ba[2][0] if len(ba[2]) == 1 else None
            ctx.violation("interrogate exit %s on a batch of valid libraries: %s" % (res["rc"], res["err"][-300:]),
                          dict(batch=res["b"], cmd=res["cmd"], program=cpplib.Case(*one).text() if one else None),
                          classes=["C05-copy-ctor-extra-defaults"] if one and copy_by_defaults(one[1]) else [])
            continue
        for i, rec in ba[2]:
            cs = cpplib.Case(i, rec)
            d = rec["desc"]
            failing = {c for item in res["bad"][i] if len(item) > 3 for c in item[3]}
            for c in input_classes(rec):
                e = exact.setdefault(c, [0, 0])
                e[1] += 1
                e[0] += c in failing
            n_facts += sum(len(d.get(k, [])) for k in ("fns", "topfns", "data", "ctors", "props", "dtors", "classes", "enums", "tops", "typedefs"))
            for item in res["bad"][i][:3]:
                what, e, o = item[:3]
                ctx.violation("%s: model says %s, database says %s" % (what, e, o),
                              dict(program=cs.text(), what=what, expected=e, observed=o, cmd=res["cmd"],
                                   stat_key=what.split(" of ")[0].split(" for ")[0]),
                              classes=(item[3] if len(item) > 3 else []) + lib_classes(cs))

    # ---- comment placement ----
    sq = list(enumerate(seqs))
    esq = list(enumerate(eseqs))
    cb = [(ctx.tmp, b, sq[k:k + 400], False) for b, k in enumerate(range(0, len(sq), 400))]
    cb += [(ctx.tmp, b, esq[k:k + 400], True) for b, k in enumerate(range(0, len(esq), 400))]
    n_decl = 0
    for res, ba in zip(run.pmap(run_comment_batch, cb, workers=min(NCPU, 10)), cb):
        enum = ba[3]
        if "gxx_error" in res:
            raise MachineryError("g++ rejects a comment-sweep header: %s" % res["gxx_error"])
        if res["rc"] != 0:
            ctx.violation("interrogate exit %s on a comment-sweep header: %s" % (res["rc"], res["err"][-300:]), dict(batch=res["b"]))
            continue
        for s, rec in ba[2]:
            lines = rec["lines"]
            for i, k in enumerate(lines, 1):
                if k not in ("decl", "cdecl", "declt"):
                    continue
                n_decl += 1
                want = expected_comment(s, lines, rec["attach"][i - 1])
                fc, wc = res["got"].get("q%d_%d" % (s, i), (None, set()))
                if fc != want or wc != {want}:
                    ctx.violation("comment of the %s on line %d of %s: reference %r, database %r (wrappers %r)" % (
                        "enumerator" if enum else "declaration", i, lines, want, fc, sorted(wc)),
                        dict(lines=lines, text="\n".join(render_seq(s, lines, enum)), line=i, expected=want, observed=fc,
                             enumerators=enum, stat_key="comment %s %s" % ("enum" if enum else "decl", lines)),
                        classes=enum_classes(lines, i) if enum else comment_classes(lines, i))
    ctx.cov["evaluations"] = n_facts + n_decl
    ctx.cov["traces_validated_against_impl"] = len(cases) + len(sq) + len(esq)
    ctx.cov["distinct_nontrivial"] = len(cases) + len(sq) + len(esq)
    ctx.cov["exhaustive"] = True
    ctx.cov["rule"] = ("every library of the ExportDesc cfgs (all signatures over the parameter / return / role alphabets, "
                       "all pairs of fixed-shape members with comment styles, nested classes / enums / typedefs, all hierarchies of <= 3 classes with base "
                       "lists of length <= 2) and every line sequence of length <= 5 with at least one declaration; each "
                       "is replayed and compared entity by entity; all are distinct records and each contains at least "
                       "one exported entity whose description is compared")
    ctx.assumptions += [
        "parameter and return types are compared after the documented parameter remapping of handle-style (-c) wrappers "
        "(references and class values travel as pointers; constness of the pointee kept)",
        "up/down-cast availability follows the rule documented in define_struct_type (a cast function exists when the base "
        "sub-object may sit at a different address: virtual base, not the first base, more than one base, or a polymorphic "
        "class with a non-polymorphic base; no downcast through a virtual base)",
        "a destructor overriding the virtual destructor of the only public non-virtual base is recorded as the inherited "
        "destructor function (documented in define_method / define_struct_type)",
        "comment reference: consecutive // lines form one block, every /* */ is its own block, a line without a comment "
        "ends a block, a block attaches to the declaration that starts on its last line or on the next line and to no other; "
        "trailing comments after a declaration on the same line are outside the claimed domain, except in enumerator lists "
        "where the parser documents that a same-line comment belongs to the enumerator (sequences of length <= 4)",
        "properties / sequences (MAKE_PROPERTY, MAKE_SEQ) are not in the enumerated alphabet",
    ]
    for i, rec in cases[:: max(1, len(cases) // 4)][:4]:
        ctx.sample(dict(library=cpplib.Case(i, rec).text(), description=rec["desc"]))
    for s, rec in sq[:: max(1, len(sq) // 2)][:2]:
        ctx.sample(dict(lines=rec["lines"], attach=rec["attach"]))
