"""Shared by c12.py and c20.py: the ctypes query driver (harness/idb_driver.py), the interface table QF of
specs/IdbQuery.tla evaluated in Python over a database in the shape of specs/IdbFileFormat.tla (the
projection function), and small helpers for byte strings that TLC dumps as lists of numbers."""
import importlib.util, json, os, subprocess, sys
from ..common import MachineryError, REPO, HARNESS, NCPU, sha
from .. import build, harness, run

KINDS = ("f", "w", "t", "m", "e", "s")
INT_MIN, INT_MAX = -2**31, 2**31 - 1


def header_path():
    return os.path.join(REPO, "src", "interrogatedb", "interrogate_interface.h")


def _driver_mod():
    spec = importlib.util.spec_from_file_location("idb_driver", os.path.join(HARNESS, "idb_driver.py"))
    m = importlib.util.module_from_spec(spec)
    spec.loader.exec_module(m)
    return m


def interface_functions():
    """name -> (ret, [argtypes]) parsed from the tree's interrogate_interface.h"""
    return _driver_mod().parse_header(header_path())


RUN = 1000


def tobytes(lst):
    """TLC stream / string -> bytes; an element 1000 + n is a run of n bytes 'x' (length classes of IdbFileFormat)"""
    if all(e < RUN for e in lst):
        return bytes(lst)
    return b"".join(b"x" * (e - RUN) if e >= RUN else bytes((e,)) for e in lst)


def b2s(lst):
    """TLC byte list -> latin-1 text (the driver's string transport)"""
    return tobytes(lst).decode("latin-1")


def writer_lib():
    return harness.ensure("libidbwrite.so", ["idb_write.cxx"], link_idb=True, shared=True)


def run_driver(ctx, cases, timeout=5, chunk=None, tag="job"):
    """Run cases through idb_driver.py in parallel slices.  -> {case id (str): {"r": [...], "stderr": ...}}"""
    if not cases:
        return {}
    lib = os.path.join(build.libdir(), "libinterrogatedb.so")
    wl = writer_lib()
    n = chunk or min(2000, max(1, (len(cases) + NCPU * 2 - 1) // (NCPU * 2)))
    slices = [cases[i:i + n] for i in range(0, len(cases), n)]

    def one(ix_sl):
        ix, sl = ix_sl
        jp = os.path.join(ctx.tmp, "%s-%d.json" % (tag, ix))
        rp = os.path.join(ctx.tmp, "%s-%d.res.json" % (tag, ix))
        json.dump({"timeout": timeout, "cases": sl}, open(jp, "w"))
        env = dict(os.environ, IDB_DRIVER_TMP=ctx.tmp)
        p = subprocess.run([sys.executable, os.path.join(HARNESS, "idb_driver.py"), lib, header_path(), jp, rp, wl],
                           stdout=subprocess.PIPE, stderr=subprocess.PIPE, text=True, env=env,
                           timeout=min(7200, max(600, timeout * 40 * len(sl))))
        if p.returncode != 0 or not os.path.exists(rp):
            raise MachineryError("idb_driver failed (rc %s): %s" % (p.returncode, p.stderr[-1500:]))
        res = json.load(open(rp))["results"]
        os.unlink(jp)
        os.unlink(rp)
        return res
    out = {}
    for res in run.pmap(one, list(enumerate(slices))):
        out.update(res)
    # a time-limit verdict counts only if it repeats
    slow = [c for c in cases if any(died(v) and v["died"] in HANG for v in out[str(c["id"])]["r"])]
    if slow and tag != "again":
        again = run_driver(ctx, slow, timeout=timeout, chunk=max(1, len(slow) // NCPU + 1), tag="again")
        for c in slow:
            if not any(died(v) and v["died"] in HANG for v in again[str(c["id"])]["r"]):
                out[str(c["id"])] = again[str(c["id"])]
    return out


HANG = (14, 24)     # SIGALRM, SIGXCPU


def make_real(ctx):
    """databases written by interrogate itself: the shipped interrogatedb test headers and harness/idb_hdrs,
    each once with -od only (index numbers as allocated) and once with -oc (remapped, canonical)."""
    work = os.path.join(ctx.tmp, "real")
    os.makedirs(work)
    hdrs = []
    for d in (os.path.join(REPO, "tests", "interrogatedb"), os.path.join(HARNESS, "idb_hdrs")):
        for f in sorted(os.listdir(d)):
            if f.endswith(".h"):
                hdrs.append(os.path.join(d, f))
    pinc = os.path.join(REPO, "parser-inc")
    items = [(h, c) for h in hdrs for c in (False, True)]

    def one(it):
        h, canon = it
        name = os.path.basename(h)[:-2] + ("_c" if canon else "")
        args = ["-od", name + ".in", "-module", "m", "-library", "lib" + name, "-S" + pinc]
        if canon:
            args += ["-oc", name + ".cxx", "-c", "-fnames"]
        r = run.run_tool("interrogate", args + [h], cwd=work, timeout=120, env={"SOURCE_DATE_EPOCH": "1700000000"},
                         outputs=[name + ".in"])
        p = os.path.join(work, name + ".in")
        if r.rc != 0 or not os.path.exists(p):
            raise MachineryError("interrogate -od failed on %s: rc %s %s" % (h, r.rc, r.stderr[-800:]))
        return dict(name=name, path=p, canon=canon, bytes=open(p, "rb").read())
    return run.pmap(one, items)


def died(v):
    return isinstance(v, dict) and "died" in v


def describe_death(v):
    d = v["died"]
    if d in HANG:
        return "hang (killed by the %s time limit)" % ("CPU" if d == 24 else "wall-clock")
    if d > 0:
        return "killed by signal %d%s" % (d, " (abort: uncaught exception / assertion)" if d == 6 else
                                          " (segmentation fault)" if d == 11 else "")
    return "exit status %d" % -d


# ---------------------------------------------------------------------------------------------
# The interface table (QF of IdbQuery.tla, dumped by TLC) evaluated in Python.
class Table:
    def __init__(self, rec):
        self.qf = rec["qf"]
        self.defaults = rec["defaults"]
        self.by_name = {d["fn"]: d for d in self.qf}

    def check_header(self, funcs):
        """the spec must say something about every function the header declares, and nothing else"""
        setup = {"interrogate_add_search_directory", "interrogate_add_search_path"}
        declared = set(funcs) - setup
        modelled = set(self.by_name)
        if declared != modelled:
            raise MachineryError("IdbQuery.QF and interrogate_interface.h disagree: not modelled %s, not declared %s"
                                 % (sorted(declared - modelled), sorted(modelled - declared)))
        for fn, d in self.by_name.items():
            ret, at = funcs[fn]
            want = {"field": ["i"], "flag": ["i"], "nonempty": ["i"], "nonzero": ["i"], "len": ["i"], "def": ["i"],
                    "hasdef": ["i"], "chain": ["i"], "hasfptr": ["i"], "fptr": ["i"], "gat": ["i"],
                    "at": ["i", "i"], "atfield": ["i", "i"], "atflag": ["i", "i"], "gcount": [], "errflag": [],
                    "lookup": ["s"], "uniq": ["s"]}[d["op"]]
            if at != want or ret != d["r"]:
                raise MachineryError("IdbQuery.QF: %s modelled as %s/%s but declared %s -> %s" % (fn, d["op"], d["r"], at, ret))


def neutral(r):
    return {"i": 0, "p": 0, "b": False, "s": ""}[r]


def _val(v, r):
    """spec value -> driver transport"""
    if r == "s":
        return b2s(v)
    return v


class Db:
    """q of IdbQuery.tla: tables (lists of records in ascending idx order) + defs + next"""

    def __init__(self, table, tables, defs, nxt):
        self.t = table
        self.tables = {k: {r["idx"]: r for r in tables[k]} for k in KINDS}
        self.order = {k: [r["idx"] for r in tables[k]] for k in KINDS}
        self.defs = defs
        self.next = nxt

    def rec(self, k, i):
        return self.tables[k].get(i, self.t.defaults[k])

    def defof(self, k, i):
        if i in self.tables[k]:
            for d in self.defs:
                if d["first"] <= i < d["next"]:
                    return d
        return {"lib": [], "mod": []}

    def lists(self, l):
        if l == "gm":
            return self.order["m"]
        if l == "af":
            return self.order["f"]
        if l == "at":
            return self.order["t"]
        k = {"ge": "e", "gf": "f", "gt": "t"}[l]
        return [i for i in self.order[k] if self.tables[k][i]["flags"] & 1]

    def query(self, d, i=0, n=0):
        op, k, f, r = d["op"], d["k"], d["f"], d["r"]
        if op == "field":
            return _val(self.rec(k, i)[f], r)
        if op == "flag":
            return bool(self.rec(k, i)["flags"] & d["bit"])
        if op == "nonempty":
            return self.rec(k, i)[f] != []
        if op == "nonzero":
            return self.rec(k, i)[f] != 0
        if op == "len":
            return len(self.rec(k, i)[f])
        if op in ("at", "atfield", "atflag"):
            v = self.rec(k, i)[f]
            if not (0 <= n < len(v)):
                return neutral(r)
            if op == "at":
                return v[n]
            if op == "atfield":
                return _val(v[n][d["sub"]], r)
            return bool(v[n]["flags"] & d["bit"])
        if op == "def":
            return b2s(self.defof(k, i)[f])
        if op == "hasdef":
            return self.defof(k, i)[f] != []
        if op == "chain":
            return b2s(self.rec("f", self.rec("s", i)[f])["name"])
        if op == "gcount":
            return len(self.lists(k))
        if op == "gat":
            v = self.lists(k)
            return v[i] if 0 <= i < len(v) else 0
        if op in ("hasfptr", "errflag"):
            return False
        if op == "fptr":
            return 0
        raise MachineryError("Db.query: op %r" % op)

    def expected_dump(self, maxidx, maxpos):
        """what the driver's ["dump", maxidx, maxpos] must answer"""
        out = {}
        for d in self.t.qf:
            op = d["op"]
            if op in ("lookup", "uniq", "errflag"):
                continue
            if op == "gcount":
                out[d["fn"]] = self.query(d)
            elif op in ("at", "atfield", "atflag"):
                out[d["fn"]] = [[self.query(d, i, n) for n in range(maxpos)] for i in range(maxidx + 1)]
            else:
                out[d["fn"]] = [self.query(d, i) for i in range(maxidx + 1)]
        return out


def same(a, b):
    """driver answers vs expected: NULL strings count as empty"""
    if a is None:
        a = ""
    if b is None:
        b = ""
    return a == b and type(a) == type(b)


def diff_dump(exp, got, limit=6):
    """-> list of (function, index, position, expected, observed)"""
    out = []
    for fn in sorted(exp):
        e, g = exp[fn], got.get(fn, "<missing>")
        if e == g:
            continue
        if isinstance(e, list):
            if not isinstance(g, list) or len(g) != len(e):
                out.append((fn, None, None, e, g))
                continue
            for i, (ei, gi) in enumerate(zip(e, g)):
                if isinstance(ei, list):
                    for n, (en, gn) in enumerate(zip(ei, gi)):
                        if not same(en, gn):
                            out.append((fn, i, n, en, gn))
                elif not same(ei, gi):
                    out.append((fn, i, None, ei, gi))
        elif not same(e, g):
            out.append((fn, None, None, e, g))
        if len(out) >= limit:
            break
    return out
