"""C09 — conditional inclusion keeps exactly the conforming groups.

spec CondIncl (reference stack vs. the code's stack-less skip machine, TLC: Refines in
every state of every well-nested program within the bound)  -> every closed program is
replayed through parse_file -E (observable: surviving text / #include / #warning lines and
the final macro state) and, for spec sanity, through gcc -E; the H-dir hook trace of the
same runs and of the shipped tests / stub headers is validated against CondInclTrace."""
import os, re, json, subprocess, random
from ..common import MachineryError, REPO, NCPU
from .. import build, tlc, run, condexpr
from ._preproc import run_part as preproc_part

SPELL = {
    "T": ["1", "2 > 1", "(1)", "!0", "1 || 0", "7"],
    "F": ["0", "1 - 1", "!1", "(0)", "0 && 1", "1 > 2"],
    "D": ["defined(M)", "defined M", "defined ( M )"],
    "N": ["!defined(M)", "!defined M", "defined(M) == 0"],
    "V": ["M", "M == 1", "M + 0", "(M)"],
    "U": ["NOT_DEFINED_ANYWHERE", "NOT_DEFINED_ANYWHERE + 0", "0 + NOT_DEFINED_ANYWHERE"],
    # self-referential macros (defined in the batch prologue): the surviving name counts as 0
    "R": ["!SELF", "PING == 0", "SELF + 1 == 1", "(SELF || PING) == 0", "!PONG",
          # the name of a function-like macro that is not followed by '(' is not an invocation: it counts as 0
          "FL == 0", "!FL", "FL(1)", "FL (2) == 2", "FL + 1", "FL(FL) == 0",
          # operands that are not evaluated may divide by zero
          "1 || (1/0)", "1 || 1/NOT_DEFINED_ANYWHERE", "0 ? 1/0 : 1", "!(0 && (1/0))", "(1 ? 1 : 1%0)",
          "!defined(NOT_DEFINED_ANYWHERE) || (100/NOT_DEFINED_ANYWHERE) > 10"],
    # angle forms are searched along -S (parse_file) / -I (gcc); `vsub` is also a macro (see PROLOGUE):
    # a header name is not subject to macro replacement
    "H": ['__has_include("vinc.h")', '__has_include("vinc.h") && 1', 'defined(__has_include) && __has_include("vinc.h")',
          '__has_include(<vinc.h>)', '__has_include(<vsub/vh.h>)', '__has_include("vsub/vh.h")'],
    "J": ['__has_include("no_such_file_anywhere.h")', '__has_include("no_such_file_anywhere.h") || 0',
          '__has_include(<vsub/none.h>)', '__has_include(<no_such_file_anywhere.h>)'],
}
# classes T F D N V U also draw from vf/condexpr.py: ~2 600 integer expressions over literals in every base,
# digit separators, suffixes, character literals, ?:, comparisons, M, defined(M) and undefined identifiers,
# each with its truth vector over the three states of M, validated against gcc -E on every run
for _c in "TFDNVU":
    SPELL[_c] = SPELL[_c] + condexpr.TABLE[_c]
PROLOGUE = ["#define SELF SELF", "#define PING PONG", "#define PONG PING", "#define vsub 3", "#define FL(x) x"]
# lines without any effect, in shapes that stress the line scanner (inside kept AND skipped groups)
NOISE = ["/* c */", "/** doc **/", "/***/", "/**/", "/* a", "// c", "// #endif", "/* #endif */", "/* #else */ // #elif 1",
         "#", "# ", "#  /* c */", 'extern const char *vs; /* "/*" */', "/* \" */", "/* ' */",
         "/* multi\n   line #endif\n   comment **/", "// trailing backslash is not used here",
         "#define VNOISE \"/*\"", "#define VNOISE2 '\"'", "#define VNOISE3 \"//\" /* c */", "#undef VNOISE",
         # a backslash-newline splices the next line onto a // comment: the "directive" below is comment text
         "// splice \\\n#endif", "// splice \\\n#else", "// splice \\\n#define M 1", "// splice \\\n#undef M",
         "int VN; // splice \\\n#elif 1", "// two splices \\\n \\\n#endif",
         # a comment that begins with "/*/" is still open after those three characters
         "/*/ c */", "/*/ #endif */", "/*/\n#endif\n#else\n#define M 1\n*/", "/*/*/", "/*//*/ int VN2;"]
# shapes that only conforming scanners need to get right inside a SKIPPED group (not valid declarations)
NOISE_SKIPPED_ONLY = ['"/*"', "'\"'", "don't /* c */", '"unterminated', "@ $ ` \\ stray", "/* x */ text /* y */"]
# (cfg, simulate traces per worker or None)
CFGS = {"quick": [("CondIncl_quick", None), ("CondIncl_deep", None), ("CondIncl_sim", 1500)],
        "thorough": [("CondIncl_quick", None), ("CondIncl_thorough", None), ("CondIncl_deep_thorough", None),
                     ("CondIncl_sim", 6000)]}
BATCH = 2500


# layouts of a directive line: all denote the same directive to a conforming preprocessor
# (a comment is one blank, so a '#' after a comment that began the line still introduces a directive)
HASH = ["#", "# ", "#\t", "  #", "#/**/", "# /* c */ ", "/* c */ #", "/**/#", " /* a */ /* b */ # ", "/* a\n b */#"]
TRAIL = ["", "", " // trailing", " /* trailing */", "   "]


def directive(rnd, name, arg=""):
    h = rnd.choice(HASH)
    if arg:
        # the controlling expression may be continued on the next line
        if " " in arg and rnd.random() < 0.15:
            i = arg.index(" ")
            arg = arg[:i] + " \\\n" + arg[i:]
        return "%s%s %s%s" % (h, name, arg, rnd.choice(TRAIL[:4]))
    return "%s%s%s" % (h, name, rnd.choice(TRAIL))


def render_line(code, cid, n, rnd):
    if ":" in code:
        k, c = code.split(":")
        return directive(rnd, k, rnd.choice(SPELL[c]))
    if code in ("ifdef", "ifndef", "elifdef", "elifndef"):
        return directive(rnd, code, "M")
    if code in ("else", "endif"):
        return directive(rnd, code)
    if code == "noise":
        t = rnd.choice(NOISE)
        if t == "/* a":
            t = "/* a\n b */"
        return t
    return {"text": "int T%d;" % n, "def0": "#define M 0", "def1": "#define M 1",
            "undef": "#undef M", "warn": "#warning W_%d_%d" % (cid, n),
            "err": "#error E_%d_%d" % (cid, n),
            "inc": '#include "vinc.h"', "inc2": '#include "vonce_%d.h"' % cid,
            "push": '#pragma push_macro("M")', "pop": '#pragma pop_macro("M")'}[code]


def render_case(cid, rec, rnd):
    out = ['#ident "case %d"' % cid, "#undef M", "int CB%d;" % cid]
    for n, code in enumerate(rec["p"], 1):
        out.append(render_line(code, cid, n, rnd))
    out.append("int CE%d = M;" % cid)
    # drain the push_macro stack so the next case starts from the spec's initial state
    out += ['#pragma pop_macro("M")'] * sum(1 for x in rec["p"] if x == "push")
    return out


TOK = re.compile(r"CB(\d+)|CE(\d+) = (\w+)|T(\d+)\b|(INC2?)\b")
WARN = re.compile(r"(warning|error): (?:#warning |#error )?[WE]_(\d+)_(\d+)")
VONCE = "#ifdef M\n#pragma once\n#endif\nint INC2;\n"


def observe(stdout, stderr):
    """Projection of a preprocessor run to the spec's observables:
    case id -> (sorted list of (pos, kind) that survived, final M)."""
    res, cur = {}, None
    for m in TOK.finditer(stdout):
        if m.group(1):
            cur = int(m.group(1)); res[cur] = [[], None, []]
        elif cur is None:
            continue
        elif m.group(2):
            if int(m.group(2)) == cur:
                res[cur][1] = m.group(3)
        elif m.group(4):
            res[cur][0].append((int(m.group(4)), "text"))
        elif m.group(5):
            res[cur][0].append((None, m.group(5).lower()))
    for m in WARN.finditer(stderr):
        c = int(m.group(2))
        if c in res:
            res[c][2].append((m.group(1)[0], int(m.group(3))))
    return res


def expected(rec):
    """Same projection computed from the spec state."""
    seq = [((p if k == "text" else None), k) for p, k in rec["o"] if k in ("text", "inc", "inc2")]
    warns = [(k[0], p) for p, k in rec["o"] if k in ("warn", "err")]
    fin = {-1: "M", 0: "0", 1: "1"}[rec["d"]]
    return [seq, fin, warns]


def run_check(ctx):
    build.ensure("hooked")
    tier = ctx.tier
    condexpr.validate_gcc(ctx.tmp)      # MachineryError if a spelling's truth vector disagrees with gcc -E
    progs = []
    seen = set()
    for cfg, sim in CFGS[tier]:
        dump = os.path.join(ctx.tmp, cfg + ".ndjson")
        res = tlc.run("CondInclMC", cfg, env={"VERIF_DUMP": dump}, coverage=False, simulate=sim,
                      depth=15 if sim else None, workers=8 if sim else None,
                      timeout=1500 if tier == "quick" else 3000)
        ctx.add_tlc(res)
        if res.verdict == "invariant":
            # the mechanism as modelled does not refine the reference: a spec-level finding, not a code verdict
            raise MachineryError("CondIncl: invariant %s violated in the model\n%s" % (res.violated, res.out[-2000:]))
        tlc.must_ok(res)
        recs = tlc.read_dump(dump)
        if sim:
            # random walks dump every closed prefix: keep the maximal ones
            recs.sort(key=lambda r: r["p"])
            recs = [r for i, r in enumerate(recs)
                    if i + 1 == len(recs) or recs[i + 1]["p"][:len(r["p"])] != r["p"]]
            ctx.notes["simulated_programs"] = len(recs)
        cap = 300000
        if len(recs) > cap:      # fixed stratified cut (independent of the seed) to bound memory and time
            recs.sort(key=lambda r: r["p"])
            step = -(-len(recs) // cap)
            ctx.notes.setdefault("sampled", []).append("%s: every %d-th of %d sorted programs" % (cfg, step, len(recs)))
            recs = recs[::step]
        res.out = ""
        for r in recs:
            key = tuple(r["p"])
            if key not in seen:
                seen.add(key)
                progs.append(r)
    if not progs:
        raise MachineryError("no programs dumped")
    # vacuity guard: every line kind and condition class of the alphabet must occur in replayed programs
    seen_codes = {}
    for rec in progs:
        for code in rec["p"]:
            seen_codes[code] = seen_codes.get(code, 0) + 1
    want = {"ifdef", "ifndef", "elifdef", "elifndef", "else", "endif", "text", "def0", "def1", "undef", "warn",
            "err", "inc", "inc2", "push", "pop", "noise"} | {"if:" + c for c in SPELL} | {"elif:" + c for c in SPELL}
    missing = sorted(want - set(seen_codes))
    if missing:
        raise MachineryError("vacuous run: line kinds never generated: %s" % missing)
    ctx.notes["line_kind_occurrences"] = seen_codes
    ctx.cov["exhaustive"] = not ctx.notes.get("sampled")   # BFS configurations replayed completely (simulated programs are extra)
    ctx.cov["rule"] = ("TLC enumerates every well-nested directive sequence within the cfg bounds; each closed "
                       "program containing a conditional is replayed through parse_file -E and gcc -E; "
                       "non-trivial = the program has at least one skipped line with an effect or at least one "
                       "evaluated condition; distinct = distinct program text")
    rnd = random.Random(ctx.seed)
    work = ctx.tmp
    open(os.path.join(work, "vinc.h"), "w").write("int INC;\n")
    os.makedirs(os.path.join(work, "vsub"), exist_ok=True)
    open(os.path.join(work, "vsub", "vh.h"), "w").write("int VH;\n")
    batches = [progs[i:i + BATCH] for i in range(0, len(progs), BATCH)]
    files = []
    cid = 0
    index = {}
    for bi, b in enumerate(batches):
        lines = list(PROLOGUE)
        for rec in b:
            cid += 1
            index[cid] = rec
            rendered = render_case(cid, rec, rnd)
            rec["_text"] = rendered
            lines += rendered
            if "inc2" in rec["p"]:
                # (gcc identifies once-only files by content: make each file unique)
                open(os.path.join(work, "vonce_%d.h" % cid), "w").write("// once-file of case %d\n" % cid + VONCE)
        fn = "b%03d.c" % bi
        open(os.path.join(work, fn), "w").write("\n".join(lines) + "\n")
        files.append(fn)

    def one(fn):
        tr = os.path.join(work, fn + ".trace")
        r = run.run_tool("parse_file", ["-E", "-S", ".", fn], cwd=work, trace=tr, timeout=300)
        g = subprocess.run(["gcc", "-E", "-P", "-std=gnu2x", "-I.", fn], cwd=work, stdout=subprocess.PIPE,
                           stderr=subprocess.PIPE, text=True)
        return fn, r, g, tr

    results = run.pmap(one, files)
    nontrivial = set()
    n_eval = 0
    for fn, r, g, tr in results:
        has_err = "#error" in open(os.path.join(work, fn)).read()
        if g.returncode not in ((0, 1) if has_err else (0,)):
            raise MachineryError("gcc -E failed on %s: %s" % (fn, g.stderr[-500:]))
        if r.rc not in ((0, 1) if has_err else (0,)) or r.timed_out:
            ctx.violation("parse_file -E exited with %s (signal %s, timeout %s) on a batch of well-nested programs"
                          % (r.rc, r.signal, r.timed_out), dict(file=fn, stderr=r.stderr[-2000:]))
            continue
        obs_i = observe(r.stdout, r.stderr)
        obs_g = observe(g.stdout, g.stderr)
        for c in obs_g:
            rec = index[c]
            exp = expected(rec)
            n_eval += 1
            if obs_g[c] != exp:
                raise MachineryError("spec != gcc on program %r: spec %r gcc %r" % (rec["p"], exp, obs_g[c]))
            got = obs_i.get(c)
            if got != exp:
                ctx.violation("program %s: expected kept=%s finalM=%s warns=%s, parse_file gave %s" % (
                    " / ".join(rec["p"]), exp[0], exp[1], exp[2], got),
                    dict(program=rec.get("_text"), expected=exp, observed=got))
            if len(rec["o"]) < sum(1 for x in rec["p"] if x in ("text", "warn", "err", "inc", "inc2")) or rec["ev"]:
                nontrivial.add(tuple(rec["p"]))
    ctx.cov["evaluations"] += n_eval
    ctx.cov["distinct_nontrivial"] = len(nontrivial)
    ctx.cov["traces_validated_against_impl"] += n_eval
    for rec in progs[:: max(1, len(progs) // 5)][:5]:
        ctx.sample(dict(program=rec["p"], kept=rec["o"], finalM=rec["d"], evaluated=rec["ev"]))

    # ---- trace validation: H-dir events of the replay runs + corpus -------------
    traces = []
    for fn, r, g, tr in results:
        if os.path.exists(tr):
            traces.append(tr)
    corpus = corpus_traces(ctx, work)
    n_ev = validate(ctx, traces, "replay batch") + validate(ctx, corpus, "corpus")
    ctx.notes["trace_events_validated"] = n_ev
    ctx.notes["corpus_files_traced"] = len(corpus)
    # ---- the COMPOSED preprocessor (spec Preproc): conditionals x macros x includes x __LINE__ / __FILE__ ----
    preproc_part(ctx, ctx.tmp)


def corpus_traces(ctx, work):
    """Run the shipped preprocessor tests and every stub header once with the hooks on."""
    out = []
    items = []
    tdir = os.path.join(REPO, "tests", "cppparser")
    for f in sorted(os.listdir(tdir)):
        if f.endswith((".c", ".h", ".cxx")):
            items.append((os.path.join(tdir, f), ["-T"] if f.endswith(".c") else []))
    pinc = os.path.join(REPO, "parser-inc")
    hdrs = []
    for root, _, fs in os.walk(pinc):
        for f in fs:
            hdrs.append(os.path.join(root, f))
    hdrs.sort()
    if ctx.tier == "quick":
        hdrs = hdrs[::4]
    items += [(h, []) for h in hdrs]

    def one(it):
        path, extra = it
        tr = os.path.join(work, "corpus-%s.trace" % abs(hash(path)))
        r = run.run_tool("parse_file", extra + ["-S", pinc, path], cwd=work, trace=tr, timeout=120)
        return tr if os.path.exists(tr) else None
    for tr in run.pmap(one, items):
        if tr:
            out.append(tr)
    return out


def validate(ctx, traces, what):
    """Concatenate traces (Reset between executions) and validate against CondInclTrace."""
    if not traces:
        return 0
    groups = [traces[i::NCPU] for i in range(NCPU)]
    groups = [g for g in groups if g]
    total = [0]

    def one(gi_g):
        gi, g = gi_g
        cat = os.path.join(ctx.tmp, "%s-%d.ndjson" % (what.replace(" ", "_"), gi))
        n = 0
        with open(cat, "w") as o:
            for t in g:
                o.write('{"e":"Reset"}\n')
                for line in open(t):
                    if line.startswith('{"e":"Died"'):
                        continue
                    o.write(line); n += 1
        status, r = tlc.validate_trace("CondInclTrace", cat)
        return status, r, cat, n, g
    for status, r, cat, n, g in run.pmap(one, list(enumerate(groups))):
        ctx.cov["states"] += r.generated
        ctx.cov["transitions"] += r.generated
        total[0] += n
        if status != "accepted":
            # repeat once: a rejection is reported only if it repeats
            status2, r2 = tlc.validate_trace("CondInclTrace", cat)
            if status2 == "accepted":
                continue
            lines = open(cat).read().split("\n")
            at = (r2.stuck_at or 1)
            keep = os.path.join(ctx.replay_dir, os.path.basename(cat))
            os.makedirs(ctx.replay_dir, exist_ok=True)
            open(keep, "w").write("\n".join(lines))
            ctx.violation("%s trace %s by CondInclTrace (%s) at event %d: %s" % (
                what, status2, r2.violated or "no action of the mechanism matches", at,
                " ".join(lines[max(0, at - 2):at + 2])),
                dict(trace=keep, tlc_tail=r2.out[-2500:]))
    return total[0]
