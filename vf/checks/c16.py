"""C16 — module initialisation registers every library once, bases first.

spec ModuleInit (write_python_table_native's ready-set loop + find_dependency_cycle as a step
machine; TLC: Once, BasesFirst modulo broken edges, ReportIffCyclic, BrokenAreOnCycles, <>Done for
every digraph within the bound) -> every digraph is realised as one header set per library
(cross-library inheritance / typedefs = exactly the edges), `interrogate` is run per library and
`interrogate_module` with the .in files in every command-line order; the order of
Dtool_<lib>_RegisterTypes() / LibraryDef array / BuildInstants in the generated file, the number of
"Circular dependency" reports and the printed cycles must EQUAL what the spec's mechanism computed;
acyclic samples are compiled against the shims and imported; a missing / truncated / garbage .in
must give exit != 0 and no output file; the ModDep/ModPlace/ModReport/ModBreak hook trace of every
module run is validated against ModuleInitTrace."""
import os, re, json, itertools, hashlib, subprocess, sysconfig, shutil
from ..common import MachineryError, REPO, NCPU, SHIMS
from .. import build, tlc, run

CFG = {"quick": "ModuleInit_quick", "thorough": "ModuleInit_thorough"}

# library naming schemes: node i (1-based) -> name; every scheme is ascending in std::string
# (byte) order, which is the order the spec's node numbers stand for
SCHEMES = [
    ["L1", "L2", "L3", "L4", "L5"],
    ["Lib10", "Lib2", "Lib3", "Lib4", "Lib5"],
    ["Zeta", "alpha", "beta", "delta", "eps"],
    ["A_", "Aa", "B0", "B_", "Ba"],
]
for _s in SCHEMES:
    assert sorted(_s, key=lambda x: x.encode()) == _s

MODULE_TIMEOUT = 6          # a normal run takes ~20 ms; a hang is confirmed by a re-run with 4x the time
HANGS = []                  # confirmed hangs; after a few the remaining replays are skipped (verdict is exit 1 anyway)
MAX_HANGS = 2


def ghash(rec):
    return int(hashlib.sha256(json.dumps([rec["n"], rec["g"]]).encode()).hexdigest()[:8], 16)


def edge_kind(variant, a, b):
    """How edge a->b is realised: 'derive' (own class), 'multi' (one class of a derives from all
    targets), 'typedef' (a typedef of a typedef of b's class, forced with a .N file)."""
    if variant == 0:
        return "derive"
    if variant == 1:
        return "multi"
    return "typedef" if (a + b) % 2 == 0 else "derive"


def render(rec, names, variant, root):
    """One directory per library with <lib>_base.h (class X<i>, no dependencies) and <lib>.h
    (the classes / typedefs realising exactly the edges of library i)."""
    n, g = rec["n"], rec["g"]
    alias_needed = {}
    for a in range(1, n + 1):
        for b in g[a - 1]:
            if edge_kind(variant, a, b) == "typedef":
                alias_needed.setdefault(b, []).append(a)
    for i in range(1, n + 1):
        d = os.path.join(root, "src", names[i - 1])
        os.makedirs(d, exist_ok=True)
        base = ["#pragma once", "class X%d {" % i, "__published:", "  X%d() {}" % i,
                "  int fx%d() { return %d; }" % (i, i), "};"]
        for a in alias_needed.get(i, []):
            base.append("typedef X%d X%dalias%d;" % (i, i, a))
        open(os.path.join(d, names[i - 1] + "_base.h"), "w").write("\n".join(base) + "\n")
        hdr = ["#pragma once", '#include "%s_base.h"' % names[i - 1]]
        for b in g[i - 1]:
            hdr.append('#include "%s_base.h"' % names[b - 1])
        nfile = []
        multi = []
        for b in g[i - 1]:
            k = edge_kind(variant, i, b)
            if k == "derive":
                hdr += ["class Y%d_%d : public X%d {" % (i, b, b), "__published:",
                        "  Y%d_%d() {}" % (i, b), "  int fy%d_%d() { return %d; }" % (i, b, 10 * i + b), "};"]
            elif k == "typedef":
                hdr.append("typedef X%dalias%d T%d_%d;" % (b, i, i, b))
                nfile.append("forcetype X%dalias%d" % (b, i))
            else:
                multi.append(b)
        if multi:
            hdr += ["class Z%d : %s {" % (i, ", ".join("public X%d" % b for b in multi)), "__published:",
                    "  Z%d() {}" % i, "  int fz%d() { return %d; }" % (i, 100 + i), "};"]
        open(os.path.join(d, names[i - 1] + ".h"), "w").write("\n".join(hdr) + "\n")
        if nfile:
            open(os.path.join(d, names[i - 1] + ".N"), "w").write("\n".join(nfile) + "\n")
    os.makedirs(os.path.join(root, "out"), exist_ok=True)


def interrogate_libs(rec, names, root):
    """interrogate per library: the library's two headers are named on the command line, the
    other libraries' headers are reachable through -I only (known, not re-exported)."""
    n = rec["n"]
    out = os.path.join(root, "out")
    incs = []
    for nm in names[:n]:
        incs += ["-I", "../src/" + nm]
    for nm in names[:n]:
        r = run.run_tool("interrogate", ["-python-native", "-module", "M", "-library", nm,
                                         "-od", nm + ".in", "-oc", nm + ".cxx"] + incs +
                         ["../src/%s/%s_base.h" % (nm, nm), "../src/%s/%s.h" % (nm, nm)],
                         cwd=out, timeout=120, outputs=(nm + ".in",))
        if r.rc != 0 or not r.outputs[nm + ".in"]:
            raise MachineryError("interrogate failed on a generated library header (%s, graph %r): rc=%s\n%s"
                                 % (nm, rec["g"], r.rc, r.stderr[-1500:]))


RE_EXT = re.compile(r"^extern void Dtool_(\w+)_RegisterTypes\(\);$", re.M)
RE_EXTDEF = re.compile(r"^extern const struct LibraryDef (\w+)_moddef;$", re.M)
RE_EXTINST = re.compile(r"^extern void Dtool_(\w+)_BuildInstants\(PyObject \*module\);$", re.M)
RE_REG = re.compile(r"^  Dtool_(\w+)_RegisterTypes\(\);$", re.M)
RE_DEFS = re.compile(r"^  const LibraryDef \*defs\[\] = \{(.*)nullptr\};$", re.M)
RE_INST = re.compile(r"^    Dtool_(\w+)_BuildInstants\(module\);$", re.M)
RE_CYCLE = re.compile(r"^  (\w+(?: -> \w+)+)$", re.M)
REPORT = "Circular dependency between libraries detected:"


def project(text, stderr):
    """Projection of a generated module file + stderr to the spec's observables."""
    body3, _, body2 = text.partition("#else  // Python 2 case")
    defs = lambda t: [re.findall(r"&(\w+)_moddef", m) for m in RE_DEFS.findall(t)]
    return dict(
        ext_reg=RE_EXT.findall(text), ext_def=RE_EXTDEF.findall(text), ext_inst=RE_EXTINST.findall(text),
        reg3=RE_REG.findall(body3), reg2=RE_REG.findall(body2),
        defs3=defs(body3), defs2=defs(body2),
        inst3=RE_INST.findall(body3), inst2=RE_INST.findall(body2),
        nrep=stderr.count(REPORT),
        cycles=[m.split(" -> ") for m in RE_CYCLE.findall(stderr)])


def expected(rec, names):
    order = [names[i - 1] for i in rec["order"]]
    return dict(ext_reg=order, ext_def=order, ext_inst=order, reg3=order, reg2=order,
                defs3=[order], defs2=[order], inst3=order, inst2=order, nrep=rec["nrep"],
                cycles=[[names[i - 1] for i in c] for c in rec["cycles"]])


def project_trace(path, names):
    """Hook events of one interrogate_module run with library names projected to map ranks
    (the order of the ModDep events, which is the iteration order of the std::map)."""
    evs = []
    if not os.path.exists(path):
        return evs
    rank = {}
    for line in open(path):
        line = line.strip()
        if not line:
            continue
        e = json.loads(line)
        if e["e"] == "ModDep":
            rank[e["lib"]] = len(rank) + 1
    keys = list(rank)
    if sorted(keys, key=lambda x: x.encode()) != keys:
        evs.append({"e": "ModDep", "lib": -1, "deps": []})      # map not in name order: rejected by the spec
    for line in open(path):
        line = line.strip()
        if not line:
            continue
        e = json.loads(line)
        if e["e"] == "ModDep":
            evs.append({"e": "ModDep", "lib": rank[e["lib"]], "deps": [rank.get(d, 0) for d in e["deps"]]})
        elif e["e"] == "ModPlace":
            evs.append({"e": "ModPlace", "lib": rank.get(e["lib"], 0)})
        elif e["e"] == "ModBreak":
            evs.append({"e": "ModBreak", "from": rank.get(e["from"], 0), "to": rank.get(e["to"], 0), "len": e["len"]})
        elif e["e"] == "ModReport":
            evs.append({"e": "ModReport"})
    return evs


def module_run(out, ins, oc, trace=None, extra=()):
    if os.path.exists(os.path.join(out, oc)):
        os.remove(os.path.join(out, oc))
    r = run.run_tool("interrogate_module", ["-python-native", "-module", "M", "-library", "M", "-oc", oc]
                     + list(extra) + list(ins), cwd=out, timeout=MODULE_TIMEOUT, outputs=(oc,), trace=trace)
    if r.timed_out:        # a hang is reported only if it repeats
        r = run.run_tool("interrogate_module", ["-python-native", "-module", "M", "-library", "M", "-oc", oc]
                         + list(extra) + list(ins), cwd=out, timeout=4 * MODULE_TIMEOUT, outputs=(oc,), trace=trace)
        if r.timed_out:
            HANGS.append(list(ins))
            r.stderr = r.stderr[:2000]
    return r


def orders_for(rec, tier):
    n = rec["n"]
    perms = list(itertools.permutations(range(1, n + 1)))
    if n <= 3:
        return perms
    h = ghash(rec)
    if n == 4:
        if tier == "thorough" and h % 16 == 0:
            return perms
        k = 4
    else:
        k = 6
    # a fixed stratified choice: identity, reverse and k rotations of the hash-selected permutations
    pick = [perms[0], perms[-1]] + [perms[(h + j * 7919) % len(perms)] for j in range(k)]
    seen, res = set(), []
    for p in pick:
        if p not in seen:
            seen.add(p); res.append(p)
    return res


def replay_graph(ctx, rec, root, tier):
    """All module runs of one digraph.  Returns (n_runs, mismatches, trace events, info)."""
    h = ghash(rec)
    names = SCHEMES[h % len(SCHEMES)]
    variant = (h // 7) % 3
    render(rec, names, variant, root)
    interrogate_libs(rec, names, root)
    out = os.path.join(root, "out")
    exp = expected(rec, names)
    bad, events, nrun = [], [], 0
    for k, perm in enumerate(orders_for(rec, tier)):
        if len(HANGS) >= MAX_HANGS:
            break
        ins = [names[i - 1] + ".in" for i in perm]
        oc = "M_%d.cxx" % k
        tr = os.path.join(out, "tr_%d.ndjson" % k)
        r = module_run(out, ins, oc, trace=tr)
        nrun += 1
        case = dict(n=rec["n"], graph=rec["g"], names=names[:rec["n"]], variant=variant,
                    argv_order=ins, expected=exp)
        if r.timed_out:
            bad.append(("interrogate_module did not finish within %ds (graph %r, order %s)" % (
                4 * MODULE_TIMEOUT, rec["g"], ins), dict(case, observed="timeout")))
            break
        if r.rc != 0 or not r.outputs[oc]:
            bad.append(("interrogate_module exit %s / output present=%s on loadable databases (graph %r, order %s)" % (
                r.rc, r.outputs[oc], rec["g"], ins), dict(case, stderr=r.stderr[-1500:])))
            continue
        got = project(open(os.path.join(out, oc)).read(), r.stderr)
        if got != exp:
            diff = {f: (exp[f], got[f]) for f in exp if exp[f] != got[f]}
            bad.append(("graph %s (names %s), .in order %s: expected %s, generated module has %s" % (
                rec["g"], names[:rec["n"]], ins,
                {f: v[0] for f, v in diff.items()}, {f: v[1] for f, v in diff.items()}),
                dict(case, observed=got, stderr=r.stderr[-1500:])))
        ev = project_trace(tr, names)
        if ev:
            events.append(ev)
    return nrun, bad, events, dict(names=names[:rec["n"]], variant=variant)


# ---------------------------------------------------------------------------------------------
def build_and_import(ctx, rec, root):
    """Acyclic case, derive-only realisation: compile the generated library and module code
    against the shims, link an extension module, import it and look at the classes."""
    n, g = rec["n"], rec["g"]
    names = SCHEMES[0]
    render(rec, names, 0, root)
    interrogate_libs(rec, names, root)
    out = os.path.join(root, "out")
    r = module_run(out, [nm + ".in" for nm in names[:n]], "M_module.cxx")
    if r.rc != 0 or r.timed_out:
        return "interrogate_module failed (rc=%s) on acyclic graph %r" % (r.rc, g), dict(stderr=r.stderr[-1500:])
    pyinc = sysconfig.get_paths()["include"]
    flags = ["-std=c++17", "-O0", "-fPIC", "-w", "-DHAVE_PYTHON", "-D__published=public",
             "-I" + SHIMS, "-I" + pyinc, "-I" + os.path.join(REPO, "src", "interrogatedb"),
             "-I" + os.path.join(REPO, "src", "dtoolbase")]
    for nm in names[:n]:
        flags.append("-I" + os.path.join(root, "src", nm))
    objs = []
    for src in [nm + ".cxx" for nm in names[:n]] + ["M_module.cxx", os.path.join(SHIMS, "shim_impl.cxx")]:
        obj = os.path.basename(src)[:-4] + ".o"
        p = subprocess.run(["g++"] + flags + ["-c", src, "-o", obj], cwd=out, stdout=subprocess.PIPE,
                           stderr=subprocess.STDOUT, text=True)
        if p.returncode != 0:
            # whether generated code compiles is C03's question; here it only prevents the import
            raise MachineryError("generated code of an acyclic C16 case does not compile (%s): %s" % (src, p.stdout[-1500:]))
        objs.append(obj)
    p = subprocess.run(["g++", "-shared", "-o", "M.so"] + objs, cwd=out, stdout=subprocess.PIPE,
                       stderr=subprocess.STDOUT, text=True)
    if p.returncode != 0:
        raise MachineryError("link of a generated C16 module failed: " + p.stdout[-1500:])
    script = ["import sys, json", "sys.path.insert(0, '.')", "import M", "res = {}"]
    for a in range(1, n + 1):
        script.append("res['X%d'] = M.X%d().fx%d()" % (a, a, a))
        for b in g[a - 1]:
            script.append("res['sub%d_%d'] = issubclass(M.Y%d_%d, M.X%d)" % (a, b, a, b, b))
            script.append("res['call%d_%d'] = M.Y%d_%d().fx%d()" % (a, b, a, b, b))
            script.append("res['own%d_%d'] = M.Y%d_%d().fy%d_%d()" % (a, b, a, b, a, b))
    script.append("print(json.dumps(res))")
    p = subprocess.run(["python3", "-c", "\n".join(script)], cwd=out, stdout=subprocess.PIPE,
                       stderr=subprocess.PIPE, text=True, timeout=120)
    want = {}
    for a in range(1, n + 1):
        want["X%d" % a] = a
        for b in g[a - 1]:
            want["sub%d_%d" % (a, b)] = True
            want["call%d_%d" % (a, b)] = b
            want["own%d_%d" % (a, b)] = 10 * a + b
    try:
        got = json.loads(p.stdout.strip().split("\n")[-1]) if p.returncode == 0 else None
    except ValueError:
        got = None
    if got != want:
        return ("import of the generated module for acyclic graph %r: expected %s, got rc=%s %s" % (
            g, want, p.returncode, got), dict(graph=g, stderr=p.stderr[-1500:], stdout=p.stdout[-500:]))
    return None, None


# ---------------------------------------------------------------------------------------------
def failure_cases(ctx, rec, root, tier):
    """A database that fails to load => exit != 0 and no output file (also when a stale output
    file of an earlier run exists)."""
    names = SCHEMES[0]
    n = rec["n"]
    render(rec, names, 0, root)
    interrogate_libs(rec, names, root)
    out = os.path.join(root, "out")
    good = [nm + ".in" for nm in names[:n]]
    data = open(os.path.join(out, good[0]), "rb").read()
    body = data.rstrip()
    bads = [("missing", None), ("empty", b""), ("garbage-binary", bytes((i * 37 + 11) % 256 for i in range(300))),
            ("garbage-text", b"this is not an interrogate database\n"),
            ("wrong-version", b"1 9 9\n" + data.split(b"\n", 1)[1])]
    step = 5 if tier == "quick" else 1
    for cut in sorted(set(list(range(0, len(body) - 1, step)) + [len(body) - 1])):
        bads.append(("truncated@%d" % cut, data[:cut]))
    items = []
    for bi, (kind, content) in enumerate(bads):
        fn = "bad%d.in" % bi
        if content is not None:
            open(os.path.join(out, fn), "wb").write(content)
        poss = range(n) if not kind.startswith("truncated") else [bi % n]
        for pos in poss:
            for mode in (["-python-native"], ["-python"]) if not kind.startswith("truncated") else (["-python-native"],):
                items.append((kind, fn, pos, mode, len(items)))

    def one(it):
        kind, fn, pos, mode, k = it
        ins = list(good)
        ins[pos] = fn
        oc = "F_%d.cxx" % k
        stale = (k % 2 == 0)
        if stale:
            open(os.path.join(out, oc), "w").write("// stale output of an earlier run\n")
        r = run.run_tool("interrogate_module", mode + ["-module", "M", "-library", "M", "-oc", oc] + ins,
                         cwd=out, timeout=MODULE_TIMEOUT, outputs=(oc,))
        if r.timed_out:
            r = run.run_tool("interrogate_module", mode + ["-module", "M", "-library", "M", "-oc", oc] + ins,
                             cwd=out, timeout=4 * MODULE_TIMEOUT, outputs=(oc,))
        ok = (not r.timed_out) and r.rc not in (0, None) and r.signal == 0 and not r.outputs[oc]
        return ok, dict(kind=kind, position=pos, mode=mode[0], argv=ins, rc=r.rc, signal=r.signal,
                        timed_out=r.timed_out, output_left=r.outputs[oc], stale_output_before=stale,
                        stderr=r.stderr[-600:])
    res = run.pmap(one, items)
    nbad = 0
    for ok, info in res:
        if not ok:
            nbad += 1
            ctx.violation("a database that fails to load (%s at position %d, %s): exit %s, signal %s, timeout %s, "
                          "output file left=%s" % (info["kind"], info["position"], info["mode"], info["rc"],
                                                   info["signal"], info["timed_out"], info["output_left"]), info)
    return len(res)


# ---------------------------------------------------------------------------------------------
def validate_traces(ctx, all_events):
    if not all_events:
        raise MachineryError("C16: the hooks produced no ModDep/ModPlace events (hooks missing from the build?)")
    groups = [all_events[i::NCPU] for i in range(NCPU)]
    groups = [g for g in groups if g]

    def one(gi_g):
        gi, g = gi_g
        cat = os.path.join(ctx.tmp, "modtrace-%d.ndjson" % gi)
        with open(cat, "w") as o:
            for evs in g:
                o.write('{"e":"Reset"}\n')
                for e in evs:
                    o.write(json.dumps(e) + "\n")
        status, r = tlc.validate_trace("ModuleInitTrace", cat)
        if status != "accepted":
            status, r = tlc.validate_trace("ModuleInitTrace", cat)
        return status, r, cat, len(g)
    n = 0
    for status, r, cat, k in run.pmap(one, list(enumerate(groups))):
        ctx.cov["states"] += r.generated
        ctx.cov["transitions"] += r.generated
        if status == "accepted":
            n += k
            continue
        lines = open(cat).read().split("\n")
        at = r.stuck_at or 1
        os.makedirs(ctx.replay_dir, exist_ok=True)
        keep = os.path.join(ctx.replay_dir, os.path.basename(cat))
        shutil.copy(cat, keep)
        ctx.violation("hook trace of interrogate_module %s by ModuleInitTrace (%s) at event %d: %s" % (
            status, r.violated or "no action of the mechanism matches", at, " ".join(lines[max(0, at - 3):at + 1])),
            dict(trace=keep, tlc_tail=r.out[-2500:]))
    return n


def is_cyclic(rec):
    return rec["nrep"] > 0


def run_check(ctx):
    build.ensure("hooked")
    tier = ctx.tier
    dump = os.path.join(ctx.tmp, "dump.ndjson")
    res = tlc.run("ModuleInitMC", CFG[tier], env={"VERIF_DUMP": dump}, coverage=True, timeout=1500)
    ctx.add_tlc(res)
    if res.verdict in ("invariant", "temporal"):
        raise MachineryError("ModuleInit: %s violated in the model\n%s" % (res.violated or "liveness", res.out[-2500:]))
    tlc.must_ok(res)
    vac = tlc.vacuous_actions(res)
    if vac:
        raise MachineryError("ModuleInit: actions never taken: %s" % vac)
    seen, recs = set(), []
    for r in tlc.read_dump(dump):
        key = json.dumps([r["n"], r["g"]])
        if key not in seen:
            seen.add(key); recs.append(r)
    want = sum(2 ** (n * (n - 1)) for n in range(1, 4 if tier == "quick" else 5))
    if len(recs) != want:
        raise MachineryError("expected %d digraphs from TLC, got %d" % (want, len(recs)))
    # larger digraphs: a fixed family on 4 and 5 libraries (both tiers), n = 5 by simulation (thorough)
    fam_dump = os.path.join(ctx.tmp, "dumpfam.ndjson")
    fres = tlc.run("ModuleInitMC", "ModuleInit_family", env={"VERIF_DUMP": fam_dump}, timeout=900)
    ctx.add_tlc(fres)
    if fres.verdict in ("invariant", "temporal"):
        raise MachineryError("ModuleInit (family): %s violated in the model" % (fres.violated or "liveness"))
    tlc.must_ok(fres, "family")
    fam = []
    for r in tlc.read_dump(fam_dump):
        key = json.dumps([r["n"], r["g"]])
        if key not in seen:
            seen.add(key); fam.append(r)
    if tier == "quick" and len(fam) < 20:
        raise MachineryError("family of larger digraphs: only %d dumped" % len(fam))
    fam.sort(key=lambda r: json.dumps([r["n"], r["g"]]))
    recs += fam
    if tier == "thorough":
        sim_dump = os.path.join(ctx.tmp, "dump5.ndjson")
        sres = tlc.run("ModuleInitMC", "ModuleInit_sim", env={"VERIF_DUMP": sim_dump}, simulate=1500, depth=400,
                       timeout=900)
        ctx.add_tlc(sres)
        if sres.verdict == "invariant":
            raise MachineryError("ModuleInit (n=5 simulation): %s violated in the model" % sres.violated)
        tlc.must_ok(sres, "simulation")
        extra = []
        for r in tlc.read_dump(sim_dump):
            key = json.dumps([r["n"], r["g"]])
            if key not in seen:
                seen.add(key); extra.append(r)
        extra.sort(key=ghash)
        recs += extra[:150]
    ctx.cov["exhaustive"] = True
    ctx.cov["rule"] = ("TLC enumerates every digraph without self loops on 1..MaxN libraries and runs the mechanism; "
                       "every digraph is replayed through interrogate + interrogate_module in every command-line "
                       "order of the .in files (n<=3; a fixed stratified choice of orders above); non-trivial = the "
                       "digraph has at least one edge; distinct = distinct (n, edge set)")

    def one(irec):
        i, rec = irec
        root = os.path.join(ctx.tmp, "g%05d" % i)
        try:
            return rec, replay_graph(ctx, rec, root, tier), None
        except MachineryError as e:
            return rec, None, e
        finally:
            if not os.environ.get("VERIF_KEEP"):
                shutil.rmtree(os.path.join(root, "out"), ignore_errors=True)

    results = run.pmap(one, list(enumerate(recs)))
    nruns, all_events, nontrivial = 0, [], 0
    for rec, resu, err in results:
        if err:
            raise err
        nrun, bad, events, info = resu
        nruns += nrun
        all_events += events
        if any(rec["g"]):
            nontrivial += 1
        for desc, payload in bad:
            ctx.violation(desc, payload)
    ctx.cov["evaluations"] += nruns
    ctx.cov["distinct_nontrivial"] = nontrivial
    ctx.cov["traces_validated_against_impl"] += nruns
    ctx.notes["digraphs_replayed"] = len(recs)
    if HANGS:
        ctx.notes["replay_cut_short_after_confirmed_hangs"] = HANGS[:MAX_HANGS]
    ctx.notes["cyclic_digraphs"] = sum(1 for r in recs if is_cyclic(r))
    for rec in [r for r in recs if r["n"] == 3][5::13][:5]:
        h = ghash(rec)
        ctx.sample(dict(n=rec["n"], graph=rec["g"], names=SCHEMES[h % len(SCHEMES)][:rec["n"]],
                        expected_order=rec["order"], broken=rec["broken"], cycles=rec["cycles"], reports=rec["nrep"]))

    # ---- acyclic samples: build and import -----------------------------------------------
    acyc = [r for r in recs if not is_cyclic(r) and r["n"] >= 2 and any(r["g"])]
    acyc.sort(key=lambda r: (-sum(len(x) for x in r["g"]), ghash(r)))
    pick = acyc[:3] + acyc[3::max(1, len(acyc) // (5 if tier == "quick" else 20))][:(5 if tier == "quick" else 20)]

    def imp(irec):
        i, rec = irec
        root = os.path.join(ctx.tmp, "imp%03d" % i)
        try:
            return rec, build_and_import(ctx, rec, root), None
        except MachineryError as e:
            return rec, None, e
    nimp = 0
    for rec, resu, err in run.pmap(imp, list(enumerate(pick))):
        if err:
            raise err
        desc, payload = resu
        nimp += 1
        if desc:
            ctx.violation(desc, payload)
    ctx.notes["modules_built_and_imported"] = nimp
    ctx.cov["evaluations"] += nimp
    ctx.cov["traces_validated_against_impl"] += nimp

    # ---- failure path ------------------------------------------------------------------------
    nfail = 0
    fsel = [r for r in recs if r["n"] == 2 and r["g"] == [[2], []]] + \
           [r for r in recs if r["n"] == 3 and r["g"] == [[2], [3], [1]]]
    for i, rec in enumerate(fsel):
        nfail += failure_cases(ctx, rec, os.path.join(ctx.tmp, "fail%d" % i), tier)
    if not nfail:
        raise MachineryError("no failure-path cases were run")
    ctx.notes["failure_path_cases"] = nfail
    ctx.cov["evaluations"] += nfail
    ctx.cov["traces_validated_against_impl"] += nfail

    # ---- trace validation ------------------------------------------------------------------
    nval = validate_traces(ctx, all_events)
    ctx.notes["hook_traces_validated"] = nval
    ctx.cov["traces_validated_against_impl"] += nval
    ctx.assumptions.append("every edge target is a library of the same module (cross-module bases are outside the "
                           "property's quantifier); typedef edges are realised with a forcetype'd alias typedef, the "
                           "only way interrogate exports a typedef of another library's class")
