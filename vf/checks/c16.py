"""C16 — module initialisation registers every library once, bases first.

spec ModuleInit (write_python_table_native's ready-set loop + find_dependency_cycle as a step
machine; TLC: Once, BasesFirst modulo broken edges, ReportIffCyclic, BrokenAreOnCycles, <>Done for
every digraph within the bound) -> every digraph is realised as one header set per library
(cross-library inheritance / typedefs = exactly the edges), `interrogate` is run per library and
`interrogate_module` with the .in files in every command-line order; the order of
Dtool_<lib>_RegisterTypes() / LibraryDef array / BuildInstants in the generated file, the number of
"Circular dependency" reports and the printed cycles must EQUAL what the spec's mechanism computed;
acyclic samples are compiled against the shims and imported; a missing / truncated / garbage .in
must give exit != 0 and no output file; the ModDep/ModPlace/ModReport/ModBreak hook trace of every
module run is validated against ModuleInitTrace.
The replay matrix: library kinds {classes, free functions only, types only (enum), nothing published}
x naming {-library = -module, -library != -module, dotted module names, library names that are
prefixes of each other} x every .in order (+ a .in named twice) for -python-native; the -python
back-end's method table (every wrapper of every library of the module exactly once, none of a
foreign module); the same class exported by two libraries (weak bases-first + trace only)."""
import os, re, json, itertools, hashlib, subprocess, sysconfig, shutil
from ..common import MachineryError, REPO, NCPU, SHIMS
from .. import build, tlc, run

CFG = {"quick": "ModuleInit_quick", "thorough": "ModuleInit_thorough"}

# library naming schemes: node i (1-based) -> name; every scheme is ascending in std::string
# (byte) order, which is the order the spec's node numbers stand for
SCHEMES = [
    ["L1", "L2", "L3", "L4", "L5"],
    ["Lib10", "Lib2", "Lib3", "Lib4", "Lib5"],
    ["Zeta", "alpha", "beta", "delta", "eps"],
    ["A_", "Aa", "B0", "B_", "Ba"],
    ["L", "L1", "L10", "L1_a", "La"],            # names that are prefixes of each other
]
# (-module, -library of interrogate_module): equal, different, dotted module names, one a prefix of the other
NAMINGS = [("M", "M"), ("M", "core"), ("pkg.core", "core"), ("pkg.sub.mod", "mod_x"), ("corelib", "core")]
K_DUP = "C16-python-duplicate-in"
K_NOOC = "C16-load-not-checked-without-oc"
K_FOREIGN = "C16-library-of-another-module-referenced"    # c16-fix-3
FOREIGN_MODULE = "othermod"
for _s in SCHEMES:
    assert sorted(_s, key=lambda x: x.encode()) == _s

MODULE_TIMEOUT = 6          # a normal run takes ~20 ms; a hang is confirmed by a re-run with 4x the time
HANGS = []                  # confirmed hangs; after a few the remaining replays are skipped (verdict is exit 1 anyway)
MAX_HANGS = 2


def ghash(rec):
    return int(hashlib.sha256(json.dumps([rec["n"], rec["kinds"], rec["g"]]).encode()).hexdigest()[:8], 16)


def gkey(rec):
    return json.dumps([rec["kinds"], rec["g"]])


def edge_kind(variant, a, b):
    """How edge a->b is realised: 'derive' (own class), 'multi' (one class of a derives from all
    targets), 'typedef' (a typedef of a typedef of b's class, forced with a .N file)."""
    if variant == 0:
        return "derive"
    if variant == 1:
        return "multi"
    return "typedef" if (a + b) % 2 == 0 else "derive"


def render(rec, names, variant, root):
    """One directory per library with <lib>_base.h (class X<i>, no dependencies) and <lib>.h
    (the classes / typedefs realising exactly the edges of library i)."""
    n, g = rec["n"], rec["g"]
    alias_needed = {}
    for a in range(1, n + 1):
        for b in g[a - 1]:
            if edge_kind(variant, a, b) == "typedef":
                alias_needed.setdefault(b, []).append(a)
    for i in range(1, n + 1):
        d = os.path.join(root, "src", names[i - 1])
        os.makedirs(d, exist_ok=True)
        kind = rec["kinds"][i - 1]
        if kind in ("both", "foreign"):
            base = ["#pragma once", "class X%d {" % i, "__published:", "  X%d() {}" % i,
                    "  int fx%d() { return %d; }" % (i, i), "};"]
        elif kind == "funcs":          # only free functions, no type at all
            base = ["#pragma once", "__begin_publish", "inline int ff%d(int a) { return a + %d; }" % (i, i),
                    "inline double fg%d(double x) { return x * %d; }" % (i, i), "__end_publish"]
        elif kind == "types":          # only a type without any function
            base = ["#pragma once", "__begin_publish", "enum E%d { e%d_a, e%d_b = 5 };" % (i, i, i), "__end_publish"]
        else:                          # nothing published
            base = ["#pragma once", "class H%d { public: int x; };" % i, "int hidden%d(int a);" % i]
        for a in alias_needed.get(i, []):
            base.append("typedef X%d X%dalias%d;" % (i, i, a))
        open(os.path.join(d, names[i - 1] + "_base.h"), "w").write("\n".join(base) + "\n")
        hdr = ["#pragma once", '#include "%s_base.h"' % names[i - 1]]
        for b in g[i - 1]:
            hdr.append('#include "%s_base.h"' % names[b - 1])
        nfile = []
        multi = []
        for b in g[i - 1]:
            k = edge_kind(variant, i, b)
            if k == "derive":
                hdr += ["class Y%d_%d : public X%d {" % (i, b, b), "__published:",
                        "  Y%d_%d() {}" % (i, b), "  int fy%d_%d() { return %d; }" % (i, b, 10 * i + b), "};"]
            elif k == "typedef":
                hdr.append("typedef X%dalias%d T%d_%d;" % (b, i, i, b))
                nfile.append("forcetype X%dalias%d" % (b, i))
            else:
                multi.append(b)
        if multi:
            hdr += ["class Z%d : %s {" % (i, ", ".join("public X%d" % b for b in multi)), "__published:",
                    "  Z%d() {}" % i, "  int fz%d() { return %d; }" % (i, 100 + i), "};"]
        open(os.path.join(d, names[i - 1] + ".h"), "w").write("\n".join(hdr) + "\n")
        if nfile:
            open(os.path.join(d, names[i - 1] + ".N"), "w").write("\n".join(nfile) + "\n")
    os.makedirs(os.path.join(root, "out"), exist_ok=True)


def interrogate_libs(rec, names, root, module="M", backend=("-python-native",), prefix=""):
    """interrogate per library: the library's two headers are named on the command line, the
    other libraries' headers are reachable through -I only (known, not re-exported)."""
    n = rec["n"]
    out = os.path.join(root, "out")
    incs = []
    for nm in names[:n]:
        incs += ["-I", "../src/" + nm]
    for li, nm in enumerate(names[:n]):
        lib_module = FOREIGN_MODULE if rec["kinds"][li] == "foreign" else module
        r = run.run_tool("interrogate", list(backend) + ["-module", lib_module, "-library", nm,
                                         "-od", prefix + nm + ".in", "-oc", prefix + nm + ".cxx"] + incs +
                         ["../src/%s/%s_base.h" % (nm, nm), "../src/%s/%s.h" % (nm, nm)],
                         cwd=out, timeout=120, outputs=(prefix + nm + ".in",))
        if r.rc != 0 or not r.outputs[prefix + nm + ".in"]:
            raise MachineryError("interrogate failed on a generated library header (%s, graph %r): rc=%s\n%s"
                                 % (nm, rec["g"], r.rc, r.stderr[-1500:]))


RE_EXT = re.compile(r"^extern void Dtool_(\w+)_RegisterTypes\(\);$", re.M)
RE_EXTDEF = re.compile(r"^extern const struct LibraryDef (\w+)_moddef;$", re.M)
RE_EXTINST = re.compile(r"^extern void Dtool_(\w+)_BuildInstants\(PyObject \*module\);$", re.M)
RE_REG = re.compile(r"^  Dtool_(\w+)_RegisterTypes\(\);$", re.M)
RE_DEFS = re.compile(r"^  const LibraryDef \*defs\[\] = \{(.*)nullptr\};$", re.M)
RE_INST = re.compile(r"^    Dtool_(\w+)_BuildInstants\(module\);$", re.M)
RE_CYCLE = re.compile(r"^  (\w+(?: -> \w+)+)$", re.M)
RE_PYINIT = re.compile(r"^PyObject \*PyInit_(\w+)\(\) \{$", re.M)
RE_MODNAME = re.compile(r'PyModuleDef_HEAD_INIT,\n  "([^"]*)",')
REPORT = "Circular dependency between libraries detected:"


def project(text, stderr):
    """Projection of a generated module file + stderr to the spec's observables."""
    body3, _, body2 = text.partition("#else  // Python 2 case")
    defs = lambda t: [re.findall(r"&(\w+)_moddef", m) for m in RE_DEFS.findall(t)]
    return dict(
        ext_reg=RE_EXT.findall(text), ext_def=RE_EXTDEF.findall(text), ext_inst=RE_EXTINST.findall(text),
        reg3=RE_REG.findall(body3), reg2=RE_REG.findall(body2),
        defs3=defs(body3), defs2=defs(body2),
        inst3=RE_INST.findall(body3), inst2=RE_INST.findall(body2),
        pyinit=RE_PYINIT.findall(text), modname=RE_MODNAME.findall(text),
        nrep=stderr.count(REPORT),
        cycles=[m.split(" -> ") for m in RE_CYCLE.findall(stderr)])


def expected(rec, names, naming=("M", "M")):
    order = [names[i - 1] for i in rec["order"]]
    return dict(ext_reg=order, ext_def=order, ext_inst=order, reg3=order, reg2=order,
                defs3=[order], defs2=[order], inst3=order, inst2=order, nrep=rec["nrep"],
                pyinit=[naming[1]], modname=[naming[0]],
                cycles=[[names[i - 1] for i in c] for c in rec["cycles"]])


def project_trace(path, names, kinds):
    """Hook events of one interrogate_module run; library names are projected to their rank among ALL
    libraries whose database was given (name order = the spec's numbering); the execution starts with
    the kinds of those libraries.  Returns (events, number of hook events seen)."""
    rank = {nm: i + 1 for i, nm in enumerate(names[:len(kinds)])}
    evs = [{"e": "ModKinds", "kinds": list(kinds)}]
    nhook = 0
    if not os.path.exists(path):
        return evs, 0
    for line in open(path):
        line = line.strip()
        if not line:
            continue
        e = json.loads(line)
        if e["e"] == "ModDep":
            evs.append({"e": "ModDep", "lib": rank.get(e["lib"], 0), "deps": [rank.get(d, 0) for d in e["deps"]]})
        elif e["e"] == "ModPlace":
            evs.append({"e": "ModPlace", "lib": rank.get(e["lib"], 0)})
        elif e["e"] == "ModBreak":
            evs.append({"e": "ModBreak", "from": rank.get(e["from"], 0), "to": rank.get(e["to"], 0), "len": e["len"]})
        elif e["e"] == "ModReport":
            evs.append({"e": "ModReport"})
        else:
            continue
        nhook += 1
    return evs, nhook


def module_run(out, ins, oc, trace=None, naming=("M", "M"), backend="-python-native"):
    if oc and os.path.exists(os.path.join(out, oc)):
        os.remove(os.path.join(out, oc))
    argv = [backend, "-module", naming[0], "-library", naming[1]] + (["-oc", oc] if oc else []) + list(ins)
    outs = (oc,) if oc else ()
    r = run.run_tool("interrogate_module", argv, cwd=out, timeout=MODULE_TIMEOUT, outputs=outs, trace=trace)
    if r.timed_out:        # a hang is reported only if it repeats
        r = run.run_tool("interrogate_module", argv, cwd=out, timeout=4 * MODULE_TIMEOUT, outputs=outs, trace=trace)
        if r.timed_out:
            HANGS.append(list(ins))
            r.stderr = r.stderr[:2000]
    return r


def orders_for(rec, tier):
    n = rec["n"]
    perms = list(itertools.permutations(range(1, n + 1)))
    if n <= 3:
        return perms
    h = ghash(rec)
    if n == 4:
        if tier == "thorough" and h % 16 == 0:
            return perms
        k = 4
    else:
        k = 6
    # a fixed stratified choice: identity, reverse and k rotations of the hash-selected permutations
    pick = [perms[0], perms[-1]] + [perms[(h + j * 7919) % len(perms)] for j in range(k)]
    seen, res = set(), []
    for p in pick:
        if p not in seen:
            seen.add(p); res.append(p)
    return res


def replay_graph(ctx, rec, root, tier):
    """All -python-native module runs of one case.  Returns (n_runs, mismatches, trace events, info)."""
    h = ghash(rec)
    names = SCHEMES[h % len(SCHEMES)]
    variant = (h // 7) % 3
    naming = NAMINGS[(h // 31) % len(NAMINGS)]
    render(rec, names, variant, root)
    interrogate_libs(rec, names, root, module=naming[0])
    out = os.path.join(root, "out")
    exp = expected(rec, names, naming)
    bad, events, nrun = [], [], 0
    cls = [K_FOREIGN] if "foreign" in rec["kinds"] else []
    arglists = [[names[i - 1] + ".in" for i in perm] for perm in orders_for(rec, tier)]
    # the same database named twice (also under another spelling): still every library once
    first = arglists[0]
    arglists.append(first + [first[0]])
    arglists.append([first[-1]] + first[:-1] + ["./" + first[-1]] if len(first) > 1 else ["./" + first[0], first[0]])
    for k, ins in enumerate(arglists):
        if len(HANGS) >= MAX_HANGS:
            break
        oc = "M_%d.cxx" % k
        tr = os.path.join(out, "tr_%d.ndjson" % k)
        r = module_run(out, ins, oc, trace=tr, naming=naming)
        nrun += 1
        case = dict(n=rec["n"], kinds=rec["kinds"], graph=rec["g"], names=names[:rec["n"]], variant=variant,
                    module=naming[0], library=naming[1], argv_order=ins, expected=exp)
        what = "kinds %s graph %s (names %s, -module %s -library %s), .in order %s" % (
            rec["kinds"], rec["g"], names[:rec["n"]], naming[0], naming[1], ins)
        if r.timed_out:
            bad.append(("interrogate_module did not finish within %ds (%s)" % (4 * MODULE_TIMEOUT, what),
                        dict(case, observed="timeout"), cls))
            break
        if r.rc != 0 or not r.outputs[oc]:
            bad.append(("interrogate_module exit %s / output present=%s on loadable databases (%s)" % (
                r.rc, r.outputs[oc], what), dict(case, stderr=r.stderr[-1500:]), cls))
            continue
        got = project(open(os.path.join(out, oc)).read(), r.stderr)
        if got != exp:
            diff = {f: (exp[f], got[f]) for f in exp if exp[f] != got[f]}
            bad.append(("%s: expected %s, generated module has %s" % (
                what, {f: v[0] for f, v in diff.items()}, {f: v[1] for f, v in diff.items()}),
                dict(case, observed=got, stderr=r.stderr[-1500:]), cls))
        ev, nhook = project_trace(tr, names, rec["kinds"])
        events.append((ev, nhook, cls))
    return nrun, bad, events, dict(names=names[:rec["n"]], variant=variant)


# ---------------------------------------------------------------------------------------------
RE_PYWRAP_DEF = re.compile(r"^(_inP\w+)\(PyObject \*", re.M)
RE_PYTABLE = re.compile(r'^  \{ "(\w+)", &(\w+), METH_VARARGS \},$', re.M)
RE_PYPROTO = re.compile(r"^  PyObject \*(\w+)\(PyObject \*self, PyObject \*args\);$", re.M)


def python_backend(ctx, rec, root):
    """The -python back-end: the module's method table lists every by-name wrapper of every library of
    the module exactly once - function-only libraries included, whatever the .in order, also when a .in
    is named twice - and none of a library that belongs to another module."""
    h = ghash(rec)
    names = SCHEMES[(h // 3) % len(SCHEMES)]
    naming = NAMINGS[(h // 11) % len(NAMINGS)]
    n = rec["n"]
    render(rec, names, 0, root)
    interrogate_libs(rec, names, root, module=naming[0], backend=("-python", "-fnames"), prefix="P")
    out = os.path.join(root, "out")
    # one more library, of ANOTHER module
    fdir = os.path.join(root, "src", "Foreign")
    os.makedirs(fdir, exist_ok=True)
    open(os.path.join(fdir, "Foreign.h"), "w").write("#pragma once\n__begin_publish\nint foreign_fn(int a);\n__end_publish\n")
    r = run.run_tool("interrogate", ["-python", "-fnames", "-module", "othermod", "-library", "Foreign", "-od", "PForeign.in",
                                     "-oc", "PForeign.cxx", "../src/Foreign/Foreign.h"], cwd=out, timeout=120)
    if r.rc != 0:
        raise MachineryError("interrogate -python failed on the foreign library: " + r.stderr[-800:])
    want, foreign = [], RE_PYWRAP_DEF.findall(open(os.path.join(out, "PForeign.cxx")).read())
    per_lib = {}
    for i, nm in enumerate(names[:n]):
        per_lib[nm] = RE_PYWRAP_DEF.findall(open(os.path.join(out, "P%s.cxx" % nm)).read())
        if rec["kinds"][i] == "foreign":
            foreign = foreign + per_lib[nm]
        else:
            want += per_lib[nm]
    for i, nm in enumerate(names[:n]):
        if (rec["kinds"][i] in ("both", "funcs", "foreign")) != bool(per_lib[nm]):
            raise MachineryError("interrogate -python: library %s of kind %s has wrappers %s" % (nm, rec["kinds"][i], per_lib[nm]))
    if not foreign:
        raise MachineryError("the foreign library has no python wrappers")
    ins0 = ["P%s.in" % nm for nm in names[:n]]
    arglists = [(ins0 + ["PForeign.in"], False), (["PForeign.in"] + ins0[::-1], False),
                (ins0 + [ins0[0], "PForeign.in", "./" + ins0[-1]], True)]
    bad, nrun = [], 0
    for k, (ins, dup) in enumerate(arglists):
        oc = "P_%d.cxx" % k
        r = module_run(out, ins, oc, naming=naming, backend="-python")
        nrun += 1
        case = dict(n=n, kinds=rec["kinds"], names=names[:n], module=naming[0], library=naming[1], argv=ins,
                    expected_wrappers=sorted(want), stderr=r.stderr[-800:])
        if r.rc != 0 or r.timed_out or not r.outputs[oc]:
            bad.append(("interrogate_module -python exit %s (timeout %s) on loadable databases %s" % (r.rc, r.timed_out, ins),
                        case, []))
            continue
        text = open(os.path.join(out, oc)).read()
        table = [a for a, b in RE_PYTABLE.findall(text)]
        protos = RE_PYPROTO.findall(text)
        m = re.search(r"^(\d+) python function wrappers exported", r.stdout + r.stderr, re.M)
        got = dict(table=sorted(table), protos=sorted(protos), count=int(m.group(1)) if m else None,
                   init=("PyInit_" + naming[1]) in text)
        exp = dict(table=sorted(want), protos=sorted(want), count=len(want), init=True)
        if got != exp:
            bad.append(("-python back-end, kinds %s (names %s, -module %s -library %s), arguments %s: the method table should "
                        "list each of the %d wrappers of the module's libraries once; it has %d entries (%d distinct, %d of "
                        "another module), %d prototypes, reports %s" % (
                            rec["kinds"], names[:n], naming[0], naming[1], ins, len(want), len(table), len(set(table)),
                            len(set(table) & set(foreign)), len(protos), got["count"]),
                        dict(case, observed=got), [K_DUP] if dup else []))
    return nrun, bad


# ---------------------------------------------------------------------------------------------
def build_and_import(ctx, rec, root):
    """Acyclic case, derive-only realisation: compile the generated library and module code
    against the shims, link an extension module, import it and look at the classes."""
    n, g = rec["n"], rec["g"]
    names = SCHEMES[0]
    render(rec, names, 0, root)
    interrogate_libs(rec, names, root)
    out = os.path.join(root, "out")
    r = module_run(out, [nm + ".in" for nm in names[:n]], "M_module.cxx")
    if r.rc != 0 or r.timed_out:
        return "interrogate_module failed (rc=%s) on acyclic graph %r" % (r.rc, g), dict(stderr=r.stderr[-1500:])
    pyinc = sysconfig.get_paths()["include"]
    flags = ["-std=c++17", "-O0", "-fPIC", "-w", "-DHAVE_PYTHON", "-D__published=public", "-D__begin_publish=", "-D__end_publish=",
             "-I" + SHIMS, "-I" + pyinc, "-I" + os.path.join(REPO, "src", "interrogatedb"),
             "-I" + os.path.join(REPO, "src", "dtoolbase")]
    for nm in names[:n]:
        flags.append("-I" + os.path.join(root, "src", nm))
    objs = []
    for src in [nm + ".cxx" for nm in names[:n]] + ["M_module.cxx", os.path.join(SHIMS, "shim_impl.cxx")]:
        obj = os.path.basename(src)[:-4] + ".o"
        p = subprocess.run(["g++"] + flags + ["-c", src, "-o", obj], cwd=out, stdout=subprocess.PIPE,
                           stderr=subprocess.STDOUT, text=True)
        if p.returncode != 0:
            # whether generated code compiles is C03's question; here it only prevents the import
            raise MachineryError("generated code of an acyclic C16 case does not compile (%s): %s" % (src, p.stdout[-1500:]))
        objs.append(obj)
    p = subprocess.run(["g++", "-shared", "-o", "M.so"] + objs, cwd=out, stdout=subprocess.PIPE,
                       stderr=subprocess.STDOUT, text=True)
    if p.returncode != 0:
        raise MachineryError("link of a generated C16 module failed: " + p.stdout[-1500:])
    script = ["import sys, json", "sys.path.insert(0, '.')", "import M", "res = {}"]
    for a in range(1, n + 1):
        if rec["kinds"][a - 1] == "funcs":
            script.append("res['ff%d'] = M.ff%d(1)" % (a, a))
        if rec["kinds"][a - 1] != "both":
            continue
        script.append("res['X%d'] = M.X%d().fx%d()" % (a, a, a))
        for b in g[a - 1]:
            script.append("res['sub%d_%d'] = issubclass(M.Y%d_%d, M.X%d)" % (a, b, a, b, b))
            script.append("res['call%d_%d'] = M.Y%d_%d().fx%d()" % (a, b, a, b, b))
            script.append("res['own%d_%d'] = M.Y%d_%d().fy%d_%d()" % (a, b, a, b, a, b))
    script.append("print(json.dumps(res))")
    p = subprocess.run(["python3", "-c", "\n".join(script)], cwd=out, stdout=subprocess.PIPE,
                       stderr=subprocess.PIPE, text=True, timeout=120)
    want = {}
    for a in range(1, n + 1):
        if rec["kinds"][a - 1] == "funcs":
            want["ff%d" % a] = a + 1
        if rec["kinds"][a - 1] != "both":
            continue
        want["X%d" % a] = a
        for b in g[a - 1]:
            want["sub%d_%d" % (a, b)] = True
            want["call%d_%d" % (a, b)] = b
            want["own%d_%d" % (a, b)] = 10 * a + b
    try:
        got = json.loads(p.stdout.strip().split("\n")[-1]) if p.returncode == 0 else None
    except ValueError:
        got = None
    if got != want:
        return ("import of the generated module for kinds %r acyclic graph %r: expected %s, got rc=%s %s" % (
            rec["kinds"], g, want, p.returncode, got), dict(kinds=rec["kinds"], graph=g, stderr=p.stderr[-1500:], stdout=p.stdout[-500:]))
    return None, None


# ---------------------------------------------------------------------------------------------
BACKEND_ARGV = {"c": ["-c"], "python": ["-python"], "native": ["-python-native"], "none": []}


def failure_cases(ctx, cases, root, tier):
    """Replay of ModuleFail: every back-end option x number of arguments x position of the failing database x
    kind of failure x (-oc requested, stale output present): exit != 0 and no output file."""
    names = SCHEMES[0]
    rec = dict(n=3, kinds=["both", "both", "both"], g=[[2], [3], []])
    render(rec, names, 0, root)
    interrogate_libs(rec, names, root)
    out = os.path.join(root, "out")
    good = [nm + ".in" for nm in names[:3]]
    data = open(os.path.join(out, good[0]), "rb").read()
    body = data.rstrip()
    content = {"missing": None, "empty": b"", "garbage-binary": bytes((i * 37 + 11) % 256 for i in range(300)),
               "garbage-text": b"this is not an interrogate database\n",
               "wrong-version": b"1 9 9\n" + data.split(b"\n", 1)[1]}
    files = {}
    for kind, c in content.items():
        files[kind] = ["bad_%s.in" % kind.replace("-", "_")]
        if c is not None:
            open(os.path.join(out, files[kind][0]), "wb").write(c)
    os.makedirs(os.path.join(out, "bad_directory.in"))
    files["directory"] = ["bad_directory.in"]
    cuts = sorted({len(body) // 4, len(body) // 2, len(body) - 1})
    files["truncated"] = []
    for cut in cuts:
        fn = "bad_trunc%d.in" % cut
        open(os.path.join(out, fn), "wb").write(data[:cut])
        files["truncated"].append(fn)
    items = []
    for c in cases:
        for fn in files[c["kind"]]:
            items.append((c, fn, len(items)))
    # the truncation sweep (every prefix in the thorough tier) on the -python-native back-end
    step = 5 if tier == "quick" else 1
    for cut in range(0, len(body) - 1, step):
        fn = "bad_sweep%d.in" % cut
        open(os.path.join(out, fn), "wb").write(data[:cut])
        items.append((dict(backend=["native", "c", "none", "python"][cut % 4], nargs=3, pos=cut % 3 + 1, kind="truncated@%d" % cut,
                           oc=True, stale=cut % 2 == 0), fn, len(items)))

    def one(it):
        c, fn, k = it
        ins = good[:c["nargs"]]
        ins[c["pos"] - 1] = fn
        oc = "F_%d.cxx" % k
        if c["stale"]:
            open(os.path.join(out, oc), "w").write("// stale output of an earlier run\n")
        argv = BACKEND_ARGV[c["backend"]] + ["-module", "M", "-library", "M"] + (["-oc", oc] if c["oc"] else []) + ins
        r = run.run_tool("interrogate_module", argv, cwd=out, timeout=MODULE_TIMEOUT, outputs=(oc,))
        if r.timed_out:
            r = run.run_tool("interrogate_module", argv, cwd=out, timeout=4 * MODULE_TIMEOUT, outputs=(oc,))
        left = r.outputs[oc] if c["oc"] else False
        ok = (not r.timed_out) and r.rc not in (0, None) and r.signal == 0 and not left
        return ok, dict(case=c, argv=argv, rc=r.rc, signal=r.signal, timed_out=r.timed_out, output_left=left,
                        stderr=r.stderr[-600:])
    res = run.pmap(one, items)
    for ok, info in res:
        if not ok:
            c = info["case"]
            ctx.violation("a database that fails to load (%s, argument %d of %d, back-end %s, %s): exit %s, signal %s, timeout %s, "
                          "output file left=%s" % (c["kind"], c["pos"], c["nargs"],
                                                   "none given" if c["backend"] == "none" else "-" + BACKEND_ARGV[c["backend"]][0].lstrip("-"),
                                                   "-oc requested" + (" (stale file present)" if c["stale"] else "") if c["oc"] else "no -oc",
                                                   info["rc"], info["signal"], info["timed_out"], info["output_left"]), info,
                          classes=[] if c["oc"] else [K_NOOC])
    return len(res)


# ---------------------------------------------------------------------------------------------
def dup_export_cases(ctx, root):
    """One class exported (fully defined, global) by TWO libraries: Lb owns Base, Lc re-exports it with
    `forcetype Base`, La derives from it.  Which of the two the merged database attributes Base to depends
    on the load order (C13's subject), so the input digraph is not a function of the headers and the exact
    order is not claimed.  Claimed in every .in order: exit 0, each library exactly once and consistently in
    all lists, La after at least one exporter of Base; and the hook trace (the digraph as the tool saw it)
    is validated by ModuleInitTrace like any other."""
    src = os.path.join(root, "src")
    out = os.path.join(root, "out")
    os.makedirs(src); os.makedirs(out)
    open(os.path.join(src, "base.h"), "w").write("#pragma once\nclass Base {\n__published:\n  Base() {}\n  int bv() { return 1; }\n};\n")
    open(os.path.join(src, "derived.h"), "w").write('#pragma once\n#include "base.h"\nclass Derived : public Base {\n__published:\n  Derived() {}\n};\n')
    open(os.path.join(src, "other.h"), "w").write('#pragma once\n#include "base.h"\nclass Other {\n__published:\n  Other() {}\n};\n')
    open(os.path.join(src, "other.N"), "w").write("forcetype Base\n")
    libs = {"La": "derived.h", "Lb": "base.h", "Lc": "other.h"}
    os.makedirs(os.path.join(out, "inc"))
    for nm, hdr in libs.items():
        # base.h is found through -I (not in the working directory, not next to the includer's name on the command line)
        r = run.run_tool("interrogate", ["-python-native", "-module", "M", "-library", nm, "-od", nm + ".in", "-oc", nm + ".cxx",
                                         "-I", "../src", "../src/" + hdr], cwd=out, timeout=120)
        if r.rc != 0:
            raise MachineryError("interrogate failed on the dup-export library %s: %s" % (nm, r.stderr[-800:]))
    names = sorted(libs)
    bad, events = [], []
    for k, perm in enumerate(itertools.permutations(names)):
        ins = [nm + ".in" for nm in perm]
        oc = "D_%d.cxx" % k
        tr = os.path.join(out, "trd_%d.ndjson" % k)
        r = module_run(out, ins, oc, trace=tr)
        if r.rc != 0 or r.timed_out or not r.outputs[oc]:
            bad.append(("interrogate_module exit %s (timeout %s) when Base is exported by two libraries, order %s" % (
                r.rc, r.timed_out, ins), dict(argv=ins, stderr=r.stderr[-800:])))
            continue
        got = project(open(os.path.join(out, oc)).read(), r.stderr)
        lists = [got[f] for f in ("ext_reg", "ext_def", "ext_inst", "reg3", "reg2", "inst3", "inst2")] + got["defs3"] + got["defs2"]
        order = lists[0]
        ok = all(l == order for l in lists) and sorted(order) == names and \
            order.index("La") > min(order.index("Lb"), order.index("Lc"))
        if not ok:
            bad.append(("Base exported by Lb and (forcetype) Lc, Derived in La, .in order %s: every library once, the same "
                        "order in all lists and La after Lb or Lc expected; generated module has %s" % (ins, lists),
                        dict(argv=ins, observed=got, stderr=r.stderr[-800:])))
        events.append(project_trace(tr, names, ["both", "both", "both"]) + ([],))
    return len(list(itertools.permutations(names))), bad, events


# ---------------------------------------------------------------------------------------------
def validate_traces(ctx, all_events):
    if not sum(nh for ev, nh, cls in all_events):
        raise MachineryError("C16: the hooks produced no ModDep/ModPlace events (hooks missing from the build?)")
    all_events = [ev for ev, nh, cls in all_events if not any(c in ctx.known for c in cls)]
    groups = [all_events[i::NCPU] for i in range(NCPU)]
    groups = [g for g in groups if g]

    def one(gi_g):
        gi, g = gi_g
        cat = os.path.join(ctx.tmp, "modtrace-%d.ndjson" % gi)
        with open(cat, "w") as o:
            for evs in g:
                o.write('{"e":"Reset"}\n')
                for e in evs:
                    o.write(json.dumps(e) + "\n")
        status, r = tlc.validate_trace("ModuleInitTrace", cat)
        if status != "accepted":
            status, r = tlc.validate_trace("ModuleInitTrace", cat)
        return status, r, cat, len(g)
    n = 0
    for status, r, cat, k in run.pmap(one, list(enumerate(groups))):
        ctx.cov["states"] += r.generated
        ctx.cov["transitions"] += r.generated
        if status == "accepted":
            n += k
            continue
        lines = open(cat).read().split("\n")
        at = r.stuck_at or 1
        os.makedirs(ctx.replay_dir, exist_ok=True)
        keep = os.path.join(ctx.replay_dir, os.path.basename(cat))
        shutil.copy(cat, keep)
        ctx.violation("hook trace of interrogate_module %s by ModuleInitTrace (%s) at event %d: %s" % (
            status, r.violated or "no action of the mechanism matches", at, " ".join(lines[max(0, at - 3):at + 1])),
            dict(trace=keep, tlc_tail=r.out[-2500:]))
    return n


def is_cyclic(rec):
    return rec["nrep"] > 0


def run_check(ctx):
    build.ensure("hooked")
    tier = ctx.tier
    dump = os.path.join(ctx.tmp, "dump.ndjson")
    res = tlc.run("ModuleInitMC", CFG[tier], env={"VERIF_DUMP": dump}, coverage=True, timeout=1500)
    ctx.add_tlc(res)
    if res.verdict in ("invariant", "temporal"):
        raise MachineryError("ModuleInit: %s violated in the model\n%s" % (res.violated or "liveness", res.out[-2500:]))
    tlc.must_ok(res)
    vac = tlc.vacuous_actions(res)
    if vac:
        raise MachineryError("ModuleInit: actions never taken: %s" % vac)
    seen, recs = set(), []
    for r in tlc.read_dump(dump):
        key = gkey(r)
        if key not in seen:
            seen.add(key); recs.append(r)
    # sum over the number m of libraries with classes: C(n,m) * 3^(n-m) kind assignments x 2^(m(m-1)) digraphs
    from math import comb
    want = sum(comb(n, m) * 4 ** (n - m) * 2 ** (m * (m - 1)) for n in range(1, 4 if tier == "quick" else 5)
               for m in range(n + 1))
    if len(recs) != want:
        raise MachineryError("expected %d (kinds, digraph) cases from TLC, got %d" % (want, len(recs)))
    recs.sort(key=gkey)
    # larger digraphs: a fixed family on 4 and 5 libraries (both tiers), n = 5 by simulation (thorough)
    fam_dump = os.path.join(ctx.tmp, "dumpfam.ndjson")
    fres = tlc.run("ModuleInitMC", "ModuleInit_family", env={"VERIF_DUMP": fam_dump}, timeout=900)
    ctx.add_tlc(fres)
    if fres.verdict in ("invariant", "temporal"):
        raise MachineryError("ModuleInit (family): %s violated in the model" % (fres.violated or "liveness"))
    tlc.must_ok(fres, "family")
    fam = []
    for r in tlc.read_dump(fam_dump):
        key = gkey(r)
        if key not in seen:
            seen.add(key); fam.append(r)
    if tier == "quick" and len(fam) < 20:
        raise MachineryError("family of larger digraphs: only %d dumped" % len(fam))
    fam.sort(key=gkey)
    recs += fam
    if tier == "thorough":
        sim_dump = os.path.join(ctx.tmp, "dump5.ndjson")
        sres = tlc.run("ModuleInitMC", "ModuleInit_sim", env={"VERIF_DUMP": sim_dump}, simulate=1500, depth=400,
                       timeout=900)
        ctx.add_tlc(sres)
        if sres.verdict == "invariant":
            raise MachineryError("ModuleInit (n=5 simulation): %s violated in the model" % sres.violated)
        tlc.must_ok(sres, "simulation")
        extra = []
        for r in tlc.read_dump(sim_dump):
            key = gkey(r)
            if key not in seen:
                seen.add(key); extra.append(r)
        extra.sort(key=ghash)
        recs += extra[:150]
    ctx.cov["exhaustive"] = True
    ctx.cov["rule"] = ("TLC enumerates every assignment of kinds {classes, functions only, types only, nothing} to 1..MaxN "
                       "libraries and every digraph without self loops among the libraries with classes, and runs the "
                       "mechanism; every case is replayed through interrogate + interrogate_module -python-native in every "
                       "command-line order of the .in files (n<=3; a fixed stratified choice of orders above) plus two "
                       "argument lists naming a .in twice, under a hash-chosen naming (-library = / != -module, dotted "
                       "module names, prefix names); a fixed third of the cases also through the -python back-end; "
                       "non-trivial = at least one edge or one library without classes; distinct = distinct (kinds, edge set)")

    def one(irec):
        i, rec = irec
        root = os.path.join(ctx.tmp, "g%05d" % i)
        try:
            return rec, replay_graph(ctx, rec, root, tier), None
        except MachineryError as e:
            return rec, None, e
        finally:
            if not os.environ.get("VERIF_KEEP"):
                shutil.rmtree(os.path.join(root, "out"), ignore_errors=True)

    results = run.pmap(one, list(enumerate(recs)))
    nruns, all_events, nontrivial = 0, [], 0
    for rec, resu, err in results:
        if err:
            raise err
        nrun, bad, events, info = resu
        nruns += nrun
        all_events += events
        if any(rec["g"]) or any(k != "both" for k in rec["kinds"]):
            nontrivial += 1
        for desc, payload, cls in bad:
            ctx.violation(desc, payload, classes=cls)
    ctx.cov["evaluations"] += nruns
    ctx.cov["distinct_nontrivial"] = nontrivial
    ctx.cov["traces_validated_against_impl"] += nruns
    ctx.notes["digraphs_replayed"] = len(recs)
    if HANGS:
        ctx.notes["replay_cut_short_after_confirmed_hangs"] = HANGS[:MAX_HANGS]
    ctx.notes["cyclic_digraphs"] = sum(1 for r in recs if is_cyclic(r))
    for rec in [r for r in recs if r["n"] == 3][5::13][:5]:
        h = ghash(rec)
        ctx.sample(dict(n=rec["n"], kinds=rec["kinds"], graph=rec["g"], names=SCHEMES[h % len(SCHEMES)][:rec["n"]],
                        naming=NAMINGS[(h // 31) % len(NAMINGS)],
                        expected_order=rec["order"], broken=rec["broken"], cycles=rec["cycles"], reports=rec["nrep"]))

    # ---- the -python back-end ------------------------------------------------------------------
    psel = [r for r in recs if r["n"] <= 3 and (ghash(r) % 3 == 0 or tier == "thorough")]

    def pyb(irec):
        i, rec = irec
        root = os.path.join(ctx.tmp, "py%05d" % i)
        try:
            return python_backend(ctx, rec, root), None
        except MachineryError as e:
            return None, e
        finally:
            if not os.environ.get("VERIF_KEEP"):
                shutil.rmtree(root, ignore_errors=True)
    npy = 0
    for resu, err in run.pmap(pyb, list(enumerate(psel))):
        if err:
            raise err
        npy += resu[0]
        for desc, payload, classes in resu[1]:
            ctx.violation(desc, payload, classes=classes)
    ctx.notes["python_backend_runs"] = npy
    ctx.cov["evaluations"] += npy
    ctx.cov["traces_validated_against_impl"] += npy

    # ---- one class exported by two libraries -----------------------------------------------------
    ndup, dbad, devents = dup_export_cases(ctx, os.path.join(ctx.tmp, "dupexport"))
    for desc, payload in dbad:
        ctx.violation(desc, payload)
    all_events += devents
    ctx.notes["dup_export_runs"] = ndup
    ctx.cov["evaluations"] += ndup

    # ---- acyclic samples: build and import -----------------------------------------------
    acyc = [r for r in recs if not is_cyclic(r) and r["n"] >= 2 and any(r["g"]) and all(k == "both" for k in r["kinds"])]
    acyc.sort(key=lambda r: (-sum(len(x) for x in r["g"]), ghash(r)))
    mixed = [r for r in recs if not is_cyclic(r) and r["n"] == 3 and any(r["g"]) and "funcs" in r["kinds"]
             and "foreign" not in r["kinds"]]
    mixed.sort(key=ghash)
    pick = acyc[:3] + acyc[3::max(1, len(acyc) // (4 if tier == "quick" else 20))][:(4 if tier == "quick" else 20)] + mixed[:3]

    def imp(irec):
        i, rec = irec
        root = os.path.join(ctx.tmp, "imp%03d" % i)
        try:
            return rec, build_and_import(ctx, rec, root), None
        except MachineryError as e:
            return rec, None, e
    nimp = 0
    for rec, resu, err in run.pmap(imp, list(enumerate(pick))):
        if err:
            raise err
        desc, payload = resu
        nimp += 1
        if desc:
            ctx.violation(desc, payload)
    ctx.notes["modules_built_and_imported"] = nimp
    ctx.cov["evaluations"] += nimp
    ctx.cov["traces_validated_against_impl"] += nimp

    # ---- failure path ------------------------------------------------------------------------
    fdump = os.path.join(ctx.tmp, "fail.ndjson")
    fres = tlc.run("ModuleFailMC", "ModuleFail", env={"VERIF_DUMP": fdump}, timeout=600)
    ctx.add_tlc(fres)
    if fres.verdict == "invariant":
        raise MachineryError("ModuleFail: %s violated in the model" % fres.violated)
    tlc.must_ok(fres, "failure path")
    fseen, fcases = set(), []
    for r in tlc.read_dump(fdump):
        key = json.dumps(r, sort_keys=True)
        if key not in fseen:
            fseen.add(key); fcases.append(r)
    fcases.sort(key=lambda r: json.dumps(r, sort_keys=True))
    if len(fcases) != 504:
        raise MachineryError("ModuleFail: expected 504 failure-path cases, got %d" % len(fcases))
    nfail = failure_cases(ctx, fcases, os.path.join(ctx.tmp, "fail"), tier)
    ctx.notes["failure_path_cases"] = nfail
    ctx.cov["evaluations"] += nfail
    ctx.cov["traces_validated_against_impl"] += nfail

    # ---- trace validation ------------------------------------------------------------------
    nval = validate_traces(ctx, all_events)
    ctx.notes["hook_traces_validated"] = nval
    ctx.cov["traces_validated_against_impl"] += nval
    ctx.assumptions.append("every edge target is a library of the same module (cross-module bases are outside the "
                           "property's quantifier); typedef edges are realised with a forcetype'd alias typedef, the "
                           "only way interrogate exports a typedef of another library's class; when one class is exported "
                           "by two libraries the merged attribution depends on the load order (C13), so only the weak "
                           "order statement and the trace are claimed there")
