"""C11 — database and generated code agree; the database is referentially closed.

spec Idb/IdbDB: ClosedDB (every stored index refers to a live record of the expected kind, one index space),
WrappersFirstDB, LinksConsistentDB + BackLinksDB (function<->wrapper, type<->method/ctor/cast/nested/derivation,
element<->accessor both ways), UniqueNamesDB; TLC checks that every action of the load/merge machine, in
particular RemapIndices (= InterrogateDatabase::remap_indices, every field and vector rewritten) on files whose
indices are NOT in canonical order, preserves them (RemapIso: the remap is a bijection that commutes with all
references).

binding
  (a) every database `interrogate` writes for ~30 generated headers x {-c,-python,-python-native} x naming
      options is dumped BY RAW INDEX (harness/idbm_tool.cxx reads the maps directly) and the same TLA+ invariants
      are evaluated on it by TLC (IdbState); a false invariant is a property violation.
  (b) for -c outputs: extern "C" redeclarations and function-pointer-type assertions synthesised ONLY from the
      database (wrapper name, return and parameter types, structurally: atomic token / pointer / const / named)
      are compiled in one translation unit with the generated -oc file; the -fptrs / -unique-names tables are
      checked against wrapper indices; every wrapper the database calls callable-by-name must be defined exactly
      once (source text and nm).
  (c) links BY NAME: owner and builder-naming rules (IdbDB: OwnerViol, BuilderNameViol) and the ground truth of the
      header (every MAKE_* declaration: which function each element / make_seq field must name) are evaluated by
      TLC on every dump, so that a stale index that lands on another live function is caught as well; the check
      measures, per index-valued field of every record kind, in how many databases it is non-zero (a field that is
      never exercised is a machinery error).
  (d) wrapper names: spec IdbHash (hash_function_signature over abstract hashes: names pairwise distinct for every
      sequence of colliding signatures); every dumped sequence is realised with concrete signatures that collide in
      exactly those hashes (a Python port of hash_string, validated on every run against the names interrogate
      gives a control library) and the names in the database, in the code and in the -unique-names table are
      compared with the spec's.
"""
import json, os, re, subprocess
from ..common import MachineryError, REPO, SHIMS
from .. import build, tlc, run
from . import _idbm

BACKENDS = ("-c", "-python", "-python-native")
OPTSETS = ((), ("-fnames",), ("-fptrs",), ("-unique-names",), ("-true-names",), ("-fnames", "-true-names"),
           ("-fnames", "-fptrs", "-unique-names"))

ATOMIC = {1: "int", 2: "float", 3: "double", 4: "bool", 5: "char", 6: "void", 7: "char const *", 8: "long long"}


def ctype(T, i, depth=0):
    """C++ spelling of database type i, from its structure only."""
    if i == 0:
        return "void"
    t = T.get(i)
    if t is None:
        return "/*dangling type %d*/ void" % i
    if depth > 20:
        return "/*cyclic*/ void"
    fl = t["fl"]
    if fl & 0x100 and fl & 0x80:          # pointer
        return ctype(T, t["wrapped"], depth + 1) + " *"
    if fl & 0x200 and fl & 0x80:          # const
        return ctype(T, t["wrapped"], depth + 1) + " const"
    if fl & 0x2 and t["at"] in ATOMIC:    # atomic
        base = ATOMIC[t["at"]]
        if t["at"] == 1:
            if fl & 0x20:
                base = "long long"
            elif fl & 0x10:
                base = "long"
            elif fl & 0x40:
                base = "short"
        if fl & 0x4:
            base = "unsigned " + base
        elif fl & 0x8:
            base = "signed " + base
        return base
    if fl & 0x400000:                     # array: passed as pointer to element
        return ctype(T, t["wrapped"], depth + 1) + " *"
    return t["sn"] or t["tn"]


def synth(raw):
    """From a raw dump: [(wrapper index, name or None, return type, [param types])] for C wrappers."""
    T = {t["i"]: t for t in raw["t"]}
    W = {w["i"]: w for w in raw["w"]}
    out = []
    for f in raw["f"]:
        for wi in f["cw"]:
            w = W.get(wi)
            if w is None:
                continue
            ret = ctype(T, w["ret"]) if (w["fl"] & 2) else "void"
            out.append((wi, w["n"] if (w["fl"] & 4) and w["n"] else None, ret, [ctype(T, p) for p in w["ps"]], w["un"]))
    return sorted(out)


# ---------------------------------------------------------------------------------------------
# (d) wrapper-name collisions
HCLS = "Hk"


def _sig(name):
    return "%s::%s(int)" % (HCLS, name)


def hash_families():
    """Concrete method names for the abstract hash classes (h1, h2) of IdbHash: permuting characters 24 positions
    apart keeps both hashes (both rotate by position mod 24); moving weight between two characters whose
    first-hash shifts differ by one bit keeps the first hash only.  Everything is verified with the port."""
    import itertools
    hs = _idbm.hash_string
    fam = {}
    for a, filler in ((0, "x"), (1, "y")):
        base = "a" + filler * 23 + "b" + filler * 23 + "c" + filler * 3
        tw = None
        for p in range(1, len(base) - 5):
            q = p + 5
            if {p, q} & {0, 24, 48}:
                continue
            for dp, dq in ((2, -1), (-2, 1), (1, -2), (-1, 2)):
                cand = list(base)
                cand[p] = chr(ord(cand[p]) + dp)
                cand[q] = chr(ord(cand[q]) + dq)
                cand = "".join(cand)
                if cand.isalnum() and hs(_sig(cand), 5) == hs(_sig(base), 5) and hs(_sig(cand), 11) != hs(_sig(base), 11):
                    tw = cand
                    break
            if tw:
                break
        if not tw:
            raise MachineryError("no first-hash-only collision found for the signature family %r" % base)
        for b, nm in ((0, base), (1, tw)):
            members = []
            for perm in itertools.permutations((nm[0], nm[24], nm[48])):
                m = list(nm)
                m[0], m[24], m[48] = perm
                members.append("".join(m))
            if len({(hs(_sig(m), 5), hs(_sig(m), 11)) for m in members}) != 1 or len(set(members)) != 6:
                raise MachineryError("permutation family of %r does not collide in both hashes" % nm)
            fam[(a, b)] = members
    h5 = {k: hs(_sig(v[0]), 5) for k, v in fam.items()}
    h11 = {k: hs(_sig(v[0]), 11) for k, v in fam.items()}
    if not (h5[(0, 0)] == h5[(0, 1)] != h5[(1, 0)] == h5[(1, 1)] and h11[(0, 0)] != h11[(0, 1)] and h11[(1, 0)] != h11[(1, 1)]):
        raise MachineryError("hash families do not realise the abstract classes: %r %r" % (h5, h11))
    for ctor in ("%s::%s()" % (HCLS, HCLS),):
        if hs(ctor, 5) in h5.values():
            raise MachineryError("constructor signature collides with a family")
    return fam


def hash_cases(ctx, work, hd, H):
    """Returns the (tag, header name, backend, opts) entries of the collision libraries after comparing the
    wrapper names in their databases with IdbHash's."""
    res = tlc.run("IdbHashMC", "IdbHash_%s" % ctx.tier, env={"VERIF_DUMP": os.path.join(work, "hash.ndjson")}, timeout=600)
    ctx.add_tlc(res)
    if res.verdict == "invariant":
        raise MachineryError("IdbHash: invariant %s violated in the model\n%s" % (res.violated, res.out[-2000:]))
    tlc.must_ok(res, "IdbHash")
    behs = sorted(tlc.read_dump(os.path.join(work, "hash.ndjson")), key=lambda b: json.dumps(b))
    if not behs:
        raise MachineryError("IdbHash dumped nothing")
    fam = hash_families()
    hs = _idbm.hash_string
    opts = ("-fnames", "-fptrs", "-unique-names")
    # control: the port must reproduce the names of a library without collisions
    ctl = "hctl"
    H[ctl] = _idbm._hdr(ctl, "class Ctl {\nPUBLISHED:\n  Ctl();\n  int alpha(int a, float b) const;\n  static void beta();\n};\n")
    jobs = [(ctl, None)]
    for bi, b in enumerate(behs):
        n = "hb%03d" % bi
        used, meths = {}, []
        for a, c in b["cls"]:
            k = used.get((a, c), 0)
            used[(a, c)] = k + 1
            meths.append(fam[(a, c)][k])
        H[n] = _idbm._hdr(n, "class %s {\nPUBLISHED:\n  %s();\n%s};\n" % (HCLS, HCLS, "".join("  int %s(int v);\n" % m for m in meths)))
        jobs.append((n, (b, meths)))
    for n, _ in jobs:
        open(os.path.join(hd, n + ".h"), "w").write(H[n])

    def gen(j):
        n, info = j
        tag = n + "-c" + "".join(opts)
        r, args = _idbm.interrogate(hd, n, "lib" + n, tag, backend="-c", opts=opts)
        return j, tag, r
    out = []
    lines = []
    tags = {}
    for (n, info), tag, r in run.pmap(gen, jobs):
        if r.rc != 0 or not r.outputs.get(tag + ".in"):
            raise MachineryError("interrogate rejected the collision library %s: %s" % (n, r.stderr[-400:]))
        tags[n] = tag
        lines += ["case " + tag, "reqdb " + os.path.join(hd, tag + ".in"), "raw", "end"]
    got, _ = _idbm.run_script(lines, work, "hashdump")

    def names_of(tag):
        raw = [x for x in got[tag] if x.get("op") == "raw"][0]
        W = {w["i"]: w for w in raw["w"]}
        return {f["sn"]: [(W[i]["n"], W[i]["un"]) for i in f["cw"] if i in W] for f in raw["f"]}
    # control
    lh = hs("lib" + ctl, 5)
    got_ctl = names_of(tags[ctl])
    want_ctl = {"Ctl::alpha": "Ctl::alpha(int, float) const", "Ctl::beta": "Ctl::beta()", "Ctl::Ctl": "Ctl::Ctl()"}
    for fsn, sig in want_ctl.items():
        exp = ("_inC" + lh + hs(sig, 5), "c" + lh + hs(sig, 5))
        if exp not in got_ctl.get(fsn, []):
            raise MachineryError("the Python port of hash_string does not reproduce interrogate's names: %s expected %r, "
                                 "database has %r" % (sig, exp, got_ctl.get(fsn)))
    # collision libraries
    n_ok = 0
    for n, info in jobs:
        if info is None:
            continue
        b, meths = info
        lh = hs("lib" + n, 5)
        have = names_of(tags[n])
        for m, nm in zip(meths, b["names"]):
            tail = hs(_sig(m), 5) + (hs(_sig(m), 11) if len(nm) >= 2 else "") + (chr(96 + nm[2]) if len(nm) == 3 else "")
            exp = [("_inC" + lh + tail, "c" + lh + tail)]
            if have.get(HCLS + "::" + m) != exp:
                ctx.violation("signatures with hash classes %s: wrapper of %s should be named %s (spec IdbHash: %s), the "
                              "database says %s" % (b["cls"], _sig(m), exp[0][0], nm, have.get(HCLS + "::" + m)),
                              dict(header=H[n], classes=b["cls"], spec_names=b["names"], database=have))
                break
        else:
            n_ok += 1
        out.append((tags[n], n, "-c", opts))
    out.append((tags[ctl], ctl, "-c", opts))
    ctx.notes["hash_collision_libraries"] = len(jobs) - 1
    ctx.cov["evaluations"] += len(jobs) - 1
    ctx.cov["traces_validated_against_impl"] += len(jobs) - 1
    ctx.sample(dict(hash_classes=behs[-1]["cls"], spec_names=behs[-1]["names"], verdict="names as the spec says"), limit=8)
    return out


def run_check(ctx):
    build.ensure("hooked")
    work = ctx.tmp
    # ---- 1. the invariants are preserved by every action of the spec ---------------------------------
    res = tlc.run("IdbMC", "Idb_c11", dfs=True, timeout=1200)
    ctx.add_tlc(res)
    if res.verdict == "invariant":
        raise MachineryError("Idb_c11: invariant %s violated in the model\n%s" % (res.violated, res.out[-3000:]))
    tlc.must_ok(res, "Idb_c11")
    ctx.cov["exhaustive"] = True

    # ---- 1b. the BUILDER side (spec IdbBuild): every mutation of the database under construction is an action;
    #          H-idbbuild traces of real interrogate runs are validated and cross-checked against the file written
    from . import _idbbuild
    _idbbuild.run_part(ctx, work)

    # ---- 2. generated headers through interrogate ------------------------------------------------------
    H = _idbm.single_headers()
    if "C11-wstring-atomic-string" in ctx.known:
        H["wstr0"] = _idbm.WSTR0        # reproduces that finding; part of the header set once the finding is listed
    hd = os.path.join(work, "h")
    os.makedirs(hd)
    open(os.path.join(hd, "vdefs.h"), "w").write(_idbm.VDEFS)
    for n, t in H.items():
        open(os.path.join(hd, n + ".h"), "w").write(t)
    optsets = OPTSETS if ctx.tier == "thorough" else OPTSETS[:5] + OPTSETS[6:]
    jobs = [(n, b, o) for n in sorted(H) for b in BACKENDS for o in optsets]

    def gen(j):
        n, b, o = j
        tag = "%s%s%s" % (n, b, "".join(o))
        r, args = _idbm.interrogate(hd, n, "lib" + n, tag, backend=b, opts=o)
        return j, tag, r, args
    dbs = []
    rejected = 0
    removed = {}
    for (n, b, o), tag, r, args in run.pmap(gen, jobs):
        if r.rc != 0 or r.timed_out or not r.outputs.get(tag + ".in"):
            rejected += 1        # the tool does not accept the combination: outside the property's domain
            continue
        dbs.append((tag, n, b, o))
        k = r.stderr.count("Attempt to define invalid type")
        if k:
            removed[tag] = k
    # the builder's remove_type path (a type it began to define and then erased: index space with holes)
    ctx.notes["runs_in_which_the_builder_removed_a_type"] = len(removed)
    ctx.notes["types_removed_by_the_builder"] = sum(removed.values())
    if not removed:
        raise MachineryError("no generated header made the builder remove a type it began to define")
    if len(dbs) < len(jobs) // 2:
        raise MachineryError("interrogate rejected %d of %d generated inputs" % (rejected, len(jobs)))
    ctx.notes["inputs_rejected_by_tool"] = rejected
    dbs += hash_cases(ctx, work, hd, H)

    # ---- 3. raw-index dumps, invariants evaluated by TLC ----------------------------------------------
    groups = [dbs[i::8] for i in range(8)]

    def dump(arg):
        gi, g = arg
        lines = []
        for tag, n, b, o in g:
            lines += ["case " + tag, "reqdb " + os.path.join(hd, tag + ".in"), "raw", "end"]
        got, _ = _idbm.run_script(lines, work, "dump%d" % gi)
        return got
    raws = {}
    for got in run.pmap(dump, list(enumerate(groups))):
        for tag, st in got.items():
            rr = [x for x in st if x.get("op") == "raw"]
            if rr and st[-1].get("exit") == 0:
                raws[tag] = rr[0]
    states = []
    ntruth = 0
    for tag, n, b, o in dbs:
        if tag not in raws or raws[tag]["err"]:
            ctx.violation("the database interrogate wrote for %s %s %s cannot be loaded" % (n, b, " ".join(o)),
                          dict(header=H[n], tag=tag))
            continue
        st = dict(id=tag, first=1, single=1, db=_idbm.raw_to_model(raws[tag]))
        truth = _idbm.header_truth(H[n])
        if truth:
            st["truth"] = truth
            have = {"e": {r["sn"] for r in raws[tag]["e"]}, "s": {r["sn"] for r in raws[tag]["s"]},
                    "b": {r["sn"] for r in raws[tag]["t"] if r["fd"]}}
            ntruth += sum(1 for x in truth if x["sn"] in have[x["k"]])      # entries whose record exists
        states.append(st)
    mstates, minfo = merged_states(ctx, work)
    states += mstates
    cover = _idbm.field_coverage([raws[t] for t in raws if not raws[t]["err"]])
    ctx.notes["index_field_coverage"] = cover
    ctx.notes["ground_truth_links_checked"] = ntruth
    if not ntruth:
        raise MachineryError("no ground-truth entry of any header matched a database record")
    holes = sum(1 for t in raws if any((x["fl"] & 0x180) == 0x180 and x["wrapped"] == 0 for x in raws[t]["t"]))
    ctx.notes["databases_with_a_pointer_to_a_removed_type"] = holes
    if not holes:
        raise MachineryError("no database contains a pointer type whose target the builder removed")
    never = sorted(k for k, v in cover.items() if v == 0)
    if never:
        raise MachineryError("index-valued fields never exercised by the generated headers: %s" % never)
    parts = [states[i::4] for i in range(4)]

    def ev(arg):
        i, part = arg
        return _idbm.eval_states(part, work, "inv%d" % i)
    verdicts = {}
    for v, r in run.pmap(ev, list(enumerate(parts))):
        verdicts.update(v)
        ctx.cov["states"] += r.generated
        ctx.cov["transitions"] += r.generated
    info = {tag: (n, b, o) for tag, n, b, o in dbs}
    for mid, (sn, order, raw) in minfo.items():
        v = verdicts.pop(mid)
        if not v["ok"]:
            failed = [k for k in ("closed", "vectors", "union") if not v[k]] + \
                     [k for k in ("open", "links", "owners", "names", "sigs", "dupTrueNames") if v[k]]
            ctx.violation("libraries of set %s requested together in the order %s: the merged database violates %s: %s" % (
                sn, order, ", ".join(failed), describe(raw, v)), dict(set=sn, order=order, verdict=v))
    ctx.notes["merged_databases_checked"] = len(minfo)
    ctx.cov["evaluations"] += len(minfo)
    ctx.cov["traces_validated_against_impl"] += len(minfo)
    nrec = 0
    nontrivial = set()
    for tag, v in sorted(verdicts.items()):
        raw = raws[tag]
        cnt = len(raw["w"]) + len(raw["f"]) + len(raw["t"]) + len(raw["m"]) + len(raw["e"]) + len(raw["s"])
        nrec += cnt
        if cnt:
            nontrivial.add(json.dumps(_idbm.raw_to_model(raw), sort_keys=True))
        if v["ok"]:
            continue
        n, b, o = info[tag]
        failed = [k for k in ("closed", "vectors", "wrappersFirst") if not v[k]] + \
                 [k for k in ("open", "links", "backlinks", "owners", "names", "sigs", "truth", "dupTrueNames", "dupUnique", "dupWrapperNames") if v[k]]
        names = describe(raw, v)
        ctx.violation("database of %s.h with %s %s violates %s: %s" % (n, b, " ".join(o), ", ".join(failed), names),
                      dict(header=H[n], backend=b, options=o, verdict=v))
    ctx.cov["evaluations"] += len(verdicts)
    ctx.cov["traces_validated_against_impl"] += len(verdicts)
    ctx.cov["distinct_nontrivial"] = len(nontrivial)
    ctx.cov["rule"] = ("one evaluation = the C11 invariants evaluated by TLC on the raw-index dump of one database "
                       "written by interrogate (header x back-end x naming options) or one -c output compiled "
                       "against declarations synthesised from its database; non-trivial = the database has at least "
                       "one record; distinct = distinct database contents (indices, names and all index fields)")
    ctx.notes["databases_checked"] = len(verdicts)
    ctx.notes["records_checked"] = nrec
    for tag in sorted(verdicts)[:: max(1, len(verdicts) // 3)][:3]:
        n, b, o = info[tag]
        ctx.sample(dict(header=n + ".h", backend=b, options=list(o), records=len(raws[tag]["t"]) + len(raws[tag]["f"]) + len(raws[tag]["w"]),
                        verdict="all invariants hold" if verdicts[tag]["ok"] else "violated"))

    # ---- 4. -c outputs: declarations synthesised from the database compiled with the generated code -----
    cjobs = [(tag, n, o) for tag, n, b, o in dbs if b == "-c" and tag in raws]
    inc = ["-I" + hd, "-I" + os.path.join(REPO, "src", "dtoolbase"), "-I" + os.path.join(REPO, "src", "interrogatedb"),
           "-I" + os.path.join(build.bdir(), "include"), "-I" + build.bdir(), "-I" + SHIMS]

    def cc(j):
        tag, n, o = j
        return j, compile_one(hd, tag, raws[tag], inc)
    ncomp = 0
    for (tag, n, o), (status, detail, nsig) in run.pmap(cc, cjobs):
        if status == "gen-broken":
            ctx.notes.setdefault("generated_code_not_compilable", []).append(tag)     # C03's property, not ours
            continue
        ncomp += 1
        if status != "ok":
            ctx.violation("%s.h with -c %s: %s" % (n, " ".join(o), detail[:600]),
                          dict(header=H[n], options=o, status=status, detail=detail,
                               decls=(open(os.path.join(hd, tag + "_decl.cxx")).read()
                                      if os.path.exists(os.path.join(hd, tag + "_decl.cxx")) else None)),
                          classes=classes_of(H[n], o))
        if nsig:
            ctx.sample(dict(header=n + ".h", backend="-c", options=list(o), signatures_compiled=nsig, verdict=status), limit=6)
    ctx.cov["evaluations"] += ncomp
    ctx.cov["traces_validated_against_impl"] += ncomp
    ctx.notes["c_outputs_compiled_with_db_declarations"] = ncomp


def merged_states(ctx, work):
    """Sets of libraries that include each other (one forward-declares / uses what another defines, derivation,
    nested, outer and wrapped links across libraries), requested TOGETHER in every order: the merged database is
    dumped by raw index and gets the same closure / link / name rules, plus Union against the single databases."""
    import itertools
    from . import c13
    names = ["fwd", "chain", "nsenum", "pair", "conflict"] + (["diamond"] if ctx.tier == "thorough" else [])
    mwork = os.path.join(work, "merged")
    os.makedirs(mwork)
    sets = c13.build_sets(ctx, mwork, names)
    lines, cases = [], {}
    for sn, libs in sets.items():
        for lib, path in libs:
            lines += ["case s/%s/%s" % (sn, lib), "reqdb " + path, "raw", "end"]
        for pi, perm in enumerate(itertools.permutations(libs)):
            cid = "m/%s/%d" % (sn, pi)
            lines += ["case " + cid] + ["reqdb " + p for _, p in perm] + ["raw", "end"]
            cases[cid] = (sn, [l for l, _ in perm])
    got, _ = _idbm.run_script(lines, mwork, "merged")

    def raw_of(cid):
        st = got.get(cid, [])
        rr = [x for x in st if x.get("op") == "raw"]
        if not rr or st[-1].get("exit") != 0 or rr[0]["err"]:
            raise MachineryError("could not load %s" % cid)
        return rr[0]
    singles = {(sn, lib): _idbm.raw_to_model(raw_of("s/%s/%s" % (sn, lib))) for sn, libs in sets.items() for lib, _ in libs}
    states, info = [], {}
    for cid, (sn, order) in cases.items():
        raw = raw_of(cid)
        states.append(dict(id=cid, first=1, single=0, db=_idbm.raw_to_model(raw), singles=[singles[(sn, l)] for l in order]))
        info[cid] = (sn, order, raw)
    return states, info


def describe(raw, v):
    """Names for the witness indices of a verdict."""
    out = []
    tabs = {k: {x["i"]: x for x in raw[k]} for k in ("w", "f", "t", "m", "e", "s")}
    for x in list(v.get("truth") or [])[:4]:
        if x["k"] == "b":
            out.append("truth: base %d of %s must be %s%s" % (x["idx"], x["sn"], x["base"], " (virtual: no downcast)" if x["virt"] else ""))
            continue
        src = {r["sn"]: r for r in raw["e" if x["k"] == "e" else "s"]}
        fn = {f["i"]: f["sn"] for f in raw["f"]}
        r = src.get(x["sn"])
        out.append("truth: %s.%s must be %r, database links %r" % (x["sn"], x["f"], x["fn"],
                   "<no such record>" if r is None else fn.get(r[x["f"]], r[x["f"]] or "")))
    for x in list(v.get("owners") or [])[:3] + list(v.get("names") or [])[:3] + list(v.get("sigs") or [])[:3]:
        out.append("by-name rule %s" % (x,))
    for key in ("open", "links", "backlinks", "dupTrueNames", "dupUnique", "dupWrapperNames"):
        for i in list(v.get(key) or [])[:4]:
            for k, tab in tabs.items():
                if i in tab:
                    x = tab[i]
                    out.append("%s: %s #%d %s" % (key, k, i, x.get("sn") or x.get("tn") or x.get("n") or x.get("un")))
    return "; ".join(out)[:800]


# Input class of the known finding C11-fptrs-unrecorded-wrapper: a published function whose return type the C
# back-end cannot represent (reference or pointer to an arithmetic type): code is generated for it with a void
# return but no database entry is made.
UNRECORDED = re.compile(r"^\s*(?:const\s+)?(?:unsigned\s+|signed\s+)?(?:int|float|double|bool|short|long)\s*[&*]\s*"
                        r"(?:\w+|operator\s*\S+)\s*\(|operator\s+const\s+(?:int|float|double|bool|short|long)\s*\*", re.M)


def classes_of(header_text, opts):
    out = []
    if ("-fptrs" in opts or "-unique-names" in opts) and UNRECORDED.search(header_text):
        out.append("C11-fptrs-unrecorded-wrapper")
    # -string is always given by this check: a wide-character string parameter / return is recorded as the atomic
    # string type, which for the C calling convention means (const char *)
    if re.search(r"\bwchar_t\b|\bwstring\b", header_text):
        out.append("C11-wstring-atomic-string")
    return out


TABLE = re.compile(r"static void \*_in_fptrs\[\d+\] = \{(.*?)\};", re.S)
UNIQ = re.compile(r"static InterrogateUniqueNameDef _in_unique_names\[\d+\] = \{(.*?)\n\};", re.S)


def compile_one(hd, tag, raw, inc):
    gen = os.path.join(hd, tag + ".cxx")
    src = open(gen).read()
    # -fpermissive: without -fnames the generated file declares the wrappers extern and defines them static, which
    # g++ only accepts permissively; whether generated code compiles is property C03, not this one
    sigs = synth(raw)
    defs = {}
    for m in re.finditer(r"^(_in\w+)\(", src, re.M):
        defs[m.group(1)] = defs.get(m.group(1), 0) + 1
    multi = sorted({name for wi, name, ret, ps, un in sigs if name and defs.get(name, 0) != 1})
    dupn = sorted({name for wi, name, ret, ps, un in sigs if name and sum(1 for s2 in sigs if s2[1] == name) > 1})
    if multi or dupn:
        return ("name-clash", "wrapper names of the database that the generated code does not define exactly once: %s; "
                "names the database gives to several wrappers: %s" % ([(x, defs.get(x, 0)) for x in multi[:4]], dupn[:4]), len(sigs))
    base = subprocess.run(["g++", "-std=c++17", "-fsyntax-only", "-w", "-fpermissive"] + inc + [gen], cwd=hd, stdout=subprocess.PIPE,
                          stderr=subprocess.STDOUT, text=True)
    if base.returncode != 0:
        return "gen-broken", base.stdout[-800:], 0
    nw = len(raw["w"])
    lines = ['#include "%s.cxx"' % tag, "#include <type_traits>"]
    named = []
    for wi, name, ret, ps, un in sigs:
        if name:
            lines.append('extern "C" %s %s(%s);' % (ret, name, ", ".join(ps)))
            lines.append('static_assert(std::is_same<decltype(&%s), %s (*)(%s)>::value, "wrapper %d %s: the database records %s (%s)");'
                         % (name, ret, ", ".join(ps), wi, name, ret, ", ".join(ps)))
            named.append(name)
    problems = []
    # -fptrs: _in_fptrs[k] is the wrapper with index k + 1
    m = TABLE.search(src)
    bysig = {wi: (ret, ps) for wi, name, ret, ps, un in sigs}
    if m:
        fns = re.findall(r"&(\w+)", m.group(1))
        if len(fns) != nw:
            problems.append("_in_fptrs has %d entries, the database %d wrappers" % (len(fns), nw))
        for k, fn in enumerate(fns):
            if k + 1 in bysig:
                ret, ps = bysig[k + 1]
                lines.append('static_assert(std::is_same<decltype(&%s), %s (*)(%s)>::value, "_in_fptrs[%d] = %s but wrapper %d of the database is %s (%s)");'
                             % (fn, ret, ", ".join(ps), k, fn, k + 1, ret, ", ".join(ps)))
    # -unique-names: {name, offset}: wrapper offset + 1 carries that unique name
    m = UNIQ.search(src)
    if m:
        ents = re.findall(r'\{ "([^"]*)", (-?\d+) \}', m.group(1))
        byun = {wi: un for wi, name, ret, ps, un in sigs}
        for un, off in ents:
            if byun.get(int(off) + 1) != un:
                problems.append("_in_unique_names says %r is wrapper %d, the database says wrapper %d has unique name %r"
                                % (un, int(off) + 1, int(off) + 1, byun.get(int(off) + 1)))
        if len({u for u, _ in ents}) != len(ents):
            problems.append("_in_unique_names has duplicate keys: %s" % sorted({u for u, _ in ents if [x for x, _ in ents].count(u) > 1})[:4])
        if len(ents) != len([1 for s in sigs if s[4]]):
            problems.append("_in_unique_names has %d entries, the database %d unique names" % (len(ents), len([1 for s in sigs if s[4]])))
    decl = os.path.join(hd, tag + "_decl.cxx")
    open(decl, "w").write("\n".join(lines) + "\n")
    obj = os.path.join(hd, tag + "_decl.o")
    r = subprocess.run(["g++", "-std=c++17", "-c", "-w", "-fpermissive", "-o", obj] + inc + [decl], cwd=hd, stdout=subprocess.PIPE,
                       stderr=subprocess.STDOUT, text=True)
    if r.returncode != 0:
        errs = [l for l in r.stdout.split("\n") if "error" in l]
        return "signature-mismatch", "the declarations the database implies do not compile with the generated code: " + " | ".join(errs[:4]), len(sigs)
    if named:
        nm = subprocess.run(["nm", "--defined-only", obj], stdout=subprocess.PIPE, text=True).stdout
        defined = {l.split()[-1] for l in nm.split("\n") if len(l.split()) == 3 and l.split()[1] in "TtWw"}
        missing = [x for x in named if x not in defined]
        if missing:
            problems.append("wrappers named in the database but not defined by the code: %s" % missing[:5])
    if problems:
        return "table-mismatch", "; ".join(problems), len(sigs)
    return "ok", "", len(sigs)
