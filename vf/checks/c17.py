"""C17 — include lookup order, once-only inclusion, path normalisation, file ownership.

specs IncludeSearch (reference = the stated lookup / ownership rule; mechanism = find_include's probes
over the path lists the tools build + the _explicit_files override; part 2: _parsed_files keyed by the
canonical name with the #pragma once flag) and PathNorm (Filename::standardize / make_absolute
transcribed, realpath semantics for make_canonical, against a small file-system model with one
directory symlink).  TLC: Refines / OnceOnly for every layout x form x option set x command-line
order; Idempotent / SameDenotation / Canon* for every path within the bound.
Replay: every dumped lookup case is materialised as a directory tree with marker declarations and run
through `interrogate` (database -> directory that won, exported or not) and a part through
`parse_file`; every once-only history through `parse_file` (number of contributions); every path
through harness/path_tool (real Filename class) inside a real directory tree, compared with the spec
(strings) and with os.stat (inode identity).  The H-inc hook trace of the runs is validated against
IncludeTrace."""
import os, re, json, hashlib, shutil, subprocess
from ..common import MachineryError, NCPU
from .. import build, tlc, run, harness

CFG = {"quick": ("IncludeSearch_quick", "PathNorm_quick"), "thorough": ("IncludeSearch_thorough", "PathNorm_thorough")}
DIRS = ["cwd", "inc", "I1", "S1", "I2", "S2"]
HEADER = "x.h"

# finding classes (predicates over the INPUT), used only if the corresponding fix is not in the tree
K_ANGLE = "C17-angle-include-empty-system-path"
K_LINK = "C17-command-line-file-through-symlink"
K_EMPTY = "C17-standardize-collapses-to-empty"
K_SYMDD_FN = "C17-standardize-dotdot-after-symlink"        # Filename level: not fixed (lexical by design)
K_SYMDD_OPT = "C17-include-dir-dotdot-after-symlink"       # interrogate -I/-S/-srcdir: c17-fix-4
K_CYCLE = "C17-unguarded-include-cycle"                    # c17-fix-5
K_SYMDD_OUT = "C17-output-name-dotdot-after-symlink"       # interrogate -oc/-od/-oh: c17-fix-6


def h32(*a):
    return int(hashlib.sha256(json.dumps(a, sort_keys=True).encode()).hexdigest()[:8], 16)


# ---------------------------------------------------------------------------------------------
# Part 1: lookup
def layout_key(rec):
    return (tuple(sorted(rec["present"])), bool(rec["incIsCwd"]))


def make_layout(base, key):
    """root/{cwd,inc,I1,S1,I2,S2}; every directory in `present` has x.h defining FROM and an own_ marker;
    the includer (two files, one per include form) lives in inc/ or, when incIsCwd, in cwd/;
    root/lnk -> root for spellings through a symbolic link."""
    present, inc_is_cwd = key
    root = os.path.join(base, "L_%s_%d" % ("-".join(present) or "none", inc_is_cwd))
    for d in DIRS:
        os.makedirs(os.path.join(root, d), exist_ok=True)
    os.makedirs(os.path.join(root, "out"), exist_ok=True)
    for d in present:
        with open(os.path.join(root, d, HEADER), "w") as f:
            f.write("#pragma once\n#define FROM from_%s\n__begin_publish\nint own_%s;\n__end_publish\n" % (d, d))
    tdir = os.path.join(root, "cwd" if inc_is_cwd else "inc")
    for form, txt in (("quote", '#include "x.h"'), ("angle", "#include <x.h>")):
        with open(os.path.join(tdir, "top_%s.h" % form), "w") as f:
            f.write("%s\n__begin_publish\nint FROM;\nint top_marker;\n__end_publish\n" % txt)
    if not os.path.islink(os.path.join(root, "lnk")):
        os.symlink(".", os.path.join(root, "lnk"))
    return os.path.realpath(root)


def lookup_argv(rec, root, cid):
    """The interrogate command line of a case.  Variation (fixed by a hash of the case, not by the
    seed): -srcdir, spelling of the option directories (joined / separate argument, trailing slash,
    dot segments, absolute)."""
    h = h32(rec["present"], rec["cmd"], rec["form"], rec["noangles"], rec["incIsCwd"], rec["explicit"], rec["viaLink"])
    srcdir = (h % 3 == 0)
    launch = root if srcdir else os.path.join(root, "cwd")
    rel = "" if srcdir else "../"          # option directories are resolved against the launch directory
    argv = ["-v", "-module", "m", "-library", "l", "-od", os.path.join(root, "out", "c%d.in" % cid)]
    if rec["noangles"]:
        argv.append("-noangles")
    if srcdir:
        argv += ["-srcdir", "cwd" if (h >> 4) % 2 else "./cwd/"]
    for i, d in enumerate(rec["cmd"]):
        style = (h >> (6 + 2 * i)) % 4
        path = [rel + d, rel + d + "/", rel + "./" + d + "//", os.path.join(root, d)][style]
        opt = "-S" if d.startswith("S") else "-I"
        if (h >> (16 + i)) % 2:
            argv.append(opt + path)
        else:
            argv += [opt, path]
    top = ("" if rec["incIsCwd"] else "../inc/") + "top_%s.h" % rec["form"]
    argv.append(top)                        # file arguments are relative to the working directory
    if rec["explicit"] != "none":
        argv.append(("../lnk/" if rec["viaLink"] else "../") + rec["explicit"] + "/" + HEADER)
    return launch, argv


RE_NAME = re.compile(r"\b(from_\w+|own_\w+|FROM|top_marker)\b")
SRC = {0: "local", 1: "alternate", 2: "system", 3: "none", -1: "none"}


def observe_lookup(db_text, stderr, trace_path, root):
    """Projection: (directory whose header was included | none, own marker of it exported, warning,
    hook view (dir, source class))."""
    names = set(RE_NAME.findall(db_text))
    froms = sorted(n[5:] for n in names if n.startswith("from_"))
    if "top_marker" not in names:
        won = "?"
    elif len(froms) == 1 and "FROM" not in names:
        won = froms[0]
    elif not froms and "FROM" in names:
        won = "none"
    else:
        won = "?%s" % froms
    local = ("own_" + won) in names
    warned = ("Cannot find " + HEADER) in stderr
    hook = None
    if trace_path and os.path.exists(trace_path):
        for line in open(trace_path):
            try:
                e = json.loads(line)
            except ValueError:
                continue
            if e.get("e") == "Include" and e.get("name") == HEADER and hook is None:
                if e["path"] == "":
                    hook = ("none", "none")
                else:
                    relp = os.path.relpath(e["path"], root).split(os.sep)
                    hook = (relp[0] if len(relp) == 2 and relp[1] == HEADER else "?" + e["path"], SRC.get(e["src"], "?"))
    return won, local, warned, hook


def lookup_classes(rec):
    cl = []
    if rec["form"] == "angle" and not rec["noangles"] and not any(d.startswith("S") for d in rec["cmd"]) \
            and "cwd" in rec["present"]:
        cl.append(K_ANGLE)
    if rec["explicit"] != "none" and rec["viaLink"] and rec["dir"] == rec["explicit"]:
        cl.append(K_LINK)
    return cl


def select_lookup(recs, tier):
    """quick: every layout x command line x form x -noangles with the includer outside the working
    directory and no candidate on the command line, and a fixed 1-in-k stratum of the rest."""
    if tier == "thorough":
        return recs
    out = []
    for r in recs:
        plain = r["explicit"] == "none" and not r["incIsCwd"]
        if plain:
            if len(r["cmd"]) <= 2 or h32("p", r["present"], r["cmd"], r["form"], r["noangles"]) % 4 == 0:
                out.append(r)
        elif h32("x", r["present"], r["cmd"], r["form"], r["noangles"], r["incIsCwd"], r["explicit"], r["viaLink"]) % 24 == 0:
            out.append(r)
    return out


def make_layouts(ctx, recs):
    base = os.path.join(ctx.tmp, "lookup")
    os.makedirs(base, exist_ok=True)
    roots = {}
    for r in recs:
        k = layout_key(r)
        if k not in roots:
            roots[k] = make_layout(base, k)
    return roots


def replay_lookup(ctx, recs, tier, roots):

    def one(irec):
        cid, rec = irec
        root = roots[layout_key(rec)]
        launch, argv = lookup_argv(rec, root, cid)
        tr = os.path.join(root, "out", "c%d.trace" % cid)
        r = run.run_tool("interrogate", argv, cwd=launch, trace=tr, timeout=60)
        dbp = os.path.join(root, "out", "c%d.in" % cid)
        db = open(dbp, errors="replace").read() if os.path.exists(dbp) else ""
        obs = observe_lookup(db, r.stderr, tr, root)
        for p in (dbp, tr):
            if os.path.exists(p):
                os.remove(p)
        return rec, argv, launch, r.rc, r.timed_out, obs, r.stderr[-800:]

    results = run.pmap(one, list(enumerate(recs)))
    events, nontrivial = [], set()
    for rec, argv, launch, rc, to, (won, local, warned, hook), err in results:
        exp = (rec["dir"], rec["src"] == "local", rec["dir"] == "none")
        case = dict(case=rec, cwd=launch, argv=argv, expected=dict(dir=exp[0], local=exp[1], warning=exp[2], src=rec["src"]),
                    observed=dict(dir=won, local=local, warning=warned, hook=hook, rc=rc), stderr=err)
        if rc != 0 or to:
            ctx.violation("interrogate exit %s (timeout %s) on an include-lookup case %s" % (rc, to, argv), case)
            continue
        if (won, local, warned) != exp:
            ctx.violation("include lookup: present in %s, command line %s, form %s%s%s%s: expected hit %s (%s)%s, "
                          "interrogate took %s (%s)%s" % (
                              rec["present"], rec["cmd"], rec["form"], " -noangles" if rec["noangles"] else "",
                              " includer in cwd" if rec["incIsCwd"] else "",
                              (" %s/x.h also on the command line%s" % (rec["explicit"], " through a symlink" if rec["viaLink"] else ""))
                              if rec["explicit"] != "none" else "",
                              exp[0], "own" if exp[1] else "not own", " + warning" if exp[2] else "",
                              won, "own" if local else "not own", " + warning" if warned else ""),
                          case, classes=lookup_classes(rec))
        if hook is not None:
            events.append([dict(e="Case", present=rec["present"], cmd=rec["cmd"], form=rec["form"],
                                noangles=int(rec["noangles"]), incIsCwd=int(rec["incIsCwd"]), explicit=rec["explicit"],
                                viaLink=int(rec["viaLink"])),
                           dict(e="Include", dir=("cwd" if hook[0] == "inc" and rec["incIsCwd"] else hook[0]), src=hook[1]),
                           lookup_classes(rec)])
        if len(rec["present"]) >= 2:
            nontrivial.add(json.dumps([rec[k] for k in ("present", "cmd", "form", "noangles", "incIsCwd", "explicit", "viaLink")]))
    return len(results), len(nontrivial), events


def replay_lookup_parse_file(ctx, recs, roots):
    """The same layouts through parse_file (its own -I/-S handling: directories are not made absolute):
    quote/angle forms without -noangles (parse_file has no such option), winner from the parse dump."""
    sel = [r for r in recs if not r["noangles"] and r["explicit"] == "none"
           and h32("pf", r["present"], r["cmd"], r["form"], r["incIsCwd"]) % 6 == 0]

    def one(rec):
        root = roots[layout_key(rec)]
        argv = []
        for d in rec["cmd"]:
            argv += ["-S" if d.startswith("S") else "-I", "../" + d]
        argv.append(("" if rec["incIsCwd"] else "../inc/") + "top_%s.h" % rec["form"])
        r = run.run_tool("parse_file", argv, cwd=os.path.join(root, "cwd"), timeout=60)
        names = set(RE_NAME.findall(r.stdout))
        froms = sorted(n[5:] for n in names if n.startswith("from_"))
        won = froms[0] if len(froms) == 1 and "FROM" not in names else ("none" if not froms and "FROM" in names else "?%s" % froms)
        return rec, argv, r.rc, won, ("Cannot find " + HEADER) in r.stderr, r.stderr[-500:]
    n = 0
    for rec, argv, rc, won, warned, err in run.pmap(one, sel):
        n += 1
        if rc != 0 or (won, warned) != (rec["dir"], rec["dir"] == "none"):
            ctx.violation("include lookup (parse_file): present in %s, command line %s, form %s: expected hit %s, got %s "
                          "(warning %s, rc %s)" % (rec["present"], rec["cmd"], rec["form"], rec["dir"], won, warned, rc),
                          dict(case=rec, argv=argv, stderr=err), classes=lookup_classes(rec))
    return n


# ---------------------------------------------------------------------------------------------
# Part 2: once-only
BODY = {"pragma": "#pragma once\nint contrib_marker;\n",
        "guard": "#ifndef X_H_GUARD\n#define X_H_GUARD\nint contrib_marker;\n#endif\n",
        "none": "int contrib_marker;\n"}


def once_layout(base):
    roots = {}
    for g, body in BODY.items():
        root = os.path.join(base, "once_" + g)
        os.makedirs(os.path.join(root, "cwd", "sub"), exist_ok=True)
        os.makedirs(os.path.join(root, "out"), exist_ok=True)
        open(os.path.join(root, "cwd", "sub", HEADER), "w").write(body)
        if not os.path.islink(os.path.join(root, "cwd", "lnk")):
            os.symlink("sub", os.path.join(root, "cwd", "lnk"))
        roots[g] = os.path.realpath(root)
    return roots


def spelling(sp, root):
    # repeated slashes inside the #include text are undefined behaviour in C/C++ ("//" in a header-name), so
    # they are exercised where they are legal: in the -I directory ("viaI") and in the command-line spelling
    return {"plain": "sub/x.h", "dot": "./sub/x.h", "dotdot": "sub/../sub/./x.h",
            "symlink": "lnk/x.h", "abs": os.path.join(root, "cwd", "sub", "x.h"), "viaI": "x.h"}[sp]


def replay_once(ctx, recs):
    base = os.path.join(ctx.tmp, "once")
    roots = once_layout(base)

    def one(irec):
        cid, rec = irec
        root = roots[rec["guard"]]
        sp = rec["spelled"]
        cut = sp.index("cmdline") if "cmdline" in sp else len(sp)
        files = []
        for part, seq in (("a", sp[:cut]), ("b", sp[cut + 1:])):
            fn = os.path.join(root, "out", "t%d%s.h" % (cid, part))
            with open(fn, "w") as f:
                for s in seq:
                    f.write('#include "%s"\n' % spelling(s, root))
                f.write("int done_%s;\n" % part)
            files.append("../out/t%d%s.h" % (cid, part))
        argv = ["-I", "lnk/..//sub/"]
        argv.append(files[0])
        if "cmdline" in sp:
            argv.append(["sub/x.h", "./lnk/x.h", "sub/../lnk//x.h"][cid % 3])
        argv.append(files[1])
        tr = os.path.join(root, "out", "t%d.trace" % cid)
        r = run.run_tool("parse_file", argv, cwd=os.path.join(root, "cwd"), trace=tr, timeout=60)
        count = len(re.findall(r"\bint contrib_marker;", r.stdout))
        # hook view: one Inc event per inclusion / command-line parse of x.h, in order
        evs = []
        canon = os.path.join(root, "cwd", "sub", "x.h")
        if os.path.exists(tr):
            seq = list(sp)
            pend = None
            for line in open(tr):
                try:
                    e = json.loads(line)
                except ValueError:
                    continue
                k = e.get("e")
                if k == "Include" and e.get("path") == canon:
                    if pend:
                        evs.append(pend)
                    pend = dict(e="Inc", sp=seq.pop(0) if seq else "?", skipped=0, pragma=0)
                elif k == "IncludeOnce" and e.get("path") == canon and pend:
                    pend["skipped"] = 1
                elif k == "TopFile" and e.get("path") == canon:
                    if pend:
                        evs.append(pend)
                    pend = dict(e="Inc", sp=seq.pop(0) if seq else "?", skipped=int(e.get("once", 0)), pragma=0)
                elif k == "PragmaOnce" and e.get("path") == canon and pend:
                    pend["pragma"] = 1
            if pend:
                evs.append(pend)
            os.remove(tr)
        for f in files:
            os.remove(os.path.join(root, "cwd", f))
        return rec, argv, r.rc, count, ("done_a" in r.stdout and "done_b" in r.stdout), evs, r.stderr[-500:]

    n, events = 0, []
    for rec, argv, rc, count, complete, evs, err in run.pmap(one, list(enumerate(recs))):
        n += 1
        if rc != 0 or not complete:
            ctx.violation("parse_file exit %s on a once-only case %s %s" % (rc, rec["guard"], rec["spelled"]),
                          dict(case=rec, argv=argv, stderr=err))
            continue
        if count != rec["count"]:
            ctx.violation("once-only: a header protected by %s included as %s contributes %d time(s), expected %d" % (
                rec["guard"], rec["spelled"], count, rec["count"]), dict(case=rec, argv=argv, stderr=err))
        if evs:
            events.append([dict(e="OnceCase", guard=rec["guard"])] + evs + [[]])
    return n, events


# ---------------------------------------------------------------------------------------------
# Part 3: a command-line file that is first reached through an #include
B_DECLS = "__begin_publish\nextern int own_b;\nint own_bf(int x);\n__end_publish\n"
B_CLASS = "class BCls {\n__published:\n  BCls();\n  int bm();\n};\n"
B_BODY = {"pragma": "#pragma once\n" + B_CLASS + B_DECLS,
          "guard": "#ifndef B_H_GUARD\n#define B_H_GUARD\n" + B_CLASS + B_DECLS + "#endif\n",
          # an unprotected file is read twice: only declarations that may be repeated
          "none": B_DECLS}
INC_TEXT = {"incPlain": "b.h", "incDot": "./b.h", "incDotDot": "sub/../b.h",
            "Iplain": "b.h", "Isymlink": "b.h", "Idotdot": "b.h", "Splain": "b.h", "Sangle": "b.h"}


def own_case(rec, root):
    """root/hdr/a.h includes B; B lives next to A (inc* reaches) or in root/lib (reached through -I);
    root/lnkB -> B's directory, root/lnkI -> root/lib, root/work = a working directory without headers.
    Returns (cwd, argv)."""
    via_i = rec["reach"][0] in "IS"                      # B is not next to A: reached through an option directory
    bdir = "lib" if rec["reach"].startswith("I") else "sys" if rec["reach"].startswith("S") else "hdr"
    for d in ("hdr/sub", "lib/sub", "sys/sub", "work"):
        os.makedirs(os.path.join(root, d), exist_ok=True)
    os.symlink(bdir, os.path.join(root, "lnkB"))
    os.symlink("lib", os.path.join(root, "lnkI"))
    open(os.path.join(root, bdir, "b.h"), "w").write(B_BODY[rec["guard"]])
    inc = "<b.h>" if rec["reach"] == "Sangle" else '"%s"' % INC_TEXT[rec["reach"]]
    open(os.path.join(root, "hdr", "a.h"), "w").write(
        '#include %s\n__begin_publish\nextern int own_a;\n__end_publish\n' % inc)
    cwd = os.path.join(root, bdir if rec["cwdHas"] else "work")
    brel = "." if rec["cwdHas"] else "../" + bdir
    a = "a.h" if (rec["cwdHas"] and not via_i) else "../hdr/a.h"
    b = {"plain": "b.h" if brel == "." else brel + "/b.h",
         "symlink": "../lnkB/b.h",
         "dots": "./" + brel + "/sub/../b.h"}[rec["cmdSpell"]]
    argv = ["-module", "m", "-library", "l", "-od", os.path.join(root, "o.in")]
    if via_i:
        argv += {"Iplain": ["-I", "../lib"], "Isymlink": ["-I", "../lnkI"], "Idotdot": ["-I", "../hdr/../lib"],
                 "Splain": ["-S", "../sys"], "Sangle": ["-S../sys"]}[rec["reach"]]
    argv += [a, b] if rec["order"] == "AB" else [b, a]
    return cwd, argv


def replay_own(ctx, recs):
    base = os.path.realpath(os.path.join(ctx.tmp, "own"))
    os.makedirs(base, exist_ok=True)
    reader = os.path.join(os.path.dirname(os.path.dirname(os.path.dirname(os.path.abspath(__file__)))),
                          "harness", "c17_dbnames.py")
    libso = os.path.join(build.libdir(), "libinterrogatedb.so")

    def one(irec):
        cid, rec = irec
        root = os.path.join(base, "o%03d" % cid)
        os.makedirs(root)
        cwd, argv = own_case(rec, root)
        tr = os.path.join(root, "trace.ndjson")
        r = run.run_tool("interrogate", argv, cwd=cwd, trace=tr, timeout=60)
        got = None
        if r.rc == 0 and os.path.exists(os.path.join(root, "o.in")):
            p = subprocess.run(["python3", reader, libso, os.path.join(root, "o.in")], stdout=subprocess.PIPE,
                               stderr=subprocess.PIPE, text=True, timeout=60)
            try:
                got = json.loads(p.stdout)
            except ValueError:
                got = dict(error=True, stderr=p.stderr[-300:])
        hook = None
        if os.path.exists(tr):
            for line in open(tr):
                try:
                    e = json.loads(line)
                except ValueError:
                    continue
                if e.get("e") == "Include" and e.get("name") == INC_TEXT[rec["reach"]]:
                    hook = SRC.get(e["src"], "?")
                    break
        return rec, cwd, argv, r.rc, got, hook, r.stderr[-600:]

    n, events = 0, []
    for rec, cwd, argv, rc, got, hook, err in run.pmap(one, list(enumerate(recs))):
        n += 1
        protected = rec["guard"] != "none"
        want = dict(own_b=rec["entries"], own_bf=1, own_a=1, BCls=1 if protected else 0)
        case = dict(case=rec, cwd=cwd, argv=argv, expected=want, database=got, stderr=err)
        if rc != 0 or got is None or got.get("error"):
            ctx.violation("interrogate exit %s / database unreadable on an ownership case %s" % (rc, argv), case)
            continue
        have = dict(own_b=got["globals"].count("own_b"), own_bf=got["functions"].count("own_bf"),
                    own_a=got["globals"].count("own_a"), BCls=got["types"].count("BCls"))
        if have != want:
            ctx.violation("ownership: b.h named on the command line (%s spelling, %s, cwd %s the headers, %s) and first "
                          "reached by a.h's #include (%s): the database should export %s, it has %s" % (
                              rec["cmdSpell"], "after a.h" if rec["order"] == "AB" else "before a.h",
                              "contains" if rec["cwdHas"] else "does not contain", rec["guard"], rec["reach"], want, have), case)
        if hook is not None:
            events.append([dict(e="OwnCase", cmdSpell=rec["cmdSpell"], reach=rec["reach"], order=rec["order"],
                                cwdHas=int(rec["cwdHas"]), guard=rec["guard"]), dict(e="OwnInc", src=hook), []])
    if len(events) < n:
        raise MachineryError("ownership cases: %d runs but only %d Include events for b.h" % (n, len(events)))
    return n, events


# ---------------------------------------------------------------------------------------------
# Part 4: include chains
LEAF_ORDER = ["CWD", "MAIN", "RDIR", "REFDIR", "I1", "S1", "I2"]
KEY_LEAFSETS = [["RDIR"], ["RDIR", "I2"], ["REFDIR"], ["RDIR", "REFDIR"], ["MAIN"], [], ["MAIN", "REFDIR", "I2"],
                ["CWD", "RDIR"], ["S1", "I2"]]


def chain_rdirs(ways):
    """Resolved directory of every file of the chain as path components below the case root."""
    dirs = [["main"]]
    for k, w in enumerate(ways, 1):
        if w == "cwd":
            d = ["cwd", "d%d" % k]
        elif w in ("incdir", "dotdot"):
            d = dirs[-1] + ["d%d" % k]
        elif w == "I":
            d = ["I1", "d%d" % k]
        elif w == "S":
            d = ["S1", "d%d" % k]
        else:
            d = ["real", "d%d" % k]
        dirs.append(d)
    return dirs


def select_chains(recs, tier):
    if tier == "thorough":
        return [r for r in recs if h32("ct", r["ways"], r["cmd"], r["leafAt"]) % 4 == 0 or r["leafAt"] in KEY_LEAFSETS]
    out = []
    for r in recs:
        canonical_cmd = [c for c in r["cmd"] if c in ("I1", "S1", "I2")] == ["I1", "S1", "I2"]
        if (r["leafAt"] in KEY_LEAFSETS and canonical_cmd) or h32("c", r["ways"], r["cmd"], r["leafAt"]) % 64 == 0:
            out.append(r)
    return out


def chain_case(rec, root):
    ways = rec["ways"]
    K = len(ways)
    dirs = chain_rdirs(ways)
    for d in ("cwd", "main", "I1", "S1", "I2", "real/zz", "out"):
        os.makedirs(os.path.join(root, d), exist_ok=True)
    os.symlink("real", os.path.join(root, "lnk"))
    os.symlink("real/zz", os.path.join(root, "lnk2"))
    names = []
    for k in range(1, K + 1):
        os.makedirs(os.path.join(root, *dirs[k]), exist_ok=True)
        names.append(("d%d/../d%d/f%d.h" if ways[k - 1] == "dotdot" else "d%d/f%d.h") % ((k, k, k) if ways[k - 1] == "dotdot" else (k, k)))
    names.append("sib.h")
    for k in range(1, K + 1):
        open(os.path.join(root, *dirs[k], "f%d.h" % k), "w").write(
            '#pragma once\n#define SEEN_%d 1\n#include "%s"\n' % (k, names[k]))
    main = ['#include "%s"' % names[0], "__begin_publish"]
    for k in range(1, K + 1):
        main += ["#ifdef SEEN_%d" % k, "extern int seen_%d;" % k, "#endif"]
    main += ["extern int FROM;", "extern int top_marker;", "__end_publish"]
    open(os.path.join(root, "main", "main.h"), "w").write("\n".join(main) + "\n")
    place_dir = {"CWD": ["cwd"], "MAIN": ["main"], "RDIR": dirs[K], "REFDIR": ["cwd", "d%d" % K],
                 "I1": ["I1"], "S1": ["S1"], "I2": ["I2"]}
    for pl in rec["leafAt"]:
        os.makedirs(os.path.join(root, *place_dir[pl]), exist_ok=True)
        open(os.path.join(root, *place_dir[pl], "sib.h"), "w").write(
            "#pragma once\n#define FROM from_%s\n__begin_publish\nextern int own_%s;\n__end_publish\n" % (pl, pl))
    argv = ["-v", "-module", "m", "-library", "l", "-od", os.path.join(root, "out", "o.in")]
    for c in rec["cmd"]:
        argv += {"I1": ["-I", "../I1"], "S1": ["-S", "../S1"], "I2": ["-I../I2"], "LNK": ["-I", "../lnk"],
                 "LNKDD": ["-I", "../lnk2/.."]}[c]
    argv.append("../main/main.h")
    return names, dirs, place_dir, argv


def replay_chains(ctx, recs):
    base = os.path.realpath(os.path.join(ctx.tmp, "chain"))
    os.makedirs(base, exist_ok=True)

    def one(irec):
        cid, rec = irec
        root = os.path.join(base, "c%05d" % cid)
        os.makedirs(root)
        names, dirs, place_dir, argv = chain_case(rec, root)
        K = len(rec["ways"])
        tr = os.path.join(root, "out", "trace.ndjson")
        r = run.run_tool("interrogate", argv, cwd=os.path.join(root, "cwd"), trace=tr, timeout=60)
        dbp = os.path.join(root, "out", "o.in")
        db = open(dbp, errors="replace").read() if os.path.exists(dbp) else ""
        found = set(re.findall(r"\b(from_\w+|own_\w+|FROM|top_marker|seen_\d+)\b", db))
        froms = sorted(n[5:] for n in found if n.startswith("from_"))
        won = froms[0] if len(froms) == 1 and "FROM" not in found else ("none" if not froms and "FROM" in found else "?%s" % froms)
        obs = dict(seen=sorted(n for n in found if n.startswith("seen_")), dir=won, local=("own_" + won) in found,
                   warned=sorted(set(re.findall(r"warning: Cannot find (\S+)", r.stderr))), top="top_marker" in found)
        # hook view of the chain's includes, in order
        hook = []
        if os.path.exists(tr):
            want = list(names)
            for line in open(tr):
                try:
                    e = json.loads(line)
                except ValueError:
                    continue
                if e.get("e") == "Include" and want and e.get("name") == want[0]:
                    k = len(names) - len(want) + 1
                    want.pop(0)
                    if e["path"] == "":
                        hook.append(dict(e="ChainInc", dir="none", src="none"))
                    elif k <= K:
                        right = os.path.join(root, *dirs[k], "f%d.h" % k)
                        hook.append(dict(e="ChainInc", dir="R" if e["path"] == right else "?", src=SRC.get(e["src"], "?")))
                    else:
                        pl = [p for p in rec["leafAt"] if os.path.join(root, *place_dir[p], "sib.h") == e["path"]]
                        hook.append(dict(e="ChainInc", dir=pl[0] if pl else "?", src=SRC.get(e["src"], "?")))
        shutil.rmtree(root, ignore_errors=True)
        return rec, argv, r.rc, r.timed_out, obs, hook, r.stderr[-700:]

    n, events = 0, []
    for rec, argv, rc, to, obs, hook, err in run.pmap(one, list(enumerate(recs))):
        n += 1
        K = len(rec["ways"])
        cls = [K_SYMDD_OPT] if "Ilinkdd" in rec["ways"] else []
        exp = dict(seen=["seen_%d" % k for k in range(1, K + 1)], dir=rec["dir"], local=rec["src"] == "local",
                   warned=["sib.h"] if rec["dir"] == "none" else [], top=True)
        case = dict(case=rec, argv=argv, expected=exp, observed=obs, hook=hook, stderr=err)
        if rc != 0 or to:
            ctx.violation("interrogate exit %s (timeout %s) on an include chain %s" % (rc, to, rec["ways"]), case, classes=cls)
            continue
        if obs != exp:
            ctx.violation("include chain main.h -> %s -> \"sib.h\" (links found through %s; -I/-S order %s; sib.h present in %s): "
                          "expected files reached %s and sib.h from %s%s, interrogate reached %s and took %s (warnings: %s)" % (
                              " -> ".join("f%d.h" % k for k in range(1, K + 1)), rec["ways"], rec["cmd"], rec["leafAt"],
                              exp["seen"], exp["dir"], " (own)" if exp["local"] else "", obs["seen"], obs["dir"], obs["warned"]),
                          case, classes=cls)
        if hook:
            events.append([dict(e="ChainCase", ways=rec["ways"], cmd=rec["cmd"], leafAt=rec["leafAt"])] + hook + [cls])
    if len(events) < n:
        raise MachineryError("include chains: %d runs but only %d with Include events" % (n, len(events)))
    return n, events


# ---------------------------------------------------------------------------------------------
# include cycles: protected cycles contribute once (C17); an unprotected cycle must end, promptly, with a diagnostic
def replay_cycles(ctx):
    base = os.path.join(ctx.tmp, "cycles")
    prot = {"pragma": ("#pragma once\n", ""), "guard": ("#ifndef %(g)s\n#define %(g)s\n", "#endif\n"), "none": ("", "")}
    items = []
    for g, (pre, post) in prot.items():
        d = os.path.join(base, g)
        os.makedirs(d)
        for me, other in (("a", "b"), ("b", "a"), ("self", "self")):
            open(os.path.join(d, me + ".h"), "w").write(
                (pre % dict(g="G_" + me.upper()) if "%" in pre else pre) + '#include "%s.h"\nint in_%s;\n' % (other, me) + post)
        items += [(g, "a.h"), (g, "self.h")]

    def one(it):
        g, top = it
        r = run.run_tool("parse_file", [top], cwd=os.path.join(base, g), timeout=90)
        return g, top, r.rc, r.timed_out, r.wall, {m: len(re.findall(r"\bint in_%s;" % m, r.stdout)) for m in ("a", "b", "self")}, \
            r.stderr[-400:]
    n = 0
    for g, top, rc, to, wall, counts, err in run.pmap(one, items):
        n += 1
        info = dict(protection=g, top=top, rc=rc, timed_out=to, wall=round(wall, 2), contributions=counts, stderr=err)
        if g != "none":
            want = {"a": 1, "b": 1, "self": 0} if top == "a.h" else {"a": 0, "b": 0, "self": 1}
            if rc != 0 or to or counts != want:
                ctx.violation("include cycle of %s-protected headers (%s): expected exit 0 and one contribution each, got exit %s "
                              "(timeout %s) and %s" % (g, top, rc, to, counts), info)
        else:
            if to or rc in (0, None) or "nested too deeply" not in err or wall > 30:
                ctx.violation("unprotected include cycle (%s): expected a prompt error, got exit %s after %.1fs (timeout %s), "
                              "stderr %r" % (top, rc, wall, to, err[-160:]), info, classes=[K_CYCLE])
    return n


# ---------------------------------------------------------------------------------------------
# output names: interrogate normalises the -oc / -od / -oh names too; the file written must be the one the
# operating system's reading of the name denotes
def replay_output_names(ctx):
    base = os.path.realpath(os.path.join(ctx.tmp, "outnames"))
    items = []
    for i, (spell, cls) in enumerate([("link/../%s", [K_SYMDD_OUT]), ("./sub/../%s", []), ("link/%s", []),
                                      ("../real/deep/../%s", [])]):
        for opt, fname in (("-od", "o.in"), ("-oc", "o.cxx"), ("-oh", "o.txt")):
            items.append((i, spell, cls, opt, fname))

    def one(it):
        i, spell, cls, opt, fname = it
        root = os.path.join(base, "n%d%s" % (i, opt))
        os.makedirs(os.path.join(root, "work", "sub"))
        os.makedirs(os.path.join(root, "real", "deep"))
        os.symlink("../real/deep", os.path.join(root, "work", "link"))
        open(os.path.join(root, "work", "h.h"), "w").write("__begin_publish\nextern int v;\nint f(int a);\n__end_publish\n")
        name = spell % fname
        wd = os.path.join(root, "work")
        want = os.path.join(os.path.realpath(os.path.join(wd, os.path.dirname(name))), fname)
        argv = ["-module", "m", "-library", "l", opt, name, "h.h"]
        r = run.run_tool("interrogate", argv, cwd=wd, timeout=60)
        written = [os.path.join(dp, f) for dp, dn, fs in os.walk(root) for f in fs if f == fname]
        return name, opt, cls, r.rc, want, sorted(written)
    n = 0
    for name, opt, cls, rc, want, written in run.pmap(one, items):
        n += 1
        if rc != 0 or written != [want]:
            ctx.violation("interrogate %s %s: the operating system resolves the name to %s, the file was written to %s (exit %s)" % (
                opt, name, want, written, rc), dict(option=opt, name=name, expected=want, written=written, rc=rc), classes=cls)
    return n


# ---------------------------------------------------------------------------------------------
# Part 5: path normalisation
def replay_paths(ctx, recs):
    ld = build.libdir()
    tool = harness.ensure("path_tool", ["path_tool.cxx", os.path.join(ld, "libdtoolutil.a"),
                                        os.path.join(ld, "libdtoolbase.a")], link_idb=True)
    R = os.path.realpath(os.path.join(ctx.tmp, "fsroot"))
    for d in ("a/a", "a/b"):
        os.makedirs(os.path.join(R, d), exist_ok=True)
    if not os.path.islink(os.path.join(R, "b")):
        os.symlink("a/b", os.path.join(R, "b"))
    cwd = os.path.join(R, "a")
    node_path = {"/": R, "/a": R + "/a", "/a/a": R + "/a/a", "/a/b": R + "/a/b"}
    ino = {n: os.stat(p).st_ino for n, p in node_path.items()}

    def tool_run(mode, lines, wd):
        p = subprocess.run([tool, mode], input="\n".join(lines) + "\n", cwd=wd, stdout=subprocess.PIPE,
                           stderr=subprocess.PIPE, text=True, timeout=300)
        if p.returncode != 0:
            return None, p
        out = {}
        for line in p.stdout.split("\n"):
            if line:
                f = line.split("\t")
                out[f[0]] = f[1:]
        return out, p

    # (1) standardize on the model's texts, purely lexical
    texts = [r["text"] for r in recs]
    lex, p = tool_run("std", texts, cwd)
    if lex is None:
        ctx.violation("path_tool (Filename::standardize) died with %s on the path list" % p.returncode,
                      dict(stderr=p.stderr[-1500:]))
        return 0, 0
    n, nontriv = 0, 0

    def stat_ino(path, wd):
        try:
            return os.stat(path if os.path.isabs(path) else os.path.join(wd, path)).st_ino if path != "" else None
        except OSError:
            return None
    real = {}
    for r in recs:
        real[r["text"]] = (R + r["text"]) if r["abs"] else r["text"]
    full, p = tool_run("all", sorted(set(real.values())), cwd)
    if full is None:
        ctx.violation("path_tool (make_absolute / make_canonical) died with %s" % p.returncode, dict(stderr=p.stderr[-1500:]))
        return 0, 0
    for r in recs:
        t = r["text"]
        n += 1
        cls = [K_EMPTY] if (not r["abs"] and r["std"] == "." and t != ".") else []
        got = lex.get(t, ["<missing>"])[0]
        if got != r["std"]:
            ctx.violation("Filename(%r).standardize() = %r, the specification says %r" % (t, got, r["std"]),
                          dict(path=t, expected=r["std"], observed=got), classes=cls)
        rp = real[t]
        f = full.get(rp)
        if f is None or len(f) < 6:
            raise MachineryError("path_tool gave no answer for %r" % rp)
        std_r, mabs_r, canon_r, canon_ok, std2_r, canon2_r = f[:6]
        # the specification's file-system model against the operating system
        have = stat_ino(rp, cwd)
        if r["node"] in ino:
            if have != ino[r["node"]]:
                raise MachineryError("PathNorm's file system model: %r should denote %s, os.stat says inode %s" % (rp, r["node"], have))
        elif r["node"] == "NONE" and have is not None:
            raise MachineryError("PathNorm's file system model: %r should not exist, os.stat finds it" % rp)
        # idempotence on the real class
        if std2_r != std_r:
            ctx.violation("standardize is not idempotent on %r: %r then %r" % (rp, std_r, std2_r),
                          dict(path=rp, once=std_r, twice=std2_r), classes=cls)
        if r["node"] in ino:
            nontriv += 1
            if r["link"] and ".." in t.split("/"):
                # a ".." after a symbolic link: the lexical collapse is known to change the denotation
                if stat_ino(std_r, cwd) != have or stat_ino(mabs_r, cwd) != have:
                    ctx.violation("standardize / make_absolute change what %r denotes (a \"..\" after a symbolic link is "
                                  "collapsed textually): %r / %r" % (rp, std_r, mabs_r),
                                  dict(path=rp, standardize=std_r, make_absolute=mabs_r), classes=[K_SYMDD_FN])
            if not r["link"]:
                # lexical normalisation keeps the denotation on symlink-free paths
                if stat_ino(std_r, cwd) != have:
                    ctx.violation("standardize changes what %r denotes: result %r is %s" % (
                        rp, std_r, "no file" if stat_ino(std_r, cwd) is None else "another file"),
                        dict(path=rp, result=std_r), classes=cls)
                if stat_ino(mabs_r, cwd) != have or not mabs_r.startswith("/"):
                    ctx.violation("make_absolute changes what %r denotes: result %r" % (rp, mabs_r), dict(path=rp, result=mabs_r))
                if ".." not in r["mabs"].split("/"):
                    want = R + (r["mabs"] if r["mabs"] != "/" else "")
                    if mabs_r != want:
                        ctx.violation("Filename(%r).make_absolute() = %r, the specification says %r" % (rp, mabs_r, want),
                                      dict(path=rp, expected=want, observed=mabs_r))
            # make_canonical: realpath semantics on every denoting path, symbolic links included
            want = node_path[r["canon"]]
            if canon_r != want or canon_ok != "1":
                ctx.violation("Filename(%r).make_canonical() = %r (returned %s), expected %r" % (rp, canon_r, canon_ok, want),
                              dict(path=rp, expected=want, observed=canon_r))
            if canon2_r != canon_r:
                ctx.violation("make_canonical is not idempotent on %r: %r then %r" % (rp, canon_r, canon2_r),
                              dict(path=rp, once=canon_r, twice=canon2_r))
    return n, nontriv


# ---------------------------------------------------------------------------------------------
def validate(ctx, execs):
    """execs: list of event lists (last element = finding classes of the case)."""
    if not execs:
        raise MachineryError("C17: the H-inc hooks produced no Include events (hooks missing from the build?)")
    known = [e for e in execs if any(c in ctx.known for c in e[-1])]
    execs = [e for e in execs if e not in known]
    groups = [execs[i::NCPU] for i in range(NCPU)]
    groups = [g for g in groups if g]

    def one(gi_g):
        gi, g = gi_g
        cat = os.path.join(ctx.tmp, "inctrace-%d.ndjson" % gi)
        with open(cat, "w") as o:
            for evs in g:
                o.write('{"e":"Reset"}\n')
                for e in evs[:-1]:
                    o.write(json.dumps(e) + "\n")
        status, r = tlc.validate_trace("IncludeTrace", cat)
        if status != "accepted":
            status, r = tlc.validate_trace("IncludeTrace", cat)
        return status, r, cat, len(g)
    n = 0
    for status, r, cat, k in run.pmap(one, list(enumerate(groups))):
        ctx.cov["states"] += r.generated
        ctx.cov["transitions"] += r.generated
        if status == "accepted":
            n += k
            continue
        lines = open(cat).read().split("\n")
        at = r.stuck_at or 1
        os.makedirs(ctx.replay_dir, exist_ok=True)
        keep = os.path.join(ctx.replay_dir, os.path.basename(cat))
        shutil.copy(cat, keep)
        # the Case / OnceCase event that opened the rejected execution
        j = min(at, len(lines)) - 1
        while j > 0 and '"Case"' not in lines[j] and '"OnceCase"' not in lines[j]:
            j -= 1
        ctx.violation("hook trace %s by IncludeTrace (%s) at event %d: %s" % (
            status, r.violated or "the logged hit / source class / skip is not the specification's", at,
            " ".join(lines[j:at + 1])[:600]), dict(trace=keep, tlc_tail=r.out[-2500:]))
    return n


def run_check(ctx):
    build.ensure("hooked")
    tier = ctx.tier
    inc_cfg, pn_cfg = CFG[tier]
    # ---- TLC ----------------------------------------------------------------------------------
    dump = os.path.join(ctx.tmp, "inc.ndjson")
    res = tlc.run("IncludeSearchMC", inc_cfg, env={"VERIF_DUMP": dump}, coverage=True, timeout=1500)
    ctx.add_tlc(res)
    if res.verdict == "invariant":
        raise MachineryError("IncludeSearch: %s violated in the model\n%s" % (res.violated, res.out[-2500:]))
    tlc.must_ok(res)
    vac = tlc.vacuous_actions(res)
    if vac:
        raise MachineryError("IncludeSearch: actions never taken: %s" % vac)
    lookups, onces, owns, chains, seen = [], [], [], [], set()
    for r in tlc.read_dump(dump):
        key = json.dumps(r, sort_keys=True)
        if key in seen:
            continue
        seen.add(key)
        if r["k"] == "lookup":
            r["present"] = sorted(r["present"], key=DIRS.index)
            lookups.append(r)
        elif r["k"] == "own":
            owns.append(r)
        elif r["k"] == "chain":
            r["leafAt"] = sorted(r["leafAt"], key=LEAF_ORDER.index)
            chains.append(r)
        else:
            onces.append(r)
    if len(lookups) < 90000 or len(onces) < 300 or len(owns) != 288 or len(chains) < 39000:
        raise MachineryError("IncludeSearch dump too small: %d lookup cases, %d once-only histories, %d ownership cases, "
                             "%d chains" % (len(lookups), len(onces), len(owns), len(chains)))
    chains.sort(key=lambda r: json.dumps(r, sort_keys=True))
    owns.sort(key=lambda r: json.dumps(r, sort_keys=True))
    pdump = os.path.join(ctx.tmp, "paths.ndjson")
    pres = tlc.run("PathNormMC", pn_cfg, env={"VERIF_DUMP": pdump}, timeout=1500)
    ctx.add_tlc(pres)
    if pres.verdict == "invariant":
        raise MachineryError("PathNorm: %s violated in the model\n%s" % (pres.violated, pres.out[-2500:]))
    tlc.must_ok(pres)
    paths, seen = [], set()
    for r in tlc.read_dump(pdump):
        if r["text"] not in seen:
            seen.add(r["text"]); paths.append(r)
    if len(paths) < 7000:
        raise MachineryError("PathNorm dump too small: %d paths" % len(paths))
    lookups.sort(key=lambda r: json.dumps(r, sort_keys=True))
    onces.sort(key=lambda r: json.dumps(r, sort_keys=True))
    paths.sort(key=lambda r: (len(r["text"]), r["text"]))

    ctx.cov["exhaustive"] = True
    ctx.cov["rule"] = ("TLC enumerates every (presence subset of {cwd, includer dir, I1, S1, I2, S2}) x (sequence of distinct "
                       "-I/-S directories) x include form x -noangles x includer-in-cwd x candidate-on-command-line(-through-"
                       "a-symlink) case, every once-only history of <= MaxIncludes spellings x protection kind, and every path "
                       "of <= MaxLen components over {a, b, ., .., empty} x absolute/relative; lookup cases are replayed "
                       "through interrogate (quick: a fixed stratum, see select_lookup) and parse_file, histories through "
                       "parse_file, paths through the real Filename class in a real directory tree; non-trivial = the "
                       "header exists in >= 2 candidate directories / the history has >= 2 inclusions / the path denotes a "
                       "file; distinct = distinct case record; plus every ownership case (spelling of the command-line file x way the "
                       "#include reaches it first x command-line order x cwd x protection), replayed through interrogate and "
                       "read back through the database query interface")

    # ---- replay -------------------------------------------------------------------------------
    sel = select_lookup(lookups, tier)
    roots = make_layouts(ctx, sel)
    n_l, nt_l, ev_l = replay_lookup(ctx, sel, tier, roots)
    n_pf = replay_lookup_parse_file(ctx, sel, roots)
    n_o, ev_o = replay_once(ctx, onces)
    n_w, ev_w = replay_own(ctx, owns)
    csel = select_chains(chains, tier)
    n_c, ev_c = replay_chains(ctx, csel)
    n_y = replay_cycles(ctx) + replay_output_names(ctx)
    n_p, nt_p = replay_paths(ctx, paths)
    ctx.cov["evaluations"] += n_l + n_pf + n_o + n_p + n_w + n_c + n_y
    ctx.cov["traces_validated_against_impl"] += n_l + n_pf + n_o + n_p + n_w + n_c + n_y
    ctx.cov["distinct_nontrivial"] = nt_l + sum(1 for r in onces if len(r["spelled"]) >= 2) + nt_p + n_w + n_c
    ctx.notes["ownership_cases_replayed"] = n_w
    ctx.notes.update(include_chains_in_model=len(chains), include_chains_replayed=n_c, include_cycle_cases=n_y)
    ctx.notes.update(lookup_cases_in_model=len(lookups), lookup_cases_replayed_interrogate=n_l,
                     lookup_cases_replayed_parse_file=n_pf, once_only_histories_replayed=n_o, paths_checked=n_p)
    for r in sel[7::max(1, len(sel) // 3)][:3]:
        ctx.sample(dict(kind="lookup", **r))
    for r in onces[11::max(1, len(onces) // 2)][:2]:
        ctx.sample(dict(kind="once-only", **r))
    ctx.sample(dict(kind="path", **paths[len(paths) // 2]))

    # ---- trace validation ---------------------------------------------------------------------
    nval = validate(ctx, ev_l + ev_o + ev_w + ev_c)
    ctx.notes["hook_traces_validated"] = nval
    ctx.cov["traces_validated_against_impl"] += nval
    ctx.assumptions.append("'skipped with a warning' is observed at verbosity >= 2 (interrogate -v, parse_file), where the "
                           "preprocessor prints warnings; a candidate found through -S that is ALSO named on the command "
                           "line is outside the claimed domain (the statement's two clauses disagree); lexical '..' collapse "
                           "is only claimed on paths that cross no symbolic link; paths that do not denote a file, or climb "
                           "above the modelled root, are outside the denotation claim")
