"""C01 — handle-style wrappers (-c, -python) behave exactly like the C++ they wrap.

spec WrapC / CppLibCalls: a library is a set of signatures over 20 parameter kinds placed in the
class family K0, K1:K0, K2:K0, KB, Mix:K0,KB, K3:virtual K0; every function has one defined meaning
Sem (result = Encode(ret, Mix(sigId, thisState, args)), state' = state + Weight(args)) in TLA+ and
in the generated C++ body.  The K0 part of every object owns a payload with move semantics; strings
include UTF-8 multibyte text and an embedded NUL followed by more data.  TLC enumerates (1) every
signature of the tier's alphabet with boundary argument tuples as single-call behaviours
(exhaustive BFS), (2) overload sets: every pair of parameter kinds overloaded against each other
under one name, and the conversion-related kinds (char pointer / std::string / bool, object pointer /
bool, integer widths, float / double, enum / int) as complete sets, every variant of every member
called (exhaustive BFS), and (3) simulated call sequences over small libraries in which every
wrapper variant is called at least twice on different objects / arguments, checking the model
invariants in every state.  The alphabets include scoped enumerations with explicit underlying
types (char, long long) as parameters / results / data members, `const std::string *` parameters,
array data members (int[3], float[2]: setter; an array of objects: getter), compound-assignment
operators returning *this, an int or an object by value, and  int &operator [](K)  (exported as the
item-assignment wrapper), prefix / postfix ++ and -- (prefix returns the operand itself, postfix a NEW
object holding the OLD value), plain binary operators, and VIRTUAL member functions of K0 that K1,
Mix and K3 override: which body runs is decided by the object's class (ground truth base_ptr->f()),
whether the call goes through K0's wrapper with the database's upcast or through the wrapper of the
object's own class (Mix, K3; a class with one non-virtual base does not re-export an override).
TLC dumps every complete behaviour with the expected result and the
state (st, bst, payload) of EVERY live object - `this`, arguments, bystanders - after every step.

Replay: the libraries are packed into class families and rendered (vf/wraplib.py) to one header +
implementation + native driver per batch.  `interrogate` runs on the header for every option set,
the generated wrapper file is compiled and linked with the implementation, and a child process
(harness/wrapc_drive.py) executes every behaviour through the wrappers, finding and calling them
THROUGH THE DATABASE ONLY (function name, parameter / return types, parameter names, is_this and
optional flags).  Return values, the state of every live object read back through the published
accessors after every step, and the ndjson log of the instrumented bodies (which names the
function that ran and the arguments it received) are compared with the spec and with the same
calls made natively (spec != native => MachineryError).

The C calling convention passes and returns strings as NUL-terminated char *: under -c an argument
with an embedded NUL is not expressible (such behaviours are left out for -c; its prefix is in the
alphabet anyway) and a std::string result is observed as CppLibCalls!CView(result), i.e. up to the
first NUL.  The -python back-end carries lengths (s# / PyUnicode_FromStringAndSize), so there the
full value, embedded NUL included, is demanded for std::string parameters and results."""
import json, os, subprocess, sys, threading, collections
from ..common import MachineryError, REPO, HARNESS, VERIF, NCPU
from .. import build, tlc, run, idb
from .. import wraplib as W

JOBS = 6          # parallel compile / replay jobs (shared machine)
PYINC = None


from ._c01_scope import run_part as scope_part

def optsets(tier):
    S = []
    for back in ("c", "python"):
        for names in ("fnames", "truenames"):
            for string in (True, False):
                for prom in (False, True):
                    if back == "python" and names == "truenames":
                        continue      # see run_check: the module's names are not the database's
                    args = ["-" + back]
                    args += ["-fnames"] if names == "fnames" else ["-true-names", "-fptrs"]
                    if string:
                        args.append("-string")
                    if prom:
                        args.append("-promiscuous")
                    if back == "python":
                        args.append("-do-module")
                    S.append(dict(id="%s-%s%s%s" % (back, names, "-string" if string else "", "-promiscuous" if prom else ""),
                                  backend=back, names=names, string=string, promiscuous=prom, args=args,
                                  fptrs=(names == "truenames")))
    return S


def pyinc():
    global PYINC
    if PYINC is None:
        import sysconfig
        PYINC = sysconfig.get_paths()["include"]
    return PYINC


def sh(cmd, cwd, timeout=600):
    p = subprocess.run(cmd, cwd=cwd, stdout=subprocess.PIPE, stderr=subprocess.STDOUT, text=True, timeout=timeout)
    return p.returncode, p.stdout


def must(cmd, cwd, what):
    rc, out = sh(cmd, cwd)
    if rc != 0:
        raise MachineryError("%s failed: %s\n%s" % (what, " ".join(cmd), out[-3000:]))


def passes_nul(b):
    """does the behaviour pass a std::string with an embedded NUL?  (not expressible through a char * parameter)"""
    return any(isinstance(a, str) and "\0" in a for st in b["steps"] for a in st.get("args", []))


def uses_string(b, fns):
    for st in b["steps"]:
        if st["op"] in ("new", "call"):
            s = fns[st["gid"]].sig
            # without -string neither back-end accepts char pointers or std::string (TypeManager::is_pointer
            # wants a pointable target): functions using them get no wrapper by design
            if set(s["ps"] + [s["ret"]]) & {"string", "cstr", "strPtr"}:
                return True
    return False


# ---- finding classes: predicates over the INPUT (option set, signature, arguments) --------
def classes_of(opt, st, fns):
    """known-finding classes of one step: predicates over the INPUT (option set, signature, arguments) only"""
    out = []
    if st["op"] not in ("new", "call"):
        return out
    s = fns[st["gid"]].sig
    if s["fk"] == "opAsg" and s["ret"] != "objRef":
        out.append("C01-assignment-operator-result-replaced-by-this")
    if opt["backend"] == "python":
        for k, a in zip(st["kinds"], st["args"]):
            if k == "enumLL" and not -2147483648 <= a <= 2147483647:
                out.append("C01-python-enum64-parameter-through-int")
    return out


def batch_classes(opt, features):
    """known-finding classes of a whole batch (a wrapper file that does not compile): predicates over the library's
    contents (wraplib.lib_features) and the option set"""
    out = []
    if "arr" in features and opt["backend"] == "python":
        out.append("C01-python-array-parameter-not-compilable")
    if "arrobj" in features:
        out.append("C01-class-array-member-getter-not-compilable")
    return out


def call_text(st, fns):
    if st["op"] in ("new", "call"):
        fn = fns[st["gid"]]
        a = ", ".join(json.dumps(x) for x in st["args"])
        om = " [%d default(s) omitted]" % st["k"] if st["k"] else ""
        if st["op"] == "new":
            return "new %s(%s)%s" % (fn.cxxcls, a, om)
        if fn.sig["fk"] in ("getter", "setter"):
            return "obj%d.%s %s  // published data member" % (st["this"], fn.cname, "= " + a if fn.sig["fk"] == "setter" else "(read)")
        tgt = "obj%d." % st["this"] if st.get("this") else ""
        return "%s%s(%s)%s   // %s" % (tgt, fn.scoped if not st.get("this") else fn.cname, a, om, W.declaration(fn))
    if st["op"] == "copy":
        return "obj%d = copy of obj%d" % (st["slot"], st["frm"])
    if st["op"] == "upcast":
        return "view obj%d as %s" % (st["obj"], st["to"])
    return "delete obj%d" % st["obj"]


def read_log(path):
    """ndjson call log -> {(b, i): [lines]}"""
    out = {}
    cur = None
    if not os.path.exists(path):
        return out
    for line in open(path, errors="replace"):
        line = line.strip()
        if not line:
            continue
        if line.startswith('{"mark":'):
            cur = tuple(json.loads(line)["mark"])
            out[cur] = []
        elif cur is not None:
            out[cur].append(line)
    return out


# ---- one batch ------------------------------------------------------------------------------
class BatchRun:
    def __init__(self, ctx, batch, behaviours, fns, work):
        self.ctx, self.b, self.beh, self.fns = ctx, batch, behaviours, fns
        self.dir = os.path.join(work, "b%d" % batch.index)
        os.makedirs(self.dir, exist_ok=True)
        self.n = batch.index

    def prepare(self):
        n, d = self.n, self.dir
        for prom in (False, True):
            sub = os.path.join(d, "prom" if prom else "pub")
            os.makedirs(sub, exist_ok=True)
            open(os.path.join(sub, "lib%d.h" % n), "w").write(self.b.header(prom))
        open(os.path.join(d, "lib%d_impl.cxx" % n), "w").write(self.b.impl())
        open(os.path.join(d, "lib%d_native.cxx" % n), "w").write(self.b.native())
        open(os.path.join(d, "lib%d.script" % n), "w").write(W.native_script(self.beh))
        json.dump(dict(fns=[f.desc() for f in self.b.fns], behaviours=[dict(b=x["b"], fam=x["fam"], steps=x["steps"]) for x in self.beh]),
                  open(os.path.join(d, "lib%d.json" % n), "w"))
        inc = ["-I" + HARNESS, "-I" + os.path.join(d, "pub")]
        cxx = ["g++", "-std=c++17", "-O0", "-w", "-fPIC"] + inc
        must(cxx + ["-c", "lib%d_impl.cxx" % n, "-o", "impl.o"], d, "compiling the generated library")
        must(cxx + ["-c", os.path.join(HARNESS, "wrapc_rt.cxx"), "-o", "rt.o"], d, "compiling the runtime")
        must(cxx + ["lib%d_native.cxx" % n, "impl.o", "rt.o", "-o", "native"], d, "compiling the native driver")
        log = os.path.join(d, "native.log")
        p = subprocess.run(["./native", "lib%d.script" % n], cwd=d, stdout=subprocess.PIPE, stderr=subprocess.PIPE,
                           env=dict(os.environ, VF_LOG=log), timeout=600)
        if p.returncode != 0:
            raise MachineryError("native driver of batch %d exit %s: %s" % (n, p.returncode, p.stderr.decode()[-500:]))
        nat = {}
        for line in p.stdout.decode().splitlines():
            r = json.loads(line)
            nat[(r["b"], r["i"])] = r
        # spec sanity: the generated C++ computes what the spec says
        for x in self.beh:
            for i, (st, e) in enumerate(zip(x["steps"], x["expect"])):
                r = nat.get((x["b"], i))
                want = e["ret"]
                if st["op"] == "call" and st["fk"] in ("setter", "opIndexRef"):
                    want = None
                if r is None or r["ret"] != want or r["post"] != e["post"]:
                    raise MachineryError("spec != native C++ at step %d of behaviour %d: %s\n spec  %r\n native %r" % (
                        i, x["b"], call_text(st, self.fns), e, r))
        self.native_log = read_log(log)

    # one option set
    def replay(self, opt):
        n, d = self.n, self.dir
        tag = opt["id"]
        sub = os.path.join(d, tag)
        os.makedirs(sub, exist_ok=True)
        hdir = os.path.join(d, "prom" if opt["promiscuous"] else "pub")
        libname = "lib%d%s" % (n, "".join(c for c in tag if c.isalnum()))
        res = dict(opt=opt, batch=n, fatal=None, lines={}, dbchecks=[], crashed=[], log={}, skipped=0)
        r = run.run_tool("interrogate", ["-od", os.path.join(sub, "lib.in"), "-oc", os.path.join(sub, "wrap.cxx"),
                                         "-module", "m", "-library", libname, "-nodb", "-DCPPPARSER",
                                         "-S", os.path.join(REPO, "parser-inc")] + opt["args"] + ["lib%d.h" % n],
                         cwd=hdir, timeout=300)
        if r.rc != 0 or r.timed_out:
            res["fatal"] = "interrogate %s exit %s: %s" % (" ".join(opt["args"]), r.rc, r.stderr[-600:])
            return res
        cxx = ["g++", "-std=c++17", "-O0", "-w", "-fPIC", "-I" + HARNESS, "-I" + hdir]
        src = "wrap.cxx"
        if opt["fptrs"]:
            # without -fnames the wrappers are static: their only handle is the function pointer table,
            # indexed by the wrapper index of the database
            open(os.path.join(sub, "tab.cxx"), "w").write(
                '#include "wrap.cxx"\nextern "C" void **vf_fptrs() { return _in_fptrs; }\n'
                'extern "C" int vf_nfptrs() { return (int)(sizeof(_in_fptrs) / sizeof(void *)); }\n')
            src = "tab.cxx"
        extra = []
        if opt["backend"] == "python":
            extra = ["-I" + pyinc()]
        rc, out = sh(cxx + extra + ["-c", src, "-o", "wrap.o"], sub)
        if rc != 0:
            res["fatal"] = "generated wrapper code does not compile (%s): %s" % (" ".join(opt["args"]), out[:1200])
            return res
        so = os.path.join(sub, libname + ".so")
        rc, out = sh(["g++", "-shared", "-o", so, "wrap.o", os.path.join(d, "impl.o"), os.path.join(d, "rt.o")], sub)
        if rc != 0:
            res["fatal"] = "generated wrapper code does not link: %s" % out[:1200]
            return res
        db = idb.dump([os.path.join(sub, "lib.in")])
        if "wrappers" not in db:
            res["fatal"] = "the database cannot be read back: %r" % (db,)
            return res
        json.dump(db, open(os.path.join(sub, "db.json"), "w"))
        todo = [x for x in self.beh if opt["string"] or not uses_string(x, self.fns)]
        if opt["backend"] == "c":
            # the C calling convention passes strings as NUL-terminated char *: an argument with an embedded NUL
            # cannot be expressed (it IS its prefix, a case the alphabet contains anyway)
            todo = [x for x in todo if not passes_nul(x)]
        res["skipped"] = len(self.beh) - len(todo)
        res["todo"] = [x["b"] for x in todo]
        skip = set(x["b"] for x in self.beh) - set(res["todo"])
        outp = os.path.join(sub, "out.ndjson")
        logp = os.path.join(sub, "wrap.log")
        for attempt in range(12):
            cfg = dict(backend=opt["backend"], string=opt["string"], db=os.path.join(sub, "db.json"),
                       lib=os.path.join(d, "lib%d.json" % n), so=so, out=outp, fptrs=opt["fptrs"], skip=sorted(skip),
                       module=libname, module_path=so)
            json.dump(cfg, open(os.path.join(sub, "cfg.json"), "w"))
            p = subprocess.run([sys.executable, os.path.join(HARNESS, "wrapc_drive.py"), os.path.join(sub, "cfg.json")],
                               cwd=sub, stdout=subprocess.PIPE, stderr=subprocess.PIPE, env=dict(os.environ, VF_LOG=logp), timeout=900)
            done, open_b, last_i = False, None, -1
            for line in open(outp):
                rec = json.loads(line)
                if rec.get("done"):
                    done = True
                elif rec.get("begin"):
                    open_b, last_i = rec["b"], -1
                elif rec.get("end"):
                    skip.add(rec["b"])
                    open_b = None
                elif "dbcheck" in rec:
                    res["dbchecks"].append(rec["dbcheck"])
                elif "i" in rec:
                    res["lines"][(rec["b"], rec["i"])] = rec
                    last_i = rec["i"]
            if done:
                break
            if open_b is None:
                res["fatal"] = "wrapper driver died outside any behaviour (exit %s): %s" % (p.returncode, p.stderr.decode()[-800:])
                return res
            res["crashed"].append((open_b, last_i + 1, p.returncode, p.stderr.decode()[-300:]))
            skip.add(open_b)
            os.rename(outp, outp + ".%d" % attempt)
        res["log"] = read_log(logp)
        if os.environ.get("C01_SELFTEST_CORRUPT_LOG") == opt["id"] and n == 0:
            # development aid (README-DEV "showing the binding is real"): flip one recorded argument
            for key in sorted(res["log"]):
                if res["log"][key] and '"args":[' in res["log"][key][0] and not res["log"][key][0].endswith('"args":[]}'):
                    res["log"][key][0] = res["log"][key][0].replace('"args":[', '"args":[7,', 1)
                    break
        return res


def judge(ctx, br, res, stats):
    """compare one option set's replay of one batch with the spec; returns #steps compared"""
    opt = res["opt"]
    tag = opt["id"]
    fns = br.fns
    bcls = batch_classes(opt, br.b.features)
    for c in bcls:
        m = stats["prec"].setdefault(c, [0, 0])
        m[1] += 1
        m[0] += bool(res["fatal"])
    if res["fatal"]:
        ctx.violation("[%s] batch %d %s: %s" % (tag, res["batch"], sorted(br.b.features), res["fatal"]),
                      dict(optset=tag, args=opt["args"], error=res["fatal"], features=sorted(br.b.features),
                           header=os.path.join(br.dir, "prom" if opt["promiscuous"] else "pub", "lib%d.h" % br.n),
                           stat_key=tag + " fatal"), classes=bcls)
        return 0
    crashed = {b: (i, rc, err) for b, i, rc, err in res["crashed"]}
    todo = set(res["todo"])
    n = 0
    for x in br.beh:
        if x["b"] not in todo:
            continue
        for i, (st, e) in enumerate(zip(x["steps"], x["expect"])):
            cls = classes_of(opt, st, fns)
            for c in cls:
                m = stats["prec"].setdefault(c, [0, 0])
                m[1] += 1
            r = res["lines"].get((x["b"], i))
            what = None
            if r is None:
                if x["b"] in crashed and crashed[x["b"]][0] == i:
                    what = "the wrapper call killed the process (exit %s)" % crashed[x["b"]][1]
                else:
                    what = "no result for this step"
            elif "err" in r:
                what = r["err"]
            else:
                n += 1
                want, got = e["ret"], r["ret"]
                if opt["backend"] == "c":
                    # ... and a std::string result reaches a C caller as char *: CppLibCalls!CView, cut at the NUL
                    want = W.c_view(want)
                if st["op"] == "call" and st["fk"] in ("setter", "opIndexRef"):
                    want, got = st["rb"], got.get("rb") if isinstance(got, dict) else got
                    if st.get("data_kind") == "objPtr":
                        want = st["args"][0]
                    if opt["backend"] == "c":
                        want = W.c_view(want)
                if got != want:
                    what = "returned %r, C++ returns %r" % (got, want)
                elif r["post"] != e["post"]:
                    what = "object states [st, bst, payload] after the call are %r, C++ leaves %r" % (r["post"], e["post"])
                else:
                    wl, nl = res["log"].get((x["b"], i), []), br.native_log.get((x["b"], i), [])
                    if wl != nl:
                        what = "the instrumented bodies logged %r, the native call logs %r" % (wl, nl)
            if what is None:
                continue
            for c in cls:
                stats["prec"][c][0] += 1
            s = fns[st["gid"]].sig if "gid" in st else None
            key = "%s | %s %s(%s) | %s" % (tag, s["fk"] if s else st["op"], s["ret"] if s else "", ",".join(s["ps"]) if s else "",
                                          what.split(",")[0][:60])
            prefix = [call_text(y, fns) for y in x["steps"][:i + 1]]
            ctx.violation("[%s] %s: %s" % (tag, call_text(st, fns), what),
                          dict(optset=tag, interrogate_args=opt["args"], step=i, script=prefix, expected=e, observed=r,
                               header=os.path.join(br.dir, "prom" if opt["promiscuous"] else "pub", "lib%d.h" % br.n), stat_key=key),
                          classes=cls)
            break        # later steps of this behaviour depend on this one
    # WrapC!Required: the database lists exactly the wrapper variants the spec demands for each function
    # that was used (one per omitted default; `this` first; optional flags on the defaulted parameters)
    req = {}
    for x in br.beh:
        for gid, vs in x["req"].items():
            req.setdefault(int(gid), set()).update((v[0], v[1], v[2], tuple(v[3])) for v in vs)
    for chk in res["dbchecks"]:
        fn = fns[chk["gid"]]
        s = fn.sig
        if W.cpp_name_group(s) is not None or s["name"] or s["fk"] in ("getter", "setter") or chk["gid"] not in req:
            continue        # names shared by several signatures are judged variant by variant when they are called
        want = sorted((np, this, (False,) * (1 if this else 0) + opt) for k, np, this, opt in req[chk["gid"]])
        got = sorted((len(v["params"]), bool(v["this"] and v["this"][0]), tuple(v["optional"])) for v in chk["variants"])
        if got != want:
            ctx.violation("[%s] %s: the database lists wrapper variants (parameters, this first, optional flags) %r, the "
                          "library needs %r" % (tag, W.declaration(fn), got, want),
                          dict(optset=tag, dbcheck=chk, required=want, stat_key=tag + " variants"))
    return n


def run_check(ctx):
    build.ensure("hooked")
    tier = ctx.tier
    work = ctx.tmp
    # ---- TLC: exhaustive single calls + simulated sequences (concurrently) -----------------
    dump1 = os.path.join(work, "single.ndjson")
    dump2 = os.path.join(work, "seq.ndjson")
    nseq = 200 if tier == "quick" else 5000
    workers = 3 if tier == "quick" else 6
    out = {}

    def t1():
        out["single"] = tlc.run("WrapCMC", "WrapC_" + tier, workers=workers, env={"VERIF_DUMP": dump1}, timeout=1500)

    def t2():
        out["seq"] = tlc.run("WrapCSeqMC", "WrapC_seq", workers=workers, env={"VERIF_DUMP": dump2}, timeout=1500,
                             simulate=-(-int(nseq * 1.8) // workers), depth=30)
    dump3 = os.path.join(work, "ovl.ndjson")

    def t3():
        out["ovl"] = tlc.run("WrapCMC", "WrapC_ovl_" + tier, workers=workers, env={"VERIF_DUMP": dump3}, timeout=1500)
    th = [threading.Thread(target=t1), threading.Thread(target=t2), threading.Thread(target=t3)]
    for t in th:
        t.start()
    for t in th:
        t.join()
    for k in ("single", "ovl", "seq"):
        res = out[k]
        ctx.add_tlc(res)
        if res.verdict == "invariant":
            raise MachineryError("WrapC: model invariant %s violated\n%s" % (res.violated, res.out[-2500:]))
        tlc.must_ok(res)
    try:
        single = tlc.read_dump(dump1)
        seqs = tlc.read_dump(dump2)
        ovl = tlc.read_dump(dump3)
    except ValueError as e:
        raise MachineryError("a TLC dump is damaged (records of concurrent workers interleaved?): %s" % e)
    keyf = lambda r: json.dumps(r, sort_keys=True)
    single.sort(key=keyf)
    ovl.sort(key=keyf)
    seqs = sorted({keyf(r): r for r in seqs}.values(), key=keyf)[:nseq]
    if len(seqs) < nseq // 2:
        raise MachineryError("simulation produced only %d complete call sequences" % len(seqs))
    recs = single + ovl + seqs

    # ---- render -----------------------------------------------------------------------------
    nb = 2 if tier == "quick" else 6
    P = W.Packer(nb)
    beh = []
    for bid, r in enumerate(recs):
        fam, fnmap = P.add_lib(r["lib"])
        m = dict(fnmap)
        for (k, cname), fn in P.fams[fam]["fns"].items():
            if k == W.sig_key(W.base_ctor_sig(fn.sig["cls"])) and fn.sig["fk"] == "ctor":
                m.setdefault(k, fn)
        beh.append(W.resolve(r, bid, fam, m))
    batches = P.batches()
    runs = []
    for b in batches:
        fams = set(b.fams)
        runs.append(BatchRun(ctx, b, [x for x in beh if x["fam"] in fams], {fn.gid: fn for fn in b.fns}, work))
    run.pmap(lambda br: br.prepare(), runs, workers=JOBS)

    # ---- replay through the wrappers, every option set ------------------------------------------
    opts = optsets(tier)
    jobs = [(br, o) for o in opts for br in runs]
    results = run.pmap(lambda j: j[0].replay(j[1]), jobs, workers=JOBS)
    stats = dict(prec={})
    per_opt = collections.OrderedDict()
    total = 0
    for (br, o), res in zip(jobs, results):
        n = judge(ctx, br, res, stats)
        total += n
        d = per_opt.setdefault(o["id"], dict(interrogate=" ".join(o["args"]) + " -nodb", steps=0, behaviours=0, skipped_outside_domain=0, crashed=0))
        d["steps"] += n
        d["behaviours"] += len(res.get("todo", []))
        d["skipped_outside_domain"] += res["skipped"]
        d["crashed"] += len(res["crashed"])

    # ---- evidence -------------------------------------------------------------------------------
    nsig = len(set(W.sig_key(s) for r in recs for s in r["lib"]))
    novl = sum(1 for r in seqs if len(set((s["cls"], s["name"]) for s in r["lib"] if s["name"])) < sum(1 for s in r["lib"] if s["name"]))
    calls = set()
    for x in beh:
        for st in x["steps"]:
            if st["op"] in ("new", "call"):
                calls.add((st["gid"], st["k"], st.get("this", 0), json.dumps(st["args"])))
    # ---- scopes / arity 4-6 with defaults / casts under multiple and virtual inheritance (spec WrapCScope) ----
    sinfo = scope_part(ctx, work)
    ctx.cov["evaluations"] = total + sinfo["steps_compared"]
    ctx.cov["traces_validated_against_impl"] = sum(d["behaviours"] for d in per_opt.values()) + sinfo["behaviour_replays"]
    ctx.cov["distinct_nontrivial"] = len(calls) + sinfo["distinct_calls"]
    ctx.cov["exhaustive"] = True
    ctx.cov["rule"] = ("overload sets: every pair of the 20 parameter kinds under one name (quick: each pair in one of nine "
                       "flavour / class / position universes, thorough: in all nine) plus six groups of conversion-related "
                       "kinds in six flavours, every variant called with the covering diagonal of boundary values, exhaustively; "
                       "single-call behaviours: TLC enumerates every signature of the tier's alphabet (specs/WrapCMC.tla: every "
                       "return kind x parameter kind, every pair of parameter kinds thinned by a stride in the quick tier, every "
                       "flavour x return kind, constructors, operators, data member accessors) x a covering diagonal (thorough: "
                       "the full product) of boundary values x the objects it can be called on, exhaustively; sequences: TLC "
                       "-simulate, every wrapper variant called >= 2 times on different objects / arguments; distinct = distinct "
                       "(function, omitted defaults, this, arguments) calls; all are non-trivial (each executes a wrapper)")
    ctx.notes.update(signatures=nsig, single_call_behaviours=len(single), overload_set_behaviours=len(ovl),
                     overload_sets=len(set(json.dumps(r["lib"], sort_keys=True) for r in ovl)), sequences=len(seqs), sequences_with_overload_sets=novl,
                     batches=len(batches),
                     families=len(P.fams), generated_functions=sum(len(b.fns) for b in batches), option_sets=per_opt,
                     finding_class_failed_of_members=stats["prec"])
    ctx.notes["python_true_names"] = ("-python -true-names is not replayed: the module registers each (static) wrapper under "
                                      "clean_identifier(C++ name), which the database does not record (it names the _inP... "
                                      "function); every constructor collides with the implicit copy constructor under one name, "
                                      "so no object can be constructed reliably.  -c -true-names needs -fptrs (it excludes "
                                      "-fnames): the static wrappers are reached through _in_fptrs[database wrapper index - 1]")
    ctx.notes["isolation"] = ("libraries with constructs whose wrappers are known not to compile in some option set (array data "
                              "members) are rendered into batches of their own (wraplib.lib_features), so that such a batch "
                              "failing to compile is attributed to that input class and the other batches are replayed")
    ctx.notes["not_c01"] = ("with -string a `const wchar_t *` parameter is recorded as atomic string while the C wrapper takes "
                            "wchar_t const * (database vs code: C11); wide strings are not in the alphabet")
    ctx.assumptions.append("the query interface does not expose the underlying type of an enumeration (enumerator values are "
                           "reported as int): the -c driver sizes the two scoped enumerations of the generated header (EnC : "
                           "char, EnL : long long) as declared there; every other C type is taken from the database")
    ctx.notes["outside_alphabet"] = ("class-typed data members: the getter of a member whose type is a typedef of a class returns "
                                     "a copy (new T_t((param0)->m)) where a member declared with the class name returns "
                                     "&(param0)->m (scan_element tests as_struct_type() on the unresolved typedef); for a "
                                     "non-copyable class the generated code does not compile - reproduced by hand, not in the "
                                     "enumerated domain")
    ctx.notes["nodb"] = ("every option set adds -nodb (the generated file then needs no dtool headers); the database is still "
                         "written with -od and is what drives every call")
    ctx.notes["destructors"] = ("neither back-end emits a destructor wrapper (InterfaceMaker::record_object never records "
                                "get_destructor()); Destroy(o) is performed by a helper of the generated library")
    for x in (beh[0], beh[len(single) // 2], beh[-1]):
        fns = next(br.fns for br in runs if x["fam"] in br.b.fams)
        ctx.sample(dict(script=[call_text(st, fns) for st in x["steps"]], expected=x["expect"]))
