"""C04 — only the published API of the files named on the command line is exported.

spec CppLib (the library handed to interrogate, built one declaration per step) + Export (the RULE
`Exported(e)` as predicates on the declaration's facts; the MECHANISM = build() scan + on-demand get_type
closure as a worklist system; TLC: safety of the mechanism in every worklist state, mechanism = rule at the
fix-point) -> every complete library is rendered to a header tree (+ .N file), interrogate runs from the
chosen cwd with -I/-S, the -od database is read back through the query interface and the set of known /
defined / global types and callable declarations is compared with the set the rule demands; the generated
-oc code is scanned for the unique marker names of entities that must not be exported."""
import json, os, subprocess
from ..common import MachineryError, NCPU
from .. import build, tlc, run, idb, cpplib

BATCH = 200
QUICK = ["Export_sections", "Export_kinds", "Export_nested", "Export_files", "Export_filetops", "Export_tops", "Export_tops2", "Export_cmds",
         "Export_alias", "Export_aliasfile", "Export_aliasnest", "Export_props"]
THOROUGH = ["Export_sections"] + [c + "_t" for c in QUICK]


# ---- known-finding classes: predicates over the INPUT library only ---------------------------------
def classes_of(cs):
    lib = cs.lib
    out = []
    cm = lib["cmd"]
    if cm["c"] == "ignoremember" and cs.cls[cm["k"] - 1]["members"][cm["i"] - 1]["k"] in ("data", "datap"):
        out.append("C04-ignoremember-data")
    minrank = cs.RANK[lib["minvis"]]
    for c, k in enumerate(cs.cls, 1):
        for j, m in enumerate(k["members"], 1):
            # MAKE_PROPERTY / MAKE_SEQ declared in a section that is not exported
            if m["k"] in ("mprop", "mseq") and cs.RANK[cs.vis_at(c, j)] > minrank:
                out.append("C04-property-visibility")
            # an array data member whose element type is a protected / private nested class
            if m["k"] == "dataa" and cs.RANK[cs.class_vis(m["rc"])] > 1:
                out.append("C04-array-protected")
    # a parameter / return type named through an alias of a reference type
    def wraps(a):
        A = lib["aliases"][a - 1]
        return ({A["wrap"]} - {"plain"}) | (wraps(A["tc"]) if A["tt"] == "alias" else set())
    uses = [m for k in cs.cls for m in k["members"] if m["k"] in ("usea", "reta")] + [d for d in lib["tops"] if d["k"] == "usefa"]
    if any("cref" in wraps(u["ra"]) for u in uses):
        out.append("C04-ref-alias-param")
    # a class that build() never scans (namespace member) and that an exported namespace-scope function mentions
    for d in lib["tops"]:
        if d["k"] == "usef" and d["region"] and not d["ns"] and cs.cls[d["rc"] - 1]["ns"]:
            out.append("C04-late-type-unwrapped")
    return out


def gxx_check(work, b, batch):
    """spec sanity: the rendered headers are valid C++ (with the publishing keywords mapped to standard ones)"""
    tu = "".join('#include "%s"\n' % a for cs in batch for a in cs._args)
    p = os.path.join(work, "tu.cxx")
    open(p, "w").write(tu)
    r = subprocess.run(["g++", "-std=c++17", "-fsyntax-only", "-w", "-D__published=public", "-D__begin_publish=",
                        "-D__end_publish=", "-D__make_property(...)=", "-D__make_seq(...)=", "-I.", "-Isub", "-Iinc", "-Isys", "tu.cxx"], cwd=work,
                       stdout=subprocess.PIPE, stderr=subprocess.PIPE, text=True)
    return r.returncode, r.stderr[:3000]


def run_batch(a):
    tmp, b, minvis, backend, recs = a
    work = os.path.join(tmp, "b%d" % b)
    os.makedirs(work)
    cpplib.make_tree(work)
    batch = [cpplib.Case(i, rec) for i, rec in recs]
    args = []
    for cs in batch:
        cs._args = cs.write(work)
        args += cs._args
    grc, gerr = gxx_check(work, b, batch)
    if grc != 0:
        return dict(b=b, gxx_error=gerr)
    opts = ["-od", "x.in", "-oc", "x.cxx", "-module", "m", "-library", "l%d" % b, backend]
    if minvis == "public":
        opts.append("-promiscuous")
    r = run.run_tool("interrogate", opts + cpplib.INCLUDE_ARGS + args, cwd=work, timeout=300)
    res = dict(b=b, rc=r.rc, err=r.stderr[-1500:], cmd="interrogate " + " ".join(opts + cpplib.INCLUDE_ARGS) + " <files>")
    if r.rc != 0:
        return res
    d = idb.dump([os.path.join(work, "x.in")])
    if "types" not in d:
        res["rc"] = "dump:%s" % d.get("crashed")
        res["err"] = d.get("stderr", "")
        return res
    db = cpplib.DB(d)
    res["obs"] = {cs.i: cpplib.observe_case(cs, db) for cs in batch}
    res["marks"] = cpplib.markers_in_code(open(os.path.join(work, "x.cxx"), errors="replace").read())
    return res


def fmt(s):
    return sorted(s)


def run_check(ctx):
    build.ensure("hooked")
    cfgs = QUICK if ctx.tier == "quick" else THOROUGH
    if os.environ.get("C04_CFGS"):          # development aid
        cfgs = os.environ["C04_CFGS"].split(",")

    def one(cfg):
        dump = os.path.join(ctx.tmp, cfg + ".ndjson")
        return cfg, dump, tlc.run("ExportMC", cfg, workers=4 if ctx.tier == "quick" else 8,
                                  env={"VERIF_DUMP": dump}, timeout=2400, xmx="3g")
    recs = []
    for cfg, dump, res in run.pmap(one, cfgs, workers=4 if ctx.tier == "quick" else 2):
        ctx.add_tlc(res)
        if res.verdict == "invariant":
            raise MachineryError("Export: invariant %s violated in %s (mechanism vs rule)\n%s" % (res.violated, cfg, res.out[-3000:]))
        tlc.must_ok(res, cfg)
        got = {json.dumps(r, sort_keys=True) for r in tlc.read_dump(dump)}
        ctx.notes.setdefault("libraries_per_cfg", {})[cfg] = len(got)
        recs += sorted(got)
    recs = [json.loads(r) for r in sorted(set(recs))]
    cases = list(enumerate(recs))
    batches = []
    for mv in ("published", "public"):
        sel = [(i, r) for i, r in cases if r["lib"]["minvis"] == mv]
        for k in range(0, len(sel), BATCH):
            # quick: handle-style C wrappers; thorough: every second batch through the Python-native back-end
            backend = "-python-native" if ctx.tier != "quick" and len(batches) % 2 else "-c"
            batches.append((ctx.tmp, len(batches), mv, backend, sel[k:k + BATCH]))
    n_ent = 0
    distinct = set()
    for res, ba in zip(run.pmap(run_batch, batches, workers=min(NCPU, 10)), batches):
        batch = [cpplib.Case(i, rec) for i, rec in ba[4]]
        if "gxx_error" in res:
            raise MachineryError("g++ rejects a rendered library (spec WF too weak): %s" % res["gxx_error"])
        if res["rc"] != 0:
            ctx.violation("interrogate exit %s on a batch of valid libraries: %s" % (res["rc"], res["err"][-300:]),
                          dict(batch=res["b"], cmd=res["cmd"], first=batch[0].text()))
            continue
        marks = {}
        for i, e in res["marks"]:
            marks.setdefault(i, set()).add(e)
        for cs in batch:
            exp = cpplib.expected_case(cs)
            obs = res["obs"][cs.i]
            cls = classes_of(cs)
            n_ent += sum(len(k["members"]) + 1 for k in cs.cls) + len(cs.tops)
            distinct.add(json.dumps(cs.lib, sort_keys=True))
            for key, what in (("callable", "callable declarations"), ("defined", "fully defined types"),
                              ("known", "types with a record"), ("glob", "global types"), ("dtor", "classes with a destructor")):
                if exp[key] != obs[key]:
                    leak, miss = obs[key] - exp[key], exp[key] - obs[key]
                    ctx.violation("%s: database has %s the rule does not export, lacks %s  [%s]" % (
                        what, fmt(leak), fmt(miss), " ".join(cs.text().split())[:600]),
                        dict(program=cs.text(), lib=cs.lib, expected={k: fmt(v) for k, v in exp.items()},
                             observed={k: fmt(v) for k, v in obs.items()}, cmd=res["cmd"],
                             stat_key="%s leak=%d miss=%d cmd=%s" % (key, len(leak), len(miss), cs.lib["cmd"]["c"])), classes=cls)
                    break
            # generated code must not mention an entity that is not exported
            mentioned = marks.get(cs.i, set())
            okset = set(exp["callable"]) | {("m", c, j) for (c, j) in exp["known"] if j}
            okset |= {("t", 0, t) for t, d in enumerate(cs.tops, 1) if d["k"] == "tdefc"}   # typedef names: no claim
            bad = {e for e in mentioned if e not in okset}
            if bad:
                ctx.violation("generated wrapper code mentions non-exported entities %s  [%s]" % (
                    fmt(bad), " ".join(cs.text().split())[:600]),
                    dict(program=cs.text(), lib=cs.lib, mentioned=fmt(mentioned), exported=fmt(okset), cmd=res["cmd"],
                         stat_key="code-mentions"), classes=cls)
    ctx.cov["evaluations"] = n_ent
    ctx.cov["traces_validated_against_impl"] = len(cases)
    ctx.cov["distinct_nontrivial"] = len(distinct)
    ctx.cov["exhaustive"] = True
    ctx.cov["rule"] = ("TLC enumerates every library within the alphabets of the cfgs (one declaration per step; access "
                       "labels, publish regions, namespaces, file source classes, one .N command, both min_vis); each "
                       "complete library is replayed through interrogate and every class / member / namespace-scope "
                       "declaration is compared; distinct = distinct library records, all non-trivial (each contains at "
                       "least one declaration whose export status the rule decides)")
    ctx.assumptions += [
        "claimed domain: classes at namespace scope / in one namespace / nested one level; members and namespace-scope "
        "declarations of the kinds listed in specs/ExportMC.tla; at most two files and one .N command per library",
        "a class is exported if it is itself visible OR has a visible member (documented intent, DESIGN §9); a public "
        "destructor and a public static get_class_type() are exported regardless of min_vis (documented exceptions)",
        "ignoreinvolved is claimed for functions only (the builder documents it for functions; accessors of a data member "
        "whose type is ignoreinvolved are outside the claim)",
        "namespace-scope typedefs are exported regardless of a publish region (documented in scan_typedef_type); only "
        "the struct they name is compared",
    ]
    for i, rec in cases[:: max(1, len(cases) // 5)][:5]:
        cs = cpplib.Case(i, rec)
        ctx.sample(dict(library=cs.text(), expected={k: fmt(v) for k, v in cpplib.expected_case(cs).items()}))
